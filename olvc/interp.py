"""olvc.interp -- meta-circular symbolic interpreter over the AST of the real functions.

Concrete operations are delegated to CPython; only symbolic leaves (olvc.sym, olvc.tmpl)
are handled here.  The evaluator is written with generators so that the real
yield/send protocol of the code under verification is *executed*, not modelled.
Part 1: objects, frames, calls.  Statement/expression evaluation is in interp_eval.py,
loops in interp_loops.py (mixins).
"""
from __future__ import annotations

import ast
import builtins
import types

from . import extract
from .sym import (
    Fold, Opaque, Poison, SBool, Seg, SInt, Unsupported, ctx, has_seg,
)
from .tmpl import Fn, Hole, Join, Tmpl

SYMBOLIC = (SInt, SBool, Opaque, Seg, Fold, Poison, Tmpl, Hole, Join, Fn)


class IRaise(BaseException):
    """An exception raised *by the interpreted program* (or by a native operation done on
    its behalf).  Everything else escaping the interpreter is an engine bug."""

    def __init__(self, exc):
        super().__init__(repr(exc))
        self.exc = exc


class IStop(Exception):
    """Stand-in for StopIteration (which cannot travel through generator frames)."""

    def __init__(self, value=None):
        super().__init__(value)
        self.value = value


class HFn:
    """A harness-supplied callable: called natively with raw (possibly symbolic) args."""

    def __init__(self, f, name=None):
        self.f = f
        self.name = name or getattr(f, "__name__", "hfn")

    def __repr__(self):
        return f"<HFn {self.name}>"


class IFunc:
    """Interpreted function object (closure)."""

    def __init__(self, node, globals_, enclosing, defaults, kw_defaults, name, qualname,
                 cls=None, native=None):
        self.node = node
        self.globals = globals_
        self.enclosing = enclosing  # list of dicts, innermost first
        self.defaults = defaults
        self.kw_defaults = kw_defaults
        self.name = name
        self.qualname = qualname
        self.cls = cls
        self.native = native
        self.is_generator = _has_yield(node)
        self.local_names, self.global_names, self.nonlocal_names = _scan_locals(node)

    def __repr__(self):
        return f"<IFunc {self.qualname}>"


class BoundI:
    def __init__(self, fn, self_obj):
        self.fn, self.self_obj = fn, self_obj


class ISuper:
    def __init__(self, cls, obj):
        self.cls, self.obj = cls, obj


class IGen:
    """Interpreted generator object."""

    def __init__(self, pygen, name):
        self.gen = pygen
        self.name = name
        self.started = False
        self.finished = False

    def send(self, v):
        try:
            self.started = True
            return self.gen.send(v)
        except StopIteration as e:
            self.finished = True
            raise IRaise(IStop(e.value)) from None

    def __repr__(self):
        return f"<IGen {self.name}>"


class SymMethod:
    """Method of a symbolic value (string template, opaque, list...)"""

    def __init__(self, obj, name):
        self.obj, self.name = obj, name

    def __repr__(self):
        return f"<SymMethod {type(self.obj).__name__}.{self.name}>"


# wrappers produced by enumerate/reversed/zip/chain over lists with segments
class EnumObj:
    def __init__(self, lst, start=0):
        self.lst, self.start = lst, start


class RevObj:
    def __init__(self, lst):
        self.lst = lst


class ZipObj:
    def __init__(self, lists):
        self.lists = lists


class ChainObj:
    def __init__(self, lists):
        self.lists = lists


def _has_yield(fnode):
    body = fnode.body if isinstance(fnode.body, list) else [fnode.body]
    todo = list(body)
    while todo:
        n = todo.pop()
        if isinstance(n, (ast.Yield, ast.YieldFrom)):
            return True
        if isinstance(n, (ast.FunctionDef, ast.AsyncFunctionDef, ast.Lambda, ast.ClassDef)):
            continue
        todo.extend(ast.iter_child_nodes(n))
    return False


def _scan_locals(fnode):
    """names local to the function (assigned, parameters), declared global / nonlocal"""
    loc, glo, nonl = set(), set(), set()
    a = fnode.args
    for x in a.posonlyargs + a.args + a.kwonlyargs:
        loc.add(x.arg)
    if a.vararg:
        loc.add(a.vararg.arg)
    if a.kwarg:
        loc.add(a.kwarg.arg)
    body = fnode.body if isinstance(fnode.body, list) else [fnode.body]
    todo = list(body)
    while todo:
        n = todo.pop()
        if isinstance(n, (ast.FunctionDef, ast.AsyncFunctionDef, ast.ClassDef)):
            loc.add(n.name)
            # decorators/defaults belong to this scope
            if not isinstance(n, ast.ClassDef):
                todo.extend(n.args.defaults)
                todo.extend(d for d in n.args.kw_defaults if d is not None)
            todo.extend(n.decorator_list)
            continue
        if isinstance(n, ast.Lambda):
            todo.extend(n.args.defaults)
            todo.extend(d for d in n.args.kw_defaults if d is not None)
            continue
        if isinstance(n, (ast.ListComp, ast.SetComp, ast.DictComp, ast.GeneratorExp)):
            # targets are local to the comprehension; walrus inside binds here
            for sub in ast.walk(n):
                if isinstance(sub, ast.NamedExpr):
                    loc.add(sub.target.id)
            todo.append(n.generators[0].iter)
            continue
        if isinstance(n, ast.Name) and isinstance(n.ctx, (ast.Store, ast.Del)):
            loc.add(n.id)
        elif isinstance(n, ast.Global):
            glo.update(n.names)
        elif isinstance(n, ast.Nonlocal):
            nonl.update(n.names)
        elif isinstance(n, (ast.Import, ast.ImportFrom)):
            for al in n.names:
                loc.add((al.asname or al.name).split(".")[0])
        elif isinstance(n, ast.ExceptHandler) and n.name:
            loc.add(n.name)
        todo.extend(ast.iter_child_nodes(n))
    loc -= glo
    loc -= nonl
    return loc, glo, nonl


class Frame:
    def __init__(self, ifn: IFunc | None, locals_, globals_, enclosing, cls=None, self_obj=None,
                 name="<frame>"):
        self.ifn = ifn
        self.locals = locals_
        self.globals = globals_
        self.enclosing = enclosing
        self.cls = cls
        self.self_obj = self_obj
        self.name = name
        self.local_names = ifn.local_names if ifn else None  # None: module-like (all local)
        self.global_names = ifn.global_names if ifn else set()
        self.nonlocal_names = ifn.nonlocal_names if ifn else set()

    def child(self, extra_locals):
        """scope for a comprehension: new innermost dict, sharing the rest"""
        f = Frame.__new__(Frame)
        f.__dict__.update(self.__dict__)
        f.locals = extra_locals
        f.enclosing = [self.locals] + list(self.enclosing)
        f.local_names = set(extra_locals)
        f.is_comp = True
        f.parent = self
        return f


def contains_symbolic(v, depth=3):
    if isinstance(v, SYMBOLIC):
        return True
    if depth <= 0:
        return False
    if isinstance(v, (list, tuple, set, frozenset)):
        return any(contains_symbolic(x, depth - 1) for x in v)
    if isinstance(v, dict):
        return any(contains_symbolic(x, depth - 1) for x in v.values()) or any(
            contains_symbolic(x, depth - 1) for x in v.keys()
        )
    if isinstance(v, ast.AST):
        return any(contains_symbolic(getattr(v, f, None), depth - 1) for f in v._fields)
    return False


def wrap_native_function(fn: types.FunctionType) -> IFunc:
    node = extract.func_ast(fn.__code__)
    enclosing = []
    cls = None
    if fn.__closure__:
        cells = {}
        for nm, cell in zip(fn.__code__.co_freevars, fn.__closure__):
            try:
                val = cell.cell_contents
            except ValueError:
                continue
            if nm == "__class__":
                cls = val
            cells[nm] = val
        enclosing = [cells]
    return IFunc(
        node, fn.__globals__, enclosing,
        list(fn.__defaults__ or ()), dict(fn.__kwdefaults__ or {}),
        fn.__name__, fn.__qualname__, cls=cls, native=fn,
    )


_wrap_cache: dict = {}


def ifunc_of(fn):
    r = _wrap_cache.get(fn)
    if r is None:
        r = _wrap_cache[fn] = wrap_native_function(fn)
    return r


def stub_key(fn):
    """'module:qualname' of a native repo function / class"""
    return f"{fn.__module__}:{fn.__qualname__}"


BUILTIN_NAMES = vars(builtins)
