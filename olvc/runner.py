"""olvc.runner -- path exploration by re-execution with a decision log."""
from __future__ import annotations

import traceback

from . import sym
from .interp import IRaise
from .sym import Ctx, PathAbort, Restart, SolverUnknown, Unsupported


class Path:
    def __init__(self, ctx, kind, value):
        self.ctx = ctx
        self.kind = kind  # 'ok' | 'raise' | 'unsupported' | 'unknown'
        self.value = value

    def __repr__(self):
        return f"<Path {self.kind} {self.value!r} decisions={self.ctx.taken}>"


class ExplorationLimit(Exception):
    pass


class PathList(list):
    """all paths of one exploration.  ITERATING yields the decided paths only ('ok', 'raise'):
    an 'unsupported'/'unknown' path is never handed to code that would judge it.  The
    undecided ones are in `.undecided`; whoever reports them sets `.reported` (the group
    driver reports every exploration whose undecided paths nobody reported)."""

    def __init__(self, paths):
        super().__init__(paths)
        self.undecided = [p for p in paths if p.kind in ("unsupported", "unknown")]
        self.reported = False
        REGISTRY.append(self)

    def __iter__(self):
        return (p for p in list.__iter__(self) if p.kind not in ("unsupported", "unknown"))

    def everything(self):
        return list(list.__iter__(self))


REGISTRY = []  # PathLists created since the group started (reset by the group driver)


def explore(run_fn, max_paths=4000, max_restarts=12):
    """run_fn(ctx) is executed once per path.  Returns the list of Paths (feasible ones).
    Unsupported / SolverUnknown paths are returned with kind 'unsupported'/'unknown' --
    callers must turn them into UNDECIDED, never into proved or violated."""
    hints = {}
    for _attempt in range(max_restarts + 1):
        try:
            return PathList(_explore_once(run_fn, hints, max_paths))
        except Restart as r:
            if hints.get(r.key) == r.mode:
                raise Unsupported(f"loop {r.key}: summarisation mode {r.mode} did not converge")
            hints[r.key] = r.mode
    raise Unsupported("too many summarisation restarts")


def _explore_once(run_fn, hints, max_paths):
    work = [[]]
    out = []
    while work:
        dec = work.pop()
        c = Ctx(dec, hints)
        sym.set_ctx(c)
        try:
            try:
                v = run_fn(c)
                p = Path(c, "ok", v)
            except IRaise as e:
                p = Path(c, "raise", e.exc)
            except Unsupported as e:
                p = Path(c, "unsupported", str(e))
            except SolverUnknown as e:
                p = Path(c, "unknown", str(e))
            except RecursionError:
                # unbounded recursion of the interpreted code over a symbolic structure
                p = Path(c, "unsupported", "recursion limit reached while interpreting (the code recurses over a symbolic structure)")
            except PathAbort:
                p = None
        finally:
            sym.set_ctx(None)
        work.extend(c.pending)
        if p is not None:
            out.append(p)
        if len(out) + len(work) > max_paths:
            raise ExplorationLimit(f"more than {max_paths} paths")
    return out
