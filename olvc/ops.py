"""olvc.ops -- operations on values that may be symbolic: arithmetic, comparison, truth,
attribute access on opaques, list operations with segments, string-template methods.
Every function here either returns the exact result, forks through ctx(), or raises
Unsupported.  Nothing is approximated silently."""
from __future__ import annotations

import ast
import operator
import re

import z3

from .sym import (
    Fold, Opaque, Poison, SBool, Seg, SInt, Unsupported, ctx, has_seg, mk_bool, mk_int,
    sym_len, tagstr, zint,
)
from .tmpl import (
    STRLIKE, Fn, Hole, Join, Tmpl, as_tmpl, is_symstr, simplify, t_contains, t_edge_char_eq,
    t_isdigit, t_replace, t_truth, tcat, tjoin,
)

_BIN = {
    ast.Add: operator.add, ast.Sub: operator.sub, ast.Mult: operator.mul,
    ast.Div: operator.truediv, ast.FloorDiv: operator.floordiv, ast.Mod: operator.mod,
    ast.Pow: operator.pow, ast.LShift: operator.lshift, ast.RShift: operator.rshift,
    ast.BitOr: operator.or_, ast.BitXor: operator.xor, ast.BitAnd: operator.and_,
    ast.MatMult: operator.matmul,
}


class StrAcc:
    """acc + p1 + p2 ... inside one generic round: a string accumulator growing at its end"""

    def __init__(self, acc, parts):
        self.acc, self.parts = acc, parts


def check_usable(*vs):
    for v in vs:
        if isinstance(v, Poison):
            raise Unsupported(f"use of untracked value: {v.why}")


def binop(op, l, r):
    check_usable(l, r)
    if isinstance(l, SInt) or isinstance(r, SInt):
        if isinstance(l, (SInt, int)) and isinstance(r, (SInt, int)) and not isinstance(l, bool) and not isinstance(r, bool):
            if isinstance(op, ast.Add):
                return mk_int(zint(l) + zint(r))
            if isinstance(op, ast.Sub):
                return mk_int(zint(l) - zint(r))
            if isinstance(op, ast.Mult) and (isinstance(l, int) or isinstance(r, int)):
                return mk_int(zint(l) * zint(r))
        if isinstance(op, ast.Mult) and (isinstance(l, list) or isinstance(r, list)):
            lst, n = (l, r) if isinstance(l, list) else (r, l)
            if isinstance(n, SInt) and not has_seg(lst) and all(x is None or isinstance(x, (str, int, float, bool)) for x in lst):
                # [consts] * n: a run of n rounds (empty when n <= 0)
                from .sym import ctx
                if not ctx().branch(n.t > 0):
                    return []
                j = z3.Int(f"jrep({z3.simplify(n.t)})")
                return [Seg(("rep", repr(lst), str(z3.simplify(n.t))), n, j, list(lst))]
        raise Unsupported(f"symbolic integer operation {type(op).__name__}")
    if isinstance(op, ast.Add) and isinstance(r, STRLIKE) and (isinstance(l, StrAcc) or (isinstance(l, Opaque) and isinstance(l.tag, tuple) and l.tag[:1] == ("acc",))):
        # text appended to the loop-carried accumulator of a summarised loop: acc + piece(j)
        return StrAcc(l.acc, l.parts + [r]) if isinstance(l, StrAcc) else StrAcc(l, [r])
    if is_symstr(l) or is_symstr(r):
        if isinstance(op, ast.Add) and isinstance(l, STRLIKE) and isinstance(r, STRLIKE):
            return tcat(l, r)
        raise Unsupported(f"symbolic string operation {type(op).__name__}")
    if isinstance(op, ast.Add) and isinstance(l, list) and isinstance(r, list):
        return list(l) + list(r)
    if isinstance(l, (Opaque, SBool, Seg, Fold)) or isinstance(r, (Opaque, SBool, Seg, Fold)):
        raise Unsupported(f"operator {type(op).__name__} on opaque operand")
    return _BIN[type(op)](l, r)


def unaryop(op, v):
    check_usable(v)
    if isinstance(op, ast.Not):
        t = truth_term(v)
        if isinstance(t, bool):
            return not t
        return mk_bool(z3.Not(t))
    if isinstance(v, SInt):
        if isinstance(op, ast.USub):
            return mk_int(-v.t)
        if isinstance(op, ast.UAdd):
            return v
        raise Unsupported("symbolic ~")
    if isinstance(v, (Opaque, SBool)) or is_symstr(v):
        raise Unsupported("unary operator on symbolic operand")
    return {ast.USub: operator.neg, ast.UAdd: operator.pos, ast.Invert: operator.invert}[type(op)](v)


def truth_term(v):
    """bool or z3 BoolRef"""
    check_usable(v)
    if isinstance(v, SBool):
        return v.t
    if isinstance(v, SInt):
        return v.t != 0
    if isinstance(v, Opaque):
        if v.truthy is True or v.truthy is False:
            return v.truthy
        if v.props.get("any_constant"):
            # the value of a source Constant node: any Python constant, truthy or falsy
            return z3.Bool(f"{tagstr(v.tag)}.truthy")
        raise Unsupported(f"truth value of opaque {v!r}")
    if is_symstr(v):
        r = t_truth(v)
        return r.t if isinstance(r, SBool) else r
    if isinstance(v, list) and has_seg(v):
        n = sym_len(v)
        return n > 0 if isinstance(n, int) else (zint(n) > 0)
    if isinstance(v, (Seg, Fold)):
        raise Unsupported("truth of segment/fold")
    if isinstance(v, Fold):
        return True
    return bool(v)


def truth(v, label=""):
    t = truth_term(v)
    if isinstance(t, bool):
        return t
    return ctx().branch(t, label)


def is_identity_comparable(v):
    return v is None or isinstance(v, (bool, type)) or v is Ellipsis


def compare(op, l, r):
    """one comparison step; returns bool or SBool"""
    check_usable(l, r)
    if isinstance(op, (ast.Is, ast.IsNot)):
        res = identity(l, r)
        if isinstance(op, ast.IsNot):
            return unaryop(ast.Not(), res)
        return res
    if isinstance(op, (ast.In, ast.NotIn)):
        res = contains(r, l)
        if isinstance(op, ast.NotIn):
            return unaryop(ast.Not(), res)
        return res
    if isinstance(l, SInt) or isinstance(r, SInt):
        if isinstance(l, (SInt, int)) and isinstance(r, (SInt, int)):
            a, b = zint(l), zint(r)
            t = {
                ast.Eq: lambda: a == b, ast.NotEq: lambda: a != b, ast.Lt: lambda: a < b,
                ast.LtE: lambda: a <= b, ast.Gt: lambda: a > b, ast.GtE: lambda: a >= b,
            }[type(op)]()
            return mk_bool(t)
        if isinstance(op, ast.Eq):
            return False
        if isinstance(op, ast.NotEq):
            return True
        raise Unsupported("ordering of symbolic int with non-int")
    if isinstance(l, SBool) or isinstance(r, SBool):
        raise Unsupported("comparison of symbolic booleans")
    if is_symstr(l) or is_symstr(r):
        if isinstance(op, (ast.Eq, ast.NotEq)):
            res = str_eq(l, r)
            return unaryop(ast.Not(), res) if isinstance(op, ast.NotEq) else res
        raise Unsupported("ordering of symbolic strings")
    if isinstance(l, Opaque) or isinstance(r, Opaque):
        if isinstance(op, (ast.Eq, ast.NotEq)):
            res = opaque_eq(l, r)
            return unaryop(ast.Not(), res) if isinstance(op, ast.NotEq) else res
        raise Unsupported("ordering of opaque values")
    f = {
        ast.Eq: operator.eq, ast.NotEq: operator.ne, ast.Lt: operator.lt, ast.LtE: operator.le,
        ast.Gt: operator.gt, ast.GtE: operator.ge,
    }[type(op)]
    return f(l, r)


def opaque_eq(l, r):
    if isinstance(l, Opaque) and isinstance(r, Opaque):
        if l.tag == r.tag:
            return True
        return mk_bool(z3.Bool(f"eq:{tagstr(l.tag)}=={tagstr(r.tag)}"))
    o, c = (l, r) if isinstance(l, Opaque) else (r, l)
    eqf = o.props.get("eq")
    if eqf is not None:
        return eqf(o, c)
    if c is None and o.props.get("not_none"):
        return False
    if isinstance(c, (str, int, type(None), bool, float)):
        return mk_bool(z3.Bool(f"eq:{tagstr(o.tag)}=={c!r}"))
    raise Unsupported(f"equality of opaque {o!r} with {type(c).__name__}")


def str_eq(l, r):
    if isinstance(l, str) and isinstance(r, str):
        return l == r
    s, c = (l, r) if is_symstr(l) else (r, l)
    if isinstance(s, Hole) and "value" in s.props:
        return str_eq(s.props["value"], c) if is_symstr(c) else s.props["value"] == c
    if isinstance(s, Hole) and isinstance(c, str) and c in s.props.get("not_in", ()):
        return False
    if not isinstance(c, str):
        if is_symstr(c):
            if repr(as_tmpl(s)) == repr(as_tmpl(c)):
                return True
            return mk_bool(z3.Bool(f"streq:{as_tmpl(s)!r}=={as_tmpl(c)!r}"))
        return False
    t = as_tmpl(s)
    # literal parts must be compatible with c; otherwise an unconstrained fact
    lits = "".join(p for p in t.parts if isinstance(p, str))
    if len(lits) > len(c):
        return False
    for p in t.parts:
        if isinstance(p, str) and p not in c:
            return False
    if len(t.parts) == 1 and isinstance(t.parts[0], Hole):
        h = t.parts[0]
        if h.kind == "ident" and not c.isidentifier() and not (c == "*" and h.props.get("star")):
            return False
        if h.nonempty and c == "":
            return False
        return mk_bool(h.fact(f"=={c!r}"))
    if c == "":
        r_ = t_truth(t)
        return unaryop(ast.Not(), r_)
    return mk_bool(z3.Bool(f"streq:{t!r}=={c!r}"))


def identity(l, r):
    if isinstance(l, Opaque) or isinstance(r, Opaque):
        o, c = (l, r) if isinstance(l, Opaque) else (r, l)
        if isinstance(c, Opaque):
            if c.tag == o.tag:
                return True
            if o.props.get("distinct") or c.props.get("distinct"):
                return False
            raise Unsupported("identity of two opaque objects")
        if c is None:
            nn = o.props.get("none")
            if nn is None:
                return False  # declared objects are not None unless stated
            return mk_bool(nn) if z3.is_expr(nn) else nn
        if isinstance(c, type):
            # `type(x) is C` comes through SType; plain opaque is never a class
            return False
        if c is Ellipsis or isinstance(c, bool):
            isf = o.props.get("is_const")
            if isf is not None:
                return isf(o, c)
            raise Unsupported(f"identity of opaque {o!r} with constant {c!r}")
        return False
    if isinstance(l, SYM_NOID) or isinstance(r, SYM_NOID):
        o, c = (l, r) if isinstance(l, SYM_NOID) else (r, l)
        if c is None or isinstance(c, (bool, type)) or c is Ellipsis:
            if isinstance(o, SBool) and isinstance(c, bool):
                return mk_bool(o.t if c else z3.Not(o.t))
            return False
        raise Unsupported("identity test on symbolic value")
    return l is r


SYM_NOID = (SInt, SBool, Tmpl, Hole, Join, Fn, Fold)


def bind_hole(h, options):
    """case split: the unknown string equals one of `options` (then it is bound to it) or
    none of them.  Returns the bound value or None."""
    if "value" in h.props:
        return h.props["value"] if h.props["value"] in options else None
    opts = [o for o in sorted(options) if o not in h.props.get("not_in", ())]
    c = ctx()
    k = c.choose(len(opts) + 1)
    if k == len(opts):
        h.props.setdefault("not_in", set()).update(opts)
        c.facts.append(f"{tagstr(h.tag)} not in {opts}")
        return None
    h.props["value"] = opts[k]
    c.facts.append(f"{tagstr(h.tag)}=={opts[k]!r}")
    return opts[k]


def symset_contains(container, item):
    terms = []
    for x in container:
        its = x.items if isinstance(x, Seg) else [x]
        for e in its:
            if e is item:
                if isinstance(x, Seg):
                    terms.append(zint(x.length) > 0)
                    continue
                return True
            if isinstance(e, STRLIKE) and isinstance(item, STRLIKE):
                if isinstance(x, Seg):
                    terms.append(z3.Bool(f"in-seg:{tagstr(x.tag)}:{tagstr(getattr(item, 'tag', item))}"))
                    continue
                r = str_eq(e, item)
                if r is True:
                    return True
                if r is not False:
                    terms.append(r.t)
            elif not is_symstr(e) and not is_symstr(item) and not isinstance(x, Seg):
                if e == item:
                    return True
    if not terms:
        return False
    return mk_bool(z3.Or(*terms))


def contains(container, item):
    check_usable(container, item)
    from .sym import SymSet
    if isinstance(container, SymSet):
        return symset_contains(container, item)
    if isinstance(item, Hole) and isinstance(container, (list, tuple, set, frozenset, dict)) \
            and all(isinstance(x, str) for x in container) and not (isinstance(container, (list, tuple)) and has_seg(container)):
        return bind_hole(item, list(container)) is not None
    if isinstance(container, range) and isinstance(item, SInt):
        if container.step == 1:
            return mk_bool(z3.And(item.t >= container.start, item.t < container.stop))
        raise Unsupported("`in` on a range with a step")
    if isinstance(container, STRLIKE) and isinstance(item, str) and is_symstr(container):
        return t_contains(item, container)
    if isinstance(container, Opaque):
        f = container.props.get("contains")
        if f is None:
            raise Unsupported(f"`in` on opaque {container!r}")
        return f(container, item)
    if isinstance(container, (list, tuple)) and has_seg(container):
        # a plain constant against elements that compare by identity (AST nodes): never equal
        if isinstance(item, (str, int, float, bytes, type(None))) and not is_symstr(item):
            elems = []
            for x in container:
                elems.extend(x.items if isinstance(x, Seg) else [x])
            def by_identity(x):
                if isinstance(x, ast.AST):
                    return True
                return isinstance(x, Opaque) and x.cands is not None and \
                    all(isinstance(k, type) and issubclass(k, ast.AST) for k in x.cands)
            if all(by_identity(x) for x in elems):
                return False
        raise Unsupported("`in` on a list with segments")
    if isinstance(item, (Opaque, SInt, SBool)) or is_symstr(item):
        if isinstance(container, (list, tuple)):
            if isinstance(item, Opaque) and item.cands is not None and all(isinstance(c, type) for c in container):
                raise Unsupported("`in` opaque vs classes")
            if is_symstr(item) and all(isinstance(c, str) for c in container):
                res = False
                terms = []
                for c in container:
                    e = str_eq(item, c)
                    if e is True:
                        return True
                    if e is not False:
                        terms.append(e.t)
                if not terms:
                    return False
                return mk_bool(z3.Or(*terms))
        if isinstance(container, (set, frozenset, dict)) and is_symstr(item):
            keys = list(container)
            if all(isinstance(k, str) for k in keys):
                terms = []
                for c in sorted(keys):
                    e = str_eq(item, c)
                    if e is True:
                        return True
                    if e is not False:
                        terms.append(e.t)
                if not terms:
                    return False
                return mk_bool(z3.Or(*terms))
        raise Unsupported(f"`in` with symbolic item on {type(container).__name__}")
    return item in container


# -- isinstance / type ---------------------------------------------------------------


class SType:
    """type(x) of an opaque whose class is not yet decided"""

    def __init__(self, op):
        self.op = op


def opaque_isinstance(o: Opaque, classes):
    if not isinstance(classes, tuple):
        classes = (classes,)
    flat = []
    for c in classes:
        if isinstance(c, tuple):
            flat.extend(c)
        else:
            flat.append(c)
    classes = tuple(flat)
    if o.props.get("any_constant") and (o.cands is None or o.cands == frozenset([object])):
        # the value of a source Constant node: one of the constant classes of the language
        o.cands = frozenset([str, bytes, int, float, complex, bool, type(None), type(Ellipsis)])
    if o.cands is None:
        if o.cls is not None and isinstance(o.cls, type):
            return issubclass(o.cls, classes)
        raise Unsupported(f"isinstance on opaque of unknown class {o!r}")
    yes = frozenset(c for c in o.cands if issubclass(c, classes))
    no = o.cands - yes
    if not no:
        return True
    if not yes:
        return False
    k = ctx().choose(2)
    ctx().facts.append(f"{tagstr(o.tag)} {'is' if k == 0 else 'is-not'} {'|'.join(sorted(c.__name__ for c in classes))}")
    if k == 0:
        o.cands = yes
        if len(yes) == 1:
            o.cls = next(iter(yes))
        return True
    o.cands = no
    if len(no) == 1:
        o.cls = next(iter(no))
    return False


def opaque_type(o: Opaque):
    if o.props.get("any_constant") and (o.cands is None or o.cands == frozenset([object])):
        o.cands = frozenset([str, bytes, int, float, complex, bool, type(None), type(Ellipsis)])
    if o.cands is None:
        if isinstance(o.cls, type):
            return o.cls
        raise Unsupported(f"type() of opaque of unknown class {o!r}")
    cands = sorted(o.cands, key=lambda c: c.__name__)
    k = ctx().choose(len(cands))
    ctx().facts.append(f"type({tagstr(o.tag)})={cands[k].__name__}")
    o.cands = frozenset([cands[k]])
    o.cls = cands[k]
    return cands[k]


# -- ASDL-driven fields of opaque AST nodes ------------------------------------------

_ASDL_RE = re.compile(r"(\w+)([*?]?)\s+(\w+)")


def asdl_fields(cls):
    """[(type_name, quantifier, field_name)] from the class docstring (CPython writes the
    ASDL signature there)."""
    doc = cls.__doc__ or ""
    doc = " ".join(doc.split())
    out = []
    m = re.search(r"\((.*)\)", doc)
    if not m:
        return out
    for part in m.group(1).split(","):
        mm = _ASDL_RE.match(part.strip())
        if mm:
            out.append((mm.group(1), mm.group(2), mm.group(3)))
    return out


def _asdl_class(tname):
    return getattr(ast, tname, None)


MATERIALISE_DEPTH = 1


def _tag_depth(tag):
    """how many field steps below a harness-provided node this tag is: tags of materialised
    fields are (parent tag, field name); elements of a run are ((parent tag, field), j)"""
    d = 0
    while isinstance(tag, tuple) and len(tag) == 2:
        if isinstance(tag[1], str) and not isinstance(tag[0], str):
            d += 1
            tag = tag[0]
        elif isinstance(tag[1], str) and isinstance(tag[0], str):
            return d + 1
        elif z3.is_expr(tag[1]):
            tag = tag[0]
        else:
            break
    return d


def opaque_ast_field(o: Opaque, name):
    """Lazily create the value of field `name` of an opaque AST node of decided class."""
    if o.cands is None or len(o.cands) != 1:
        raise Unsupported(f"field {name} of opaque node {o!r} of undecided class")
    cls = next(iter(o.cands))
    for tname, q, fname in asdl_fields(cls):
        if fname != name:
            continue
        tag = (o.tag, name)
        c = ctx()
        if tname == "identifier" or tname == "string":
            mk = lambda t: Hole(t, "ident" if tname == "identifier" else "str")
        elif tname == "int":
            mk = lambda t: SInt(z3.Int(tagstr(t)))
        elif tname == "constant":
            mk = lambda t: Opaque(t, object, truthy=None, any_constant=True)
        elif tname == "expr_context":
            mk = lambda t: Opaque(t, ast.expr_context)
        else:
            k = _asdl_class(tname)
            if k is None:
                raise Unsupported(f"ASDL type {tname}")
            depth = _tag_depth(o.tag)
            if k is ast.expr and depth >= MATERIALISE_DEPTH:
                # code that walks DOWN a source expression (a recursive helper over its
                # fields) would materialise children for ever: below this depth a child is a
                # leaf (Name/Constant).  The cut is recorded; a group that used it is never
                # reported as proved (see oblig.paths_or_undecided), failures stand.
                c.depth_cut = True
                mk = lambda t: Opaque(t, ast.expr, cands=frozenset([ast.Name, ast.Constant]))
            else:
                mk = lambda t: Opaque(t, k)
        if q == "":
            v = mk(tag)
        elif q == "?":
            isnone = z3.Bool(f"{tagstr(tag)}.is_none")
            v = None if c.branch(isnone) else mk(tag)
        else:  # '*'
            n = z3.Int(f"len{tagstr(tag)}")
            c.assume(n >= 0)
            j = z3.Int(f"j{tagstr(tag)}")
            v = [Seg(tag, SInt(n), j, [mk((tag, j))])]
        o.fields[name] = v
        return v
    raise AttributeError(name)


def opaque_getattr(o: Opaque, name):
    if name in o.fields:
        return o.fields[name]
    if o.factory is not None:
        try:
            v = o.factory(o, name)
        except AttributeError:
            v = NotImplemented
        if v is not NotImplemented:
            o.fields[name] = v
            return v
    if name in ("lineno", "col_offset", "end_lineno", "end_col_offset") and o.cands is not None and all(
            isinstance(k, type) and issubclass(k, (ast.expr, ast.stmt, ast.arg, ast.keyword, ast.alias, ast.excepthandler)) for k in o.cands):
        v = SInt(z3.Int(f"{tagstr(o.tag)}.{name}"))  # parser-produced nodes carry positions
        o.fields[name] = v
        return v
    if name == "_fields" and o.cands is not None and len(o.cands) == 1:
        return next(iter(o.cands))._fields
    if name == "__class__":
        return opaque_type(o)
    if o.cands is not None and all(isinstance(c, type) and issubclass(c, ast.AST) for c in o.cands):
        if len(o.cands) > 1:
            # decide the class first if the field is not common to all candidates
            opaque_type(o)
        return opaque_ast_field(o, name)
    raise Unsupported(f"attribute {name!r} of opaque {o!r}")


def opaque_hasattr(o: Opaque, name):
    if name in o.fields:
        return True
    if o.cands is not None and all(isinstance(c, type) and issubclass(c, ast.AST) for c in o.cands):
        has = [name in c._fields for c in o.cands]
        if all(has):
            return True  # parser-produced nodes carry every field
        if not any(has):
            return False
        opaque_type(o)
        return name in next(iter(o.cands))._fields
    raise Unsupported(f"hasattr({o!r}, {name!r})")


# -- lists with segments ---------------------------------------------------------------


def subst_j(v, jvar, term, memo=None):
    """value with the bound round variable replaced by `term` (structural copy of the
    symbolic leaves; real AST nodes are copied shallowly along the way)."""
    if memo is None:
        memo = {}
    if id(v) in memo:
        return memo[id(v)]
    r = _subst(v, jvar, term, memo)
    memo[id(v)] = r
    return r


def _subst_tag(tag, jvar, term):
    if isinstance(tag, tuple):
        return tuple(_subst_tag(t, jvar, term) for t in tag)
    if z3.is_expr(tag):
        return z3.simplify(z3.substitute(tag, (jvar, term)))
    return tag


def _subst(v, jvar, term, memo):
    if isinstance(v, SInt):
        return mk_int(z3.substitute(v.t, (jvar, term)))
    if isinstance(v, SBool):
        return mk_bool(z3.substitute(v.t, (jvar, term)))
    if isinstance(v, Opaque):
        props = dict(v.props)
        sem = props.get("sem")
        if isinstance(sem, tuple):
            # the contract payload of an abstract node (e.g. the source node it stands for)
            # mentions the round variable too
            props["sem"] = tuple(subst_j(x, jvar, term, memo) if isinstance(x, (Opaque, tuple, list, SInt, ast.AST)) else x for x in sem)
        o = Opaque(_subst_tag(v.tag, jvar, term), v.cls, cands=v.cands, factory=v.factory,
                   truthy=v.truthy, **props)
        o.fields = {k: subst_j(x, jvar, term, memo) for k, x in v.fields.items()}
        return o
    if isinstance(v, Hole):
        return Hole(_subst_tag(v.tag, jvar, term), v.kind, v.nonempty, **v.props)
    if isinstance(v, Tmpl):
        return Tmpl([subst_j(p, jvar, term, memo) for p in v.parts])
    if isinstance(v, Join):
        return Join(subst_j(v.sep, jvar, term, memo), [subst_j(x, jvar, term, memo) for x in v.items])
    if isinstance(v, Fn):
        return Fn(v.name, subst_j(v.base, jvar, term, memo), v.args)
    if isinstance(v, Seg):
        if v.jvar is jvar or v.jvar.eq(jvar):
            return v
        return Seg(_subst_tag(v.tag, jvar, term), subst_j(v.length, jvar, term, memo), v.jvar,
                   [subst_j(x, jvar, term, memo) for x in v.items], v.rev, v.cls_note)
    if isinstance(v, list):
        return [subst_j(x, jvar, term, memo) for x in v]
    if isinstance(v, tuple):
        return tuple(subst_j(x, jvar, term, memo) for x in v)
    if isinstance(v, ast.AST):
        new = type(v).__new__(type(v))
        for f, x in vars(v).items():
            setattr(new, f, subst_j(x, jvar, term, memo))
        return new
    return v


def suggest_split(lst, pos):
    """A position computed from the index of the current generic round may cross a run
    boundary of `lst` in the middle of the loop: if it moves by +-1 per round, ask for the
    loop's run to be split at the crossing point (Restart with a `splitat` hint)."""
    from .sym import Restart
    c = ctx()
    if not getattr(c, "generic", None) or not getattr(c, "generic_keys", None):
        return
    seg, j = c.generic[-1]
    key = c.generic_keys[-1]
    if c.hints.get(key, {}).get("splitat") is not None:
        return
    pos = pos if z3.is_expr(pos) else zint(pos)
    a0 = z3.simplify(z3.substitute(pos, (j, z3.IntVal(0))))
    a1 = z3.simplify(z3.substitute(pos, (j, z3.IntVal(1))))
    d = z3.simplify(a1 - a0)
    if not z3.is_int_value(d) or d.as_long() not in (1, -1):
        return
    slope = d.as_long()
    n = zint(seg.length)
    off = z3.IntVal(0)
    bounds = []
    for x in lst:
        off = off + (zint(x.length) * len(x.items) if isinstance(x, Seg) else 1)
        bounds.append(z3.simplify(off))
    for B in bounds[:-1]:
        below, _ = c.valid(pos < B)
        above, _ = c.valid(pos >= B)
        if below or above:
            continue
        K = z3.simplify(B - a0 if slope == 1 else a0 - B + 1)   # rounds j < K are on one side
        # (outside the round's scope assumption 0 <= j < n the split point must be within the run)
        k_iter = z3.simplify(n - K if seg.rev else K)
        raise Restart(key, dict(c.hints.get(key, {}), splitat=k_iter))


def seg_element(seg: Seg, round_term, k=0):
    """k-th item of round `round_term`"""
    return subst_j(seg.items[k], seg.jvar, round_term if z3.is_expr(round_term) else z3.IntVal(round_term))


def split_head(lst):
    """For a list whose first element is a Seg: fork on emptiness of the segment and
    rewrite the list in place so that its head is concrete (or the segment is gone)."""
    c = ctx()
    while lst and isinstance(lst[0], Seg):
        seg = lst[0]
        n = zint(seg.length)
        if c.branch(n > 0, "seg non-empty"):
            first_round = (n - 1) if seg.rev else z3.IntVal(0)
            head = [seg_element(seg, first_round, k) for k in range(len(seg.items))]
            if seg.rev:
                rest = Seg(seg.tag, mk_int(n - 1), seg.jvar, seg.items, True, seg.cls_note)
            else:
                # shift: remaining rounds are j+1 for j in [0, n-1)
                rest = Seg((seg.tag, "+1"), mk_int(n - 1), seg.jvar,
                           [subst_j(x, seg.jvar, seg.jvar + 1) for x in seg.items], False, seg.cls_note)
            lst[0:1] = head + [rest]
        else:
            c.assume(n == 0)
            del lst[0]


def split_tail(lst):
    c = ctx()
    while lst and isinstance(lst[-1], Seg):
        seg = lst[-1]
        n = zint(seg.length)
        if c.branch(n > 0, "seg non-empty"):
            last_round = z3.IntVal(0) if seg.rev else (n - 1)
            tail = [seg_element(seg, last_round, k) for k in range(len(seg.items))]
            if seg.rev:
                rest = Seg((seg.tag, "+1"), mk_int(n - 1), seg.jvar,
                           [subst_j(x, seg.jvar, seg.jvar + 1) for x in seg.items], True, seg.cls_note)
            else:
                rest = Seg(seg.tag, mk_int(n - 1), seg.jvar, seg.items, False, seg.cls_note)
            lst[-1:] = [rest] + tail
        else:
            c.assume(n == 0)
            del lst[-1]


def _slice_pos(c, b, total, default):
    """list position denoted by slice bound b (None / int / SInt) on a list of length
    `total` (z3 term): Python's clamping rules, decided by forking"""
    if b is None:
        return default
    z = zint(b)
    if c.branch(z >= 0):
        return z if c.branch(z <= total) else total
    p = total + z
    return p if c.branch(p >= 0) else z3.IntVal(0)


def _boundary_index(c, lst, pos):
    """index k such that the first k items of lst hold exactly `pos` elements"""
    off = z3.IntVal(0)
    for k in range(len(lst) + 1):
        ok, _ = c.valid(pos == off)
        if ok:
            return k
        if k < len(lst):
            e = lst[k]
            off = off + (zint(e.length) * len(e.items) if isinstance(e, Seg) else 1)
    return None


def list_getitem(lst, idx):
    if isinstance(idx, slice) and idx.step is None and (isinstance(idx.start, SInt) or isinstance(idx.stop, SInt)
                                                      or (has_seg(lst) and any(isinstance(x, int) and x < 0 for x in (idx.start, idx.stop)))):
        c = ctx()
        total = zint(sym_len(lst))
        lo = _slice_pos(c, idx.start, total, z3.IntVal(0))
        hi = _slice_pos(c, idx.stop, total, total)
        if not c.branch(lo < hi):
            return []
        i, j = _boundary_index(c, lst, lo), _boundary_index(c, lst, hi)
        if i is None or j is None:
            # a bound a small constant away from an end: peel that many elements
            work = list(lst)
            for k in (1, 2, 3):
                if i is None and c.valid(lo == total - k)[0]:
                    for n_ in range(k):
                        tmp = work[:len(work) - n_]
                        split_tail(tmp)
                        work[:len(work) - n_] = tmp
                if j is None and c.valid(hi == total - k)[0]:
                    for n_ in range(k):
                        tmp = work[:len(work) - n_]
                        split_tail(tmp)
                        work[:len(work) - n_] = tmp
                if i is None and c.valid(lo == k)[0] or (j is None and c.valid(hi == k)[0]):
                    for n_ in range(k):
                        tmp = work[n_:]
                        split_head(tmp)
                        work[n_:] = tmp
            total2 = zint(sym_len(work))
            i, j = _boundary_index(c, work, lo), _boundary_index(c, work, hi)
            if i is None or j is None:
                raise Unsupported("slice bound of a list with segments does not provably fall on an item boundary")
            return list(work[i:j])
        return list(lst[i:j])
    if isinstance(idx, slice):
        if not has_seg(lst):
            if any(isinstance(x, SInt) for x in (idx.start, idx.stop, idx.step)):
                raise Unsupported("symbolic slice bounds")
            return lst[idx]
        if idx.step is None and idx.stop is None and isinstance(idx.start, int) and idx.start >= 0:
            work = list(lst)
            out_prefix = 0
            for _ in range(idx.start):
                # need a concrete head to drop
                pos = out_prefix
                tmp = work[pos:]
                split_head(tmp)
                work[pos:] = tmp
                if not work[pos:]:
                    break
                del work[pos]
            return work
        if idx.start is None and idx.stop is None and idx.step is None:
            return list(lst)
        if idx.start is None and idx.stop is None and idx.step == -1:
            # lst[::-1]: the reversed list (a new list, like list(reversed(lst)))
            out = []
            for x in reversed(lst):
                out.append(Seg(x.tag, x.length, x.jvar, list(reversed(x.items)), not x.rev, x.cls_note) if isinstance(x, Seg) else x)
            return out
        raise Unsupported(f"slice {idx} of a list with segments")
    if isinstance(idx, SInt):
        # the position must provably fall into one single-item run: then it denotes that
        # run's element of round (idx - offset of the run)
        c = ctx()
        off = z3.IntVal(0)
        total = zint(sym_len(lst))
        pos = idx.t
        if c.valid(pos < 0)[0]:
            pos = total + pos
        elif not c.valid(pos >= 0)[0]:
            raise Unsupported("symbolic index into a list whose sign is not decided")
        for x in lst:
            if isinstance(x, Seg):
                if len(x.items) == 1:
                    r = z3.simplify(pos - off)
                    if c.valid(z3.And(r >= 0, r < zint(x.length)))[0]:
                        return seg_element(x, r)
                off = off + zint(x.length) * len(x.items)
            else:
                if c.valid(pos == off)[0]:
                    return x
                off = off + 1
        suggest_split(lst, pos)
        raise Unsupported("symbolic index into a list: the position does not provably fall into one run")
    if not has_seg(lst):
        return lst[idx]
    if isinstance(idx, int):
        if idx >= 0:
            work = list(lst)
            for k in range(idx + 1):
                tmp = work[k:]
                split_head(tmp)
                work[k:] = tmp
                if len(work) <= k:
                    raise IndexError("list index out of range")
            return work[idx]
        work = list(lst)
        for k in range(-idx):
            end = len(work) - k
            tmp = work[:end]
            split_tail(tmp)
            work[:end] = tmp
            if len(tmp) == 0:
                raise IndexError("list index out of range")
        return work[idx]
    raise Unsupported("list index type")


# -- string methods --------------------------------------------------------------------


def str_method(obj, name, args, kwargs):
    if name == "join":
        (lst,) = args
        if isinstance(lst, (list, tuple)):
            return tjoin(obj, list(lst))
        if isinstance(lst, Opaque) and isinstance(lst.tag, tuple) and len(lst.tag) == 3 and lst.tag[0] == "split" and isinstance(obj, str):
            # sep2.join(s.split(sep)) == s.replace(sep, sep2)
            src = lst.props.get("source")
            if src is not None and lst.tag[2] is None:
                return Tmpl([Fn("join-of-whitespace-split", src, (obj,))])   # not the same text as src in general
            if src is not None:
                return t_replace(src, lst.tag[2], obj)
        raise Unsupported("join over non-list")
    if name == "replace":
        a, b = args
        return t_replace(obj, a, b)
    if name == "isdigit":
        return t_isdigit(obj)
    if name == "format":
        if is_symstr(obj):
            raise Unsupported("format on symbolic template")
        # '...{}'.format(x) with symbolic x: split on '{}' only
        if kwargs or "{" in obj.replace("{}", ""):
            raise Unsupported("format spec")
        pieces = obj.split("{}")
        if len(pieces) != len(args) + 1:
            raise Unsupported("format arity")
        out = [pieces[0]]
        for a, p in zip(args, pieces[1:]):
            out.append(to_str(a))
            out.append(p)
        return tcat(*out)
    if name == "split" and not args and not kwargs and isinstance(obj, Hole):
        # split on runs of whitespace: only usable through join (below)
        n = z3.Int(f"wspieces({tagstr(obj.tag)})")
        ctx().assume(n >= 0)
        return Opaque(("split", obj.tag, None), list, len=lambda o: SInt(n), truthy=None, source=obj)
    if name == "split" and len(args) == 1 and isinstance(args[0], str) and isinstance(obj, Hole):
        # number of pieces is unknown (>= 1); pieces are unknown strings
        n = z3.Int(f"pieces({tagstr(obj.tag)},{args[0]!r})")
        ctx().assume(n >= 1)
        # the pieces of a dotted name split at "." are identifiers
        pk = "ident" if (obj.kind == "ident" and args[0] == ".") else "str"
        return Opaque(("split", obj.tag, args[0]), list, len=lambda o: SInt(n), truthy=True, source=obj,
                      unpack=lambda o, k: [Hole((obj.tag, "piece", i), pk) for i in range(k)],
                      getitem=lambda o, i: Hole((obj.tag, "piece", i), pk, nonempty=obj.nonempty) if isinstance(i, int) and i >= 0
                      else (_ for _ in ()).throw(Unsupported("index into split() result")))
    if name == "count" and len(args) == 1 and isinstance(args[0], str) and args[0] and isinstance(obj, Hole):
        # consistent with split(): sep occurs (number of pieces - 1) times (non-overlapping; exact for one-character separators)
        if len(args[0]) != 1:
            raise Unsupported("count of a multi-character string in a symbolic string")
        n = z3.Int(f"pieces({tagstr(obj.tag)},{args[0]!r})")
        ctx().assume(n >= 1)
        return mk_int(n - 1)
    if name == "partition" and len(args) == 1 and isinstance(args[0], str) and len(args[0]) == 1 and isinstance(obj, Hole) and not (obj.kind == "ident" and args[0] == "."):
        n = z3.Int(f"pieces({tagstr(obj.tag)},{args[0]!r})")
        c_ = ctx()
        c_.assume(n >= 1)
        if not c_.branch(n > 1):
            return (obj, "", "")
        tail = Hole((obj.tag, "piece", 1), "str") if c_.valid(n == 2)[0] else Hole((obj.tag, "after-first", args[0]), "str")
        return (Hole((obj.tag, "piece", 0), "str", nonempty=False), args[0], tail)
    if name in ("partition", "rpartition") and len(args) == 1 and args[0] == "." and isinstance(obj, Hole) and obj.kind == "ident":
        has = t_contains(".", obj)
        if isinstance(has, SBool):
            has = ctx().branch(has.t)
        if not has:
            return (obj, "", "") if name == "partition" else ("", "", obj)
        if name == "partition":  # head = first component (the same string as split(".")[0])
            return (Hole((obj.tag, "piece", 0), "ident"), ".", Hole((obj.tag, "after-first-dot"), "ident", dotted=True))
        return (Hole((obj.tag, "before-last-dot"), "ident", dotted=True), ".", Hole((obj.tag, "last-piece"), "ident"))
    if name in ("startswith", "endswith") and len(args) == 1 and isinstance(args[0], str) and len(args[0]) == 1:
        t = as_tmpl(obj)
        if not t.parts:
            return False
        return t_edge_char_eq(obj, args[0], last=(name == "endswith"))
    raise Unsupported(f"string method {name} on symbolic string")


def to_str(v):
    """str(v) / f'{v}'"""
    if isinstance(v, STRLIKE):
        return v
    if isinstance(v, SInt):
        return Hole(("str", str(z3.simplify(v.t))), "text")
    if isinstance(v, (SInt, SBool, Opaque, Seg, Fold)):
        if isinstance(v, Opaque) and "str" in v.props:
            return v.props["str"](v)
        raise Unsupported(f"str() of symbolic {type(v).__name__}")
    return str(v)
