"""olvc.extract -- mechanical extraction of the functions under contract from the tree in
$VERIF_REPO (default /repo), on every run, with a byte-code identity check.

What is dropped from the verified text: type annotations (never evaluated by the
interpreter), docstrings, comments, `typing.cast` (identity).  Nothing else.
"""
from __future__ import annotations

import ast
import importlib
import os
import sys
import types

REPO = os.path.realpath(os.environ.get("VERIF_REPO", "/repo"))


class ExtractionError(Exception):
    pass


_file_cache: dict[str, tuple[str, ast.Module, dict]] = {}
_func_cache: dict[types.CodeType, ast.AST] = {}
_identity_checked: set = set()
FUNCTIONS_SEEN: dict[str, str] = {}  # qualified name -> file:line (for the evidence)


def setup_import_path():
    """Make `import oneliner` resolve to $VERIF_REPO, never to an installed copy."""
    if sys.path[0] != REPO:
        sys.path.insert(0, REPO)
    sys.dont_write_bytecode = True
    for name in list(sys.modules):
        if name == "oneliner" or name.startswith("oneliner."):
            mod = sys.modules[name]
            f = getattr(mod, "__file__", None)
            if f and not os.path.realpath(f).startswith(REPO + os.sep):
                del sys.modules[name]


def repo_module(name):
    """The module object (from sys.modules: the package re-exports functions that shadow
    sub-module names, so attribute access on the package is not reliable)."""
    setup_import_path()
    importlib.import_module(name)
    mod = sys.modules[name]
    f = os.path.realpath(mod.__file__)
    if not f.startswith(REPO + os.sep):
        raise ExtractionError(f"{name} imported from {f}, not from {REPO}")
    return mod


def _load_file(path):
    path = os.path.realpath(path)
    if path in _file_cache:
        return _file_cache[path]
    with open(path, encoding="utf8") as f:
        text = f.read()
    tree = ast.parse(text, path)
    code = compile(text, path, "exec", dont_inherit=True)
    codes = {}

    def walk(co):
        codes.setdefault((co.co_qualname, co.co_firstlineno), co)
        for c in co.co_consts:
            if isinstance(c, types.CodeType):
                walk(c)

    walk(code)
    _file_cache[path] = (text, tree, codes)
    return _file_cache[path]


def is_repo_code(code: types.CodeType):
    try:
        return os.path.realpath(code.co_filename).startswith(REPO + os.sep)
    except Exception:
        return False


def func_ast(code: types.CodeType) -> ast.AST:
    """AST node (FunctionDef / Lambda) of a native repo code object, identity-checked
    against a fresh compilation of the file text we parsed."""
    if code in _func_cache:
        return _func_cache[code]
    if not is_repo_code(code):
        raise ExtractionError(f"not repo code: {code.co_filename}")
    text, tree, codes = _load_file(code.co_filename)
    fresh = codes.get((code.co_qualname, code.co_firstlineno))
    if fresh is None or fresh != code:
        raise ExtractionError(
            f"byte-code identity check failed for {code.co_qualname} "
            f"({code.co_filename}:{code.co_firstlineno}): the imported function is not the "
            f"text on disk"
        )
    want_lambda = code.co_name == "<lambda>"
    found = None
    for node in ast.walk(tree):
        if want_lambda and isinstance(node, ast.Lambda) and node.lineno == code.co_firstlineno:
            # several lambdas on one line: pick by argument names
            names = tuple(a.arg for a in node.args.posonlyargs + node.args.args)
            if names == code.co_varnames[: code.co_argcount]:
                found = node
                break
        elif (
            not want_lambda
            and isinstance(node, (ast.FunctionDef, ast.AsyncFunctionDef))
            and node.name == code.co_name
        ):
            first = min([node.lineno] + [d.lineno for d in node.decorator_list])
            if first == code.co_firstlineno:
                found = node
                break
    if found is None:
        raise ExtractionError(f"cannot locate source of {code.co_qualname}")
    _func_cache[code] = found
    FUNCTIONS_SEEN[f"{os.path.relpath(code.co_filename, REPO)}::{code.co_qualname}"] = (
        f"{os.path.relpath(code.co_filename, REPO)}:{code.co_firstlineno}"
    )
    return found


def module_body_ast(modname_or_path):
    """Statement list of a whole module file (used for `__main__.py`, which is a script)."""
    path = modname_or_path
    text, tree, _ = _load_file(path)
    return tree


def resolve(qual: str):
    """'oneliner.pending_nodes:PendingAssign.assign_tuple_list' -> native object."""
    modname, _, attr = qual.partition(":")
    obj = repo_module(modname)
    for part in attr.split("."):
        if isinstance(obj, type):
            obj = obj.__dict__[part] if part in obj.__dict__ else getattr(obj, part)
        else:
            obj = getattr(obj, part)
    return obj
