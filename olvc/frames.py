"""olvc.frames -- frame conditions: which objects may a conversion write to?

PREEXISTING = every object reachable from the module dictionaries of the `oneliner`
package at import time (modules, classes, class-level attribute values such as option
descriptors, module-level AST trees, tables).  These objects outlive a call; a write to one
of them is a frame violation.  Objects created by the harness or by the call are fresh."""
from __future__ import annotations

import ast
import sys
import types

from . import extract

_cache = None


def preexisting():
    global _cache
    if _cache is not None:
        return _cache
    extract.repo_module("oneliner")
    ids = {}
    todo = []
    for name, mod in list(sys.modules.items()):
        if name == "oneliner" or name.startswith("oneliner."):
            todo.append((f"module {name}", mod))
    seen = set()
    while todo:
        path, o = todo.pop()
        if id(o) in seen:
            continue
        seen.add(id(o))
        if isinstance(o, types.ModuleType):
            if not (o.__name__ == "oneliner" or o.__name__.startswith("oneliner.")):
                continue
            ids[id(o)] = path
            ids[id(o.__dict__)] = path + ".__dict__"
            for k, v in list(vars(o).items()):
                if k.startswith("__") and k.endswith("__"):
                    continue
                todo.append((f"{o.__name__}.{k}", v))
        elif isinstance(o, type):
            mod = getattr(o, "__module__", "") or ""
            if not (mod == "oneliner" or mod.startswith("oneliner.")):
                continue
            ids[id(o)] = path
            for k, v in list(vars(o).items()):
                if k in ("__dict__", "__weakref__", "__module__", "__doc__", "__qualname__"):
                    continue
                todo.append((f"{path}.{k}", v))
        elif isinstance(o, (list, tuple, set, frozenset)):
            if not isinstance(o, (tuple, frozenset)):
                ids[id(o)] = path
            for i, v in enumerate(o):
                todo.append((f"{path}[{i}]", v))
        elif isinstance(o, dict):
            ids[id(o)] = path
            for k, v in list(o.items()):
                todo.append((f"{path}[{k!r}]", v))
        elif isinstance(o, ast.AST):
            ids[id(o)] = path
            for f in o._fields:
                if hasattr(o, f):
                    todo.append((f"{path}.{f}", getattr(o, f)))
        elif isinstance(o, types.FunctionType):
            # mutable default arguments live as long as the function
            for i, d in enumerate(o.__defaults__ or ()):
                todo.append((f"{path}.__defaults__[{i}]", d))
            for k, d in (o.__kwdefaults__ or {}).items():
                todo.append((f"{path}.__kwdefaults__[{k!r}]", d))
            continue
        elif isinstance(o, (types.BuiltinFunctionType, str, int, float, bytes, bool, type(None))):
            continue
        else:
            mod = getattr(type(o), "__module__", "") or ""
            if mod == "oneliner" or mod.startswith("oneliner."):
                # instance of a repo class stored at module/class level (e.g. a descriptor)
                ids[id(o)] = path
                d = getattr(o, "__dict__", None)
                if isinstance(d, dict):
                    ids[id(d)] = path + ".__dict__"
                    for k, v in d.items():
                        todo.append((f"{path}.{k}", v))
    _cache = ids
    return ids


def hidden_state():
    """callables of the package that are not plain functions/classes: memoising wrappers and
    the like keep state between calls.  -> [(where, what)]"""
    import functools
    extract.repo_module("oneliner")
    out = []
    for name, mod in list(sys.modules.items()):
        if not (name == "oneliner" or name.startswith("oneliner.")):
            continue
        items = [(f"{name}.{k}", v) for k, v in vars(mod).items()]
        for k, v in list(vars(mod).items()):
            if isinstance(v, type) and (getattr(v, "__module__", "") or "").startswith("oneliner"):
                items += [(f"{name}.{k}.{a}", b) for a, b in vars(v).items()]
        for where, v in items:
            f = v.__func__ if isinstance(v, (classmethod, staticmethod)) else v
            if hasattr(f, "cache_info") or hasattr(f, "cache_clear") or type(f).__name__ in ("_lru_cache_wrapper", "cached_property"):
                out.append((where, f"memoising wrapper {type(f).__name__}: results depend on earlier calls"))
            elif isinstance(f, functools.partial) and (getattr(f.func, "__module__", "") or "").startswith("oneliner"):
                out.append((where, "functools.partial over a package function (bound arguments outlive calls)"))
    return sorted(set(out))


def violations(ctx):
    """writes of this path that hit a pre-existing object: [(kind, where, key)]"""
    pre = preexisting()
    out = []
    for kind, obj, key in ctx.writes:
        w = pre.get(id(obj))
        if w is not None:
            out.append((kind, w, repr(key)))
    return out
