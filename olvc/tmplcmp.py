"""olvc.tmplcmp -- canonical form of string templates, compared on *token* level so that
whitespace and the formatting style of f-strings do not matter (token gluing is a separate
obligation)."""
from __future__ import annotations

import re

import z3

from . import ops
from .sym import Seg, SolverUnknown, tagstr, zint
from .tmpl import Fn, Hole, Join, Tmpl, as_tmpl

_TOK = re.compile(
    r"\s+|[A-Za-z_]\w*|\d+|\*\*|//|<<|>>|<=|>=|==|!=|:=|->|\.\.\.|."
)


def tokens(text):
    return [t for t in _TOK.findall(text) if not t.isspace()]


def _seg_len_const(c, seg, maxk=3):
    n = zint(seg.length)
    for k in range(maxk + 1):
        try:
            ok, _ = c.valid(n == k)
        except SolverUnknown:
            return None
        if ok:
            return k
    return None


def expand_list(c, lst):
    """replace segments of provably constant small length by their concrete elements"""
    out = []
    for x in lst:
        if isinstance(x, Seg):
            k = _seg_len_const(c, x)
            if k is None:
                out.append(x)
            else:
                rounds = range(k - 1, -1, -1) if x.rev else range(k)
                for r in rounds:
                    for i in range(len(x.items)):
                        out.append(ops.seg_element(x, r, i))
        else:
            out.append(x)
    return out


def canon(c, t, depth=0):
    """flat tuple of tokens; holes/joins are structured tokens.  Bound round variables
    are renamed to J<depth> (alpha-normal form)."""
    out = []
    for p in as_tmpl(t).parts:
        if isinstance(p, str):
            out.extend(tokens(p))
        elif isinstance(p, Hole):
            out.append(("hole", tagstr(p.tag), p.kind))
        elif isinstance(p, Fn):
            out.append(("fn", p.name, canon(c, p.base, depth), tuple(map(repr, p.args))))
        elif isinstance(p, Join):
            items = expand_list(c, p.items)
            sep = canon(c, p.sep, depth)
            if not any(isinstance(x, Seg) for x in items):
                for i, x in enumerate(items):
                    if i:
                        out.extend(sep)
                    out.extend(canon(c, x, depth))
            else:
                its = []
                for x in items:
                    if isinstance(x, Seg):
                        J = z3.Int(f"J{depth}")
                        its.append(("seg", str(z3.simplify(zint(x.length))), x.rev, str(J),
                                    tuple(canon(c, ops.subst_j(i, x.jvar, J), depth + 1) for i in x.items)))
                    else:
                        its.append(("item", canon(c, x, depth)))
                out.append(("join", sep, tuple(its)))
    return tuple(out)


def show(cn):
    def s(x):
        if isinstance(x, str):
            return x
        if x[0] == "hole":
            return "{" + x[1] + "}"
        if x[0] == "fn":
            return f"{x[1]}({show(x[2])})"
        if x[0] == "join":
            return "JOIN<" + show(x[1]) + ">[" + " | ".join(
                (f"SEG x{i[1]}{'~' if i[2] else ''}(" + " ; ".join(show(y) for y in i[4]) + ")") if i[0] == "seg" else show(i[1])
                for i in x[2]) + "]"
        return repr(x)
    return " ".join(s(x) for x in cn)
