"""olvc.tmplcmp -- canonical form of string templates, compared on *token* level so that
whitespace and the formatting style of f-strings do not matter (token gluing is a separate
obligation)."""
from __future__ import annotations

import re

import z3

from . import ops
from .sym import Seg, SolverUnknown, tagstr, zint
from .tmpl import Fn, Hole, Join, Tmpl, as_tmpl

_TOK = re.compile(
    r"\s+|[A-Za-z_]\w*|\d+|\*\*|//|<<|>>|<=|>=|==|!=|:=|->|\.\.\.|."
)


def tokens(text):
    return [t for t in _TOK.findall(text) if not t.isspace()]


def _seg_len_const(c, seg, maxk=3):
    n = zint(seg.length)
    for k in range(maxk + 1):
        try:
            ok, _ = c.valid(n == k)
        except SolverUnknown:
            return None
        if ok:
            return k
    return None


def expand_list(c, lst):
    """replace segments of provably constant small length by their concrete elements"""
    out = []
    for x in lst:
        if isinstance(x, Seg):
            k = _seg_len_const(c, x)
            if k is None:
                out.append(x)
            else:
                rounds = range(k - 1, -1, -1) if x.rev else range(k)
                for r in rounds:
                    for i in range(len(x.items)):
                        out.append(ops.seg_element(x, r, i))
        else:
            out.append(x)
    return out


def flatten_joins(t):
    """"".join(items) is plain concatenation: a join with an EMPTY separator is rewritten to
    the sequence of its items; a run inside it keeps a join of its own whose single item per
    round is the concatenation of that round's items.  (So `"".join([a] + [op_j, x_j ...])`
    and `a + "".join(op_j + x_j ...)` have one normal form.)"""
    from .tmpl import tcat
    out = []
    for p in as_tmpl(t).parts:
        if isinstance(p, Join):
            sep_empty = not as_tmpl(p.sep).parts or all(isinstance(q, str) and q == "" for q in as_tmpl(p.sep).parts)
            items = []
            for x in p.items:
                if isinstance(x, Seg):
                    items.append(Seg(x.tag, x.length, x.jvar, [flatten_joins(i) for i in x.items], x.rev, x.cls_note))
                else:
                    items.append(flatten_joins(x))
            if not sep_empty:
                out.append(Join(p.sep, items))
                continue
            for x in items:
                if isinstance(x, Seg):
                    one = x if len(x.items) == 1 else Seg(x.tag, x.length, x.jvar, [tcat(*x.items)], x.rev, x.cls_note)
                    out.append(Join("", [one]))
                else:
                    out.extend(as_tmpl(x).parts)
        elif isinstance(p, Fn):
            out.append(Fn(p.name, flatten_joins(p.base), p.args))
        else:
            out.append(p)
    return Tmpl(out)


def canon(c, t, depth=0, _flat=False):
    if not _flat:
        t = flatten_joins(t)
    return _canon(c, t, depth)


def _canon(c, t, depth=0):
    """flat tuple of tokens; holes/joins are structured tokens.  Bound round variables
    are renamed to J<depth> (alpha-normal form)."""
    out = []
    for p in as_tmpl(t).parts:
        if isinstance(p, str):
            out.extend(tokens(p))
        elif isinstance(p, Hole):
            out.append(("hole", tagstr(p.tag), p.kind))
        elif isinstance(p, Fn):
            out.append(("fn", p.name, canon(c, p.base, depth), tuple(map(repr, p.args))))
        elif isinstance(p, Join):
            items = expand_list(c, p.items)
            sep = canon(c, p.sep, depth)
            if not any(isinstance(x, Seg) for x in items):
                for i, x in enumerate(items):
                    if i:
                        out.extend(sep)
                    out.extend(canon(c, x, depth))
            else:
                its = []
                for x in items:
                    if isinstance(x, Seg):
                        J = z3.Int(f"J{depth}")
                        its.append(("seg", str(z3.simplify(zint(x.length))), x.rev, str(J),
                                    tuple(canon(c, ops.subst_j(i, x.jvar, J), depth + 1) for i in x.items)))
                    else:
                        its.append(("item", canon(c, x, depth)))
                # P + P.join(x_0 .. x_{n-1}) with n >= 1 is (P + x_0) .. (P + x_{n-1}): the
                # separator form and the prefix form of the same text get one normal form
                if sep and len(its) == 1 and its[0][0] == "seg" and len(its[0][4]) == 1 and len(out) >= len(sep) \
                        and tuple(out[-len(sep):]) == tuple(sep):
                    seg_ = [x for x in items if isinstance(x, Seg)][0]
                    try:
                        nonempty = c.valid(zint(seg_.length) >= 1)[0]
                    except SolverUnknown:
                        nonempty = False
                    if nonempty:
                        del out[-len(sep):]
                        kind_, ln_, rv_, J_, (one_,) = its[0]
                        out.append(("join", (), ((kind_, ln_, rv_, J_, (tuple(sep) + tuple(one_),)),)))
                        continue
                out.append(("join", sep, tuple(its)))
    return tuple(out)


def show(cn):
    def s(x):
        if isinstance(x, str):
            return x
        if x[0] == "hole":
            return "{" + x[1] + "}"
        if x[0] == "fn":
            return f"{x[1]}({show(x[2])})"
        if x[0] == "join":
            return "JOIN<" + show(x[1]) + ">[" + " | ".join(
                (f"SEG x{i[1]}{'~' if i[2] else ''}(" + " ; ".join(show(y) for y in i[4]) + ")") if i[0] == "seg" else show(i[1])
                for i in x[2]) + "]"
        return repr(x)
    return " ".join(s(x) for x in cn)
