"""olvc.evaluator -- expression and statement evaluation, loops with segment
summarisation.  `Machine` is the class the suites instantiate."""
from __future__ import annotations

import ast

import z3

from . import ops
from .interp import (
    ChainObj, EnumObj, Frame, IFunc, IGen, IRaise, IStop, ISuper, RevObj, SymMethod, ZipObj,
    contains_symbolic,
)
from .machine import BREAK, CONTINUE, NORMAL, Interp, _EdgeChar, _ListIter, _MISSING
from .sym import (
    Fold, Opaque, Poison, Restart, SBool, Seg, SInt, SymSet, Unsupported, ctx, has_seg, mk_bool, mk_int,
    sym_len, tagstr, zint,
)
from .tmpl import STRLIKE, Hole, Tmpl, is_symstr, tcat


def _z3_mentions(term, var):
    todo = [term]
    seen = set()
    while todo:
        t = todo.pop()
        if t.get_id() in seen:
            continue
        seen.add(t.get_id())
        if t.eq(var):
            return True
        todo.extend(t.children())
    return False


_ORD_CACHE = {}


def loop_ordinal(fr, node):
    """position of a loop / comprehension among the loops of its function, in source order
    (stable under edits that only move lines)"""
    root = fr.ifn.node if fr.ifn is not None else None
    if root is None:
        return (getattr(node, "lineno", 0), getattr(node, "col_offset", 0))
    d = _ORD_CACHE.get(id(root))
    if d is None:
        d = {}
        n = 0
        loops = [x for x in ast.walk(root) if isinstance(x, (ast.For, ast.ListComp, ast.SetComp, ast.DictComp, ast.GeneratorExp))]
        loops.sort(key=lambda x: (x.lineno, x.col_offset))
        for i, x in enumerate(loops):
            d[id(x)] = i
        _ORD_CACHE[id(root)] = d
        _ORD_CACHE[("keep", id(root))] = root
    return d.get(id(node), (getattr(node, "lineno", 0), getattr(node, "col_offset", 0)))


import os as _os
COVERAGE = set() if _os.environ.get("VERIF_COV") else None  # statements of repo functions executed by symbolic runs (tools/harness_coverage.py)


class Machine(Interp):
    # ==================================================================================
    # expressions
    def eval(self, node, fr):
        m = getattr(self, "e_" + type(node).__name__, None)
        if m is None:
            raise Unsupported(f"expression {type(node).__name__}")
        return (yield from m(node, fr))

    def e_Constant(self, node, fr):
        return node.value
        yield

    def e_Name(self, node, fr):
        return self.load_name(node.id, fr)
        yield

    def e_Attribute(self, node, fr):
        obj = yield from self.eval(node.value, fr)
        return self.getattr(obj, node.attr)

    def e_Subscript(self, node, fr):
        obj = yield from self.eval(node.value, fr)
        idx = yield from self.eval_index(node.slice, fr)
        return self.getitem(obj, idx)

    def eval_index(self, node, fr):
        if isinstance(node, ast.Slice):
            lo = (yield from self.eval(node.lower, fr)) if node.lower else None
            hi = (yield from self.eval(node.upper, fr)) if node.upper else None
            st = (yield from self.eval(node.step, fr)) if node.step else None
            return slice(lo, hi, st)
        return (yield from self.eval(node, fr))

    def e_Slice(self, node, fr):
        return (yield from self.eval_index(node, fr))

    def e_Call(self, node, fr):
        # zero-argument super()
        if isinstance(node.func, ast.Name) and node.func.id == "super" and not node.args and not node.keywords:
            if fr.cls is None:
                raise Unsupported("super() without __class__ cell")
            return ISuper(fr.cls, fr.self_obj)
        fn = yield from self.eval(node.func, fr)
        args = []
        for a in node.args:
            if isinstance(a, ast.Starred):
                v = yield from self.eval(a.value, fr)
                if not isinstance(v, (list, tuple)) or has_seg(v):
                    raise Unsupported("star-argument that is not a concrete sequence")
                args.extend(v)
            else:
                args.append((yield from self.eval(a, fr)))
        kwargs = {}
        for k in node.keywords:
            v = yield from self.eval(k.value, fr)
            if k.arg is None:
                if not isinstance(v, dict):
                    raise Unsupported("** of non-dict")
                kwargs.update(v)
            else:
                kwargs[k.arg] = v
        return (yield from self.call(fn, args, kwargs))

    def e_BinOp(self, node, fr):
        l = yield from self.eval(node.left, fr)
        r = yield from self.eval(node.right, fr)
        try:
            return ops.binop(node.op, l, r)
        except (TypeError, ValueError, ZeroDivisionError, OverflowError) as e:
            raise IRaise(e) from None

    def e_UnaryOp(self, node, fr):
        v = yield from self.eval(node.operand, fr)
        if isinstance(node.op, ast.Not):
            return not ops.truth(v)
        return ops.unaryop(node.op, v)

    def e_BoolOp(self, node, fr):
        v = None
        for i, sub in enumerate(node.values):
            v = yield from self.eval(sub, fr)
            if i == len(node.values) - 1:
                return v
            t = ops.truth(v)
            if COVERAGE is not None:
                COVERAGE.add((fr.globals.get("__name__", "?"), f"{node.lineno}:{node.col_offset}:boolop-operand{i}-{'true' if t else 'false'}"))
            if isinstance(node.op, ast.And) and not t:
                return v
            if isinstance(node.op, ast.Or) and t:
                return v
        return v

    def e_Compare(self, node, fr):
        l = yield from self.eval(node.left, fr)
        res = True
        for op, rn in zip(node.ops, node.comparators):
            r = yield from self.eval(rn, fr)
            res = self.compare(op, l, r)
            if len(node.ops) == 1:
                return res
            if not ops.truth(res):
                return False
            l = r
        return res

    def compare(self, op, l, r):
        if isinstance(l, _EdgeChar) or isinstance(r, _EdgeChar):
            e, c = (l, r) if isinstance(l, _EdgeChar) else (r, l)
            if not isinstance(c, str) or len(c) != 1 or not isinstance(op, (ast.Eq, ast.NotEq)):
                raise Unsupported("edge character compared with non-literal")
            res = ops.t_edge_char_eq(e.s, c, e.last)
            return ops.unaryop(ast.Not(), res) if isinstance(op, ast.NotEq) else res
        if isinstance(l, ops.SType) or isinstance(r, ops.SType):
            s, c = (l, r) if isinstance(l, ops.SType) else (r, l)
            if isinstance(op, (ast.Is, ast.IsNot, ast.Eq, ast.NotEq)) and isinstance(c, type):
                res = ops.opaque_isinstance(s.op, c) and (len(s.op.cands) == 1 or ops.opaque_type(s.op) is c)
                return (not res) if isinstance(op, (ast.IsNot, ast.NotEq)) else res
            t = ops.opaque_type(s.op)
            return self.compare(op, t, c) if s is l else self.compare(op, c, t)
        try:
            return ops.compare(op, l, r)
        except TypeError as e:
            raise IRaise(e) from None

    def e_IfExp(self, node, fr):
        t = yield from self.eval(node.test, fr)
        if ops.truth(t):
            if COVERAGE is not None:
                COVERAGE.add((fr.globals.get("__name__", "?"), f"{node.lineno}:{node.col_offset}:ifexp-then"))
            return (yield from self.eval(node.body, fr))
        if COVERAGE is not None:
            COVERAGE.add((fr.globals.get("__name__", "?"), f"{node.lineno}:{node.col_offset}:ifexp-else"))
        return (yield from self.eval(node.orelse, fr))

    def e_Lambda(self, node, fr):
        return (yield from self.make_function(node, fr, "<lambda>"))

    def make_function(self, node, fr, name):
        a = node.args
        defaults = []
        for d in a.defaults:
            defaults.append((yield from self.eval(d, fr)))
        kwd = {}
        for x, d in zip(a.kwonlyargs, a.kw_defaults):
            if d is not None:
                kwd[x.arg] = yield from self.eval(d, fr)
        enclosing = [fr.locals] + list(fr.enclosing)
        q = (fr.name + ".<locals>." + name) if fr.ifn else name
        return IFunc(node, fr.globals, enclosing, defaults, kwd, name, q, cls=fr.cls)

    def _alloc(self, v):
        c = ctx()
        c.fresh_objs.add(id(v))
        c.keep.append(v)
        if c.allocs is not None:
            c.allocs.add(id(v))
        return v

    def e_List(self, node, fr):
        out = []
        for e in node.elts:
            if isinstance(e, ast.Starred):
                v = yield from self.eval(e.value, fr)
                if not isinstance(v, (list, tuple)):
                    raise Unsupported("star in display over non-sequence")
                out.extend(v)
            else:
                out.append((yield from self.eval(e, fr)))
        return self._alloc(out)

    def e_Tuple(self, node, fr):
        out = []
        for e in node.elts:
            if isinstance(e, ast.Starred):
                v = yield from self.eval(e.value, fr)
                if not isinstance(v, (list, tuple)) or has_seg(v):
                    raise Unsupported("star in tuple display")
                out.extend(v)
            else:
                out.append((yield from self.eval(e, fr)))
        return tuple(out)

    def e_Set(self, node, fr):
        out = set()
        for e in node.elts:
            v = yield from self.eval(e, fr)
            if contains_symbolic(v, 1):
                raise Unsupported("set display with symbolic element")
            out.add(v)
        return self._alloc(out)

    def e_Dict(self, node, fr):
        out = {}
        for k, v in zip(node.keys, node.values):
            vv = yield from self.eval(v, fr) if k is None else None
            if k is None:
                vv = yield from self.eval(v, fr)
                if not isinstance(vv, dict):
                    raise Unsupported("** in dict display")
                out.update(vv)
                continue
            kk = yield from self.eval(k, fr)
            vv = yield from self.eval(v, fr)
            if contains_symbolic(kk, 1):
                raise Unsupported("dict display with symbolic key")
            out[kk] = vv
        return self._alloc(out)

    def e_JoinedStr(self, node, fr):
        parts = []
        for v in node.values:
            if isinstance(v, ast.Constant):
                parts.append(v.value)
            else:
                x = yield from self.eval(v.value, fr)
                if v.format_spec is not None:
                    if contains_symbolic(x, 1):
                        raise Unsupported("format spec on symbolic value")
                    spec = yield from self.e_JoinedStr(v.format_spec, fr)
                    parts.append(self.native(format, x, spec))
                    continue
                if v.conversion == 114:
                    if isinstance(x, (Opaque,)) or is_symstr(x) or isinstance(x, (SInt, SBool)):
                        parts.append(f"<{x!r}>")  # only used in messages
                    else:
                        parts.append(self.native(repr, x))
                elif v.conversion == -1:
                    parts.append(ops.to_str(x))
                else:
                    raise Unsupported("f-string conversion")
        return tcat(*parts)

    def e_NamedExpr(self, node, fr):
        v = yield from self.eval(node.value, fr)
        self.store_name(node.target.id, v, fr)
        return v

    def e_Yield(self, node, fr):
        v = None
        if node.value is not None:
            v = yield from self.eval(node.value, fr)
        sent = yield v
        return sent

    def e_YieldFrom(self, node, fr):
        g = yield from self.eval(node.value, fr)
        if isinstance(g, IGen):
            g.started = True
            r = yield from g.gen
            g.finished = True
            return r
        raise Unsupported("yield from a non-interpreted iterable")

    def e_Starred(self, node, fr):
        raise Unsupported("bare starred expression")
        yield

    # -- comprehensions (evaluated eagerly; generator expressions too: see SUBSET.md) ----
    def e_ListComp(self, node, fr):
        out = self._alloc([])
        yield from self.comp_rec(node, 0, fr, lambda cfr: self._comp_append(out, node.elt, cfr))
        return out

    def _comp_append(self, out, elt, cfr):
        v = yield from self.eval(elt, cfr)
        self.list_method(out, "append", [v], {})

    def e_GeneratorExp(self, node, fr):
        # NOTE eager: sound when the element expression has no side effect that must
        # interleave with the consumer; all genexps in the verified code are pure lookups.
        return (yield from self.e_ListComp(node, fr))

    def e_SetComp(self, node, fr):
        lst = yield from self.e_ListComp(node, fr)
        if has_seg(lst) or contains_symbolic(lst, 1):
            return self._alloc(SymSet(lst))
        return self._alloc(set(lst))

    def e_DictComp(self, node, fr):
        out = self._alloc({})

        def body(cfr):
            k = yield from self.eval(node.key, cfr)
            v = yield from self.eval(node.value, cfr)
            if contains_symbolic(k, 1):
                raise Unsupported("dict comprehension with symbolic key")
            out[k] = v
        yield from self.comp_rec(node, 0, fr, body)
        return out

    def comp_rec(self, node, gi, fr, body):
        gen = node.generators[gi]
        if gen.is_async:
            raise Unsupported("async comprehension")
        it = yield from self.eval(gen.iter, fr)
        cfr = fr.child({}) if gi == 0 else fr
        for g in node.generators:
            cfr.local_names |= {x.id for x in ast.walk(g.target) if isinstance(x, ast.Name)}

        def round_body():
            for cond in gen.ifs:
                t = yield from self.eval(cond, cfr)
                if not ops.truth(t):
                    return NORMAL
            if gi + 1 < len(node.generators):
                yield from self.comp_rec(node, gi + 1, cfr, body)
            else:
                yield from body(cfr)
            return NORMAL

        key = ("comp", fr.name.split(".")[-1], loop_ordinal(fr, node), gi)
        sig = yield from self.loop_over(key, gen.target, it, cfr, round_body)
        if sig is not None:
            raise Unsupported("control transfer out of a comprehension")

    # ==================================================================================
    # statements
    def exec_block(self, stmts, fr):
        for s in stmts:
            if COVERAGE is not None:
                COVERAGE.add((fr.globals.get("__name__", "?"), getattr(s, "lineno", 0)))
            m = getattr(self, "s_" + type(s).__name__, None)
            if m is None:
                raise Unsupported(f"statement {type(s).__name__}")
            sig = yield from m(s, fr)
            if sig is not None:
                return sig
        return NORMAL

    def s_Expr(self, node, fr):
        yield from self.eval(node.value, fr)

    def s_Pass(self, node, fr):
        return NORMAL
        yield

    def s_Global(self, node, fr):
        return NORMAL
        yield

    s_Nonlocal = s_Global

    def s_Assign(self, node, fr):
        v = yield from self.eval(node.value, fr)
        for t in node.targets:
            yield from self.assign(t, v, fr)

    def s_AnnAssign(self, node, fr):
        if node.value is None:
            return NORMAL
        v = yield from self.eval(node.value, fr)
        yield from self.assign(node.target, v, fr)

    def assign(self, t, v, fr):
        if isinstance(t, ast.Name):
            self.store_name(t.id, v, fr)
        elif isinstance(t, ast.Attribute):
            obj = yield from self.eval(t.value, fr)
            self.setattr(obj, t.attr, v)
        elif isinstance(t, ast.Subscript):
            obj = yield from self.eval(t.value, fr)
            idx = yield from self.eval_index(t.slice, fr)
            self.setitem(obj, idx, v)
        elif isinstance(t, (ast.Tuple, ast.List)):
            if any(isinstance(e, ast.Starred) for e in t.elts):
                raise Unsupported("starred unpacking in interpreted code")
            if isinstance(v, Opaque):
                f = v.props.get("unpack")
                if f is None:
                    raise Unsupported(f"unpacking opaque {v!r}")
                if "len" in v.props:
                    n = v.props["len"](v)
                    if not ops.truth(ops.compare(ast.Eq(), n, len(t.elts))):
                        raise IRaise(ValueError(f"cannot unpack: expected {len(t.elts)} values"))
                v = f(v, len(t.elts))
            if isinstance(v, IGen):
                v = self.drain(v)
            if isinstance(v, SYMBOLIC_NOSEQ):
                raise Unsupported("unpacking symbolic value")
            if isinstance(v, (list, tuple)) and has_seg(v):
                raise Unsupported("unpacking a list with segments")
            try:
                vals = list(v)
            except TypeError as e:
                raise IRaise(e) from None
            if len(vals) != len(t.elts):
                raise IRaise(ValueError(f"cannot unpack: expected {len(t.elts)}, got {len(vals)}"))
            for e, x in zip(t.elts, vals):
                yield from self.assign(e, x, fr)
        else:
            raise Unsupported(f"assignment target {type(t).__name__}")

    def s_AugAssign(self, node, fr):
        t = node.target
        if isinstance(t, ast.Name):
            old = self.load_name(t.id, fr)
            r = yield from self.eval(node.value, fr)
            new = self.inplace(node.op, old, r)
            self.store_name(t.id, new, fr)
        elif isinstance(t, ast.Attribute):
            obj = yield from self.eval(t.value, fr)
            old = self.getattr(obj, t.attr)
            r = yield from self.eval(node.value, fr)
            self.setattr(obj, t.attr, self.inplace(node.op, old, r))
        elif isinstance(t, ast.Subscript):
            obj = yield from self.eval(t.value, fr)
            idx = yield from self.eval_index(t.slice, fr)
            if isinstance(obj, list) and (isinstance(idx, SInt) or has_seg(obj)):
                old = self.sym_list_get(obj, idx)
                r = yield from self.eval(node.value, fr)
                self.sym_list_set(obj, idx, self.inplace(node.op, old, r))
                return NORMAL
            old = self.getitem(obj, idx)
            r = yield from self.eval(node.value, fr)
            self.setitem(obj, idx, self.inplace(node.op, old, r))
        else:
            raise Unsupported("augmented assignment target")

    def _locate_round(self, lst, idx):
        """the single-item segment of `lst` and the round term that position idx denotes"""
        c = ctx()
        off = z3.IntVal(0)
        for x in lst:
            if isinstance(x, Seg):
                if len(x.items) == 1:
                    r = z3.simplify(zint(idx) - off)
                    ok, _ = c.valid(z3.And(r >= 0, r < zint(x.length)))
                    if ok:
                        return x, r
                off = off + zint(x.length) * len(x.items)
            else:
                off = off + 1
        ops.suggest_split(lst, idx)
        raise Unsupported("symbolic list position does not provably fall into one segment")

    def sym_list_get(self, lst, idx):
        seg, r = self._locate_round(lst, idx)
        c = ctx()
        if (id(lst), id(seg)) in getattr(c, "seg_updated", set()):
            raise Unsupported("element read after a pointwise update in the same round")
        return ops.seg_element(seg, r)

    def sym_list_set(self, lst, idx, v):
        """pointwise update of a segment at the position of the current generic round"""
        c = ctx()
        seg, r = self._locate_round(lst, idx)
        if not c.generic or c.effects is None:
            raise Unsupported("store at a symbolic list position outside a generic round")
        cur, j = c.generic[-1]
        ok1, _ = c.valid(r == j)
        ok2, _ = c.valid(zint(seg.length) == zint(cur.length))
        if ok2 and not ok1 and c.valid(r == zint(seg.length) - 1 - j)[0]:
            # mirrored: round j of the loop updates element len-1-j (a bijection of the run)
            if not hasattr(c, "seg_updated"):
                c.seg_updated = set()
            c.seg_updated.add((id(lst), id(seg)))
            c.effects.append(("segupdate", lst, seg, v, j, "mirror"))
            return
        if not (ok1 and ok2):
            # may become aligned once a loop-carried counter is recognised as affine
            # (decided at the end of the round): record, and fail there if it persists
            c.effects.append(("segupdate-unaligned", lst))
            return
        if not hasattr(c, "seg_updated"):
            c.seg_updated = set()
        c.seg_updated.add((id(lst), id(seg)))
        c.effects.append(("segupdate", lst, seg, v, j))

    def inplace(self, op, old, r):
        if isinstance(old, list) and isinstance(op, ast.Add):
            # list.__iadd__: extends in place and returns the same object
            self.list_method(old, "extend", [r], {})
            return old
        try:
            return ops.binop(op, old, r)
        except (TypeError, ValueError, ZeroDivisionError) as e:
            raise IRaise(e) from None

    def s_Return(self, node, fr):
        v = None
        if node.value is not None:
            v = yield from self.eval(node.value, fr)
        return ("return", v)

    def s_Break(self, node, fr):
        return BREAK
        yield

    def s_Continue(self, node, fr):
        return CONTINUE
        yield

    def s_If(self, node, fr):
        t = yield from self.eval(node.test, fr)
        if ops.truth(t):
            if COVERAGE is not None:
                COVERAGE.add((fr.globals.get("__name__", "?"), f"{node.lineno}:{node.col_offset}:if-true"))
            return (yield from self.exec_block(node.body, fr))
        if COVERAGE is not None:
            COVERAGE.add((fr.globals.get("__name__", "?"), f"{node.lineno}:{node.col_offset}:if-false"))
        return (yield from self.exec_block(node.orelse, fr))

    def s_Delete(self, node, fr):
        for t in node.targets:
            if isinstance(t, ast.Subscript):
                obj = yield from self.eval(t.value, fr)
                idx = yield from self.eval_index(t.slice, fr)
                if isinstance(obj, list) and idx == -1:
                    self.list_method(obj, "pop", [], {})
                elif isinstance(obj, list) and idx == 0 and not has_seg(obj):
                    self.list_method(obj, "pop", [0], {})
                elif isinstance(obj, dict) and not contains_symbolic(idx, 1):
                    if idx not in obj:
                        raise IRaise(KeyError(idx))
                    del obj[idx]
                    ctx().writes.append(("item", obj, idx))
                else:
                    raise Unsupported("del of this subscript")
            elif isinstance(t, ast.Name):
                if t.id not in fr.locals:
                    raise IRaise(UnboundLocalError(t.id))
                del fr.locals[t.id]
            else:
                raise Unsupported("del target")
        return NORMAL

    def s_Assert(self, node, fr):
        t = yield from self.eval(node.test, fr)
        if not ops.truth(t):
            msg = None
            if node.msg is not None:
                msg = yield from self.eval(node.msg, fr)
            raise IRaise(AssertionError(msg))

    def s_Raise(self, node, fr):
        if node.exc is None:
            exc = getattr(fr, "current_exc", None)
            if exc is None:
                raise IRaise(RuntimeError("No active exception to reraise"))
            raise IRaise(exc)
        e = yield from self.eval(node.exc, fr)
        if isinstance(e, type):
            e = self.native(e)
        if node.cause is not None:
            cause = yield from self.eval(node.cause, fr)
            try:
                e.__cause__ = cause
            except Exception:  # noqa: BLE001
                pass
        raise IRaise(e)

    def s_Try(self, node, fr):
        try:
            try:
                sig = yield from self.exec_block(node.body, fr)
            except IRaise as ir:
                exc = ir.exc
                for h in node.handlers:
                    if h.type is None:
                        match = True
                    else:
                        k = yield from self.eval(h.type, fr)
                        match = self.exc_matches(exc, k)
                    if match:
                        if h.name:
                            fr.locals[h.name] = exc
                        prev = getattr(fr, "current_exc", None)
                        fr.current_exc = exc
                        try:
                            sig = yield from self.exec_block(h.body, fr)
                        finally:
                            fr.current_exc = prev
                        break
                else:
                    raise
            else:
                if sig is None:
                    sig = yield from self.exec_block(node.orelse, fr)
        finally:
            if node.finalbody:
                # finalbody with its own control transfer is not supported
                fsig = self.run(self.exec_block(node.finalbody, fr))
                if fsig is not None:
                    raise Unsupported("control transfer in finally")
        return sig

    @staticmethod
    def exc_matches(exc, k):
        if not isinstance(k, tuple):
            k = (k,)
        for c in k:
            if c is StopIteration and isinstance(exc, IStop):
                return True
            if isinstance(c, type) and isinstance(exc, c):
                return True
        return False

    def s_FunctionDef(self, node, fr):
        f = yield from self.make_function(node, fr, node.name)
        for d in reversed(node.decorator_list):
            dv = yield from self.eval(d, fr)
            f = yield from self.call(dv, [f], {})
        self.store_name(node.name, f, fr)

    def s_Import(self, node, fr):
        for al in node.names:
            mod = self.native(__import__, al.name)
            if al.asname:
                import importlib
                mod = self.native(importlib.import_module, al.name)
                self.store_name(al.asname, mod, fr)
            else:
                self.store_name(al.name.split(".")[0], mod, fr)
        return NORMAL
        yield

    def s_ImportFrom(self, node, fr):
        import importlib
        pkg = fr.globals.get("__package__")
        name = "." * node.level + (node.module or "")
        mod = self.native(importlib.import_module, name, pkg if node.level else None)
        for al in node.names:
            try:
                v = getattr(mod, al.name)
            except AttributeError:
                v = self.native(importlib.import_module, f"{mod.__name__}.{al.name}")
            self.store_name(al.asname or al.name, v, fr)
        return NORMAL
        yield

    def s_With(self, node, fr):
        if len(node.items) != 1:
            raise Unsupported("with: several items")
        item = node.items[0]
        cm = yield from self.eval(item.context_expr, fr)
        if isinstance(cm, Opaque) and "enter" in cm.props:
            v = cm.props["enter"](cm)
            if item.optional_vars is not None:
                yield from self.assign(item.optional_vars, v, fr)
            try:
                sig = yield from self.exec_block(node.body, fr)
            except IRaise as e:
                cm.props["exit"](cm, e.exc)
                raise
            cm.props["exit"](cm, None)
            return sig
        raise Unsupported("with statement on a native context manager")

    def s_While(self, node, fr):
        n = 0
        nsym = 0
        while True:
            t = yield from self.eval(node.test, fr)
            if not isinstance(ops.truth_term(t), bool):
                nsym += 1
                if nsym > 12:
                    raise Unsupported("while loop with a symbolic condition does not terminate within 12 iterations")
            if not ops.truth(t):
                break
            n += 1
            if n > 100000:
                raise Unsupported("while loop bound")
            sig = yield from self.exec_block(node.body, fr)
            if sig is BREAK:
                return NORMAL
            if sig is CONTINUE or sig is None:
                continue
            return sig
        return (yield from self.exec_block(node.orelse, fr))

    def s_For(self, node, fr):
        it = yield from self.eval(node.iter, fr)

        def round_body():
            return (yield from self.exec_block(node.body, fr))

        key = ("for", fr.name.split(".")[-1], loop_ordinal(fr, node))
        sig = yield from self.loop_over(key, node.target, it, fr, round_body)
        if sig is BREAK:
            return NORMAL
        if sig is not None:
            return sig
        return (yield from self.exec_block(node.orelse, fr))

    # ==================================================================================
    # loops
    def iteration_plan(self, it):
        """-> list of ('one', value) | ('seg', Seg, value_fn(seg_item_values) , nitems)"""
        if isinstance(it, IGen):
            return [("one", v) for v in self.drain(it)]
        if isinstance(it, _ListIter):
            it = it.lst
        if isinstance(it, SymSet):
            ctx().log("nondeterministic-iteration", "set", len(it))
        if isinstance(it, list) or (isinstance(it, tuple)):
            out = []
            for x in it:
                if isinstance(x, Seg):
                    out.append(("seg", x, None))
                else:
                    out.append(("one", x))
            return out
        if isinstance(it, RevObj):
            out = []
            for x in reversed(it.lst):
                if isinstance(x, Seg):
                    out.append(("seg", Seg(x.tag, x.length, x.jvar, list(reversed(x.items)), not x.rev, x.cls_note), None))
                else:
                    out.append(("one", x))
            return out
        if isinstance(it, EnumObj):
            out = []
            base = it.start
            for x in it.lst:
                if isinstance(x, Seg):
                    if len(x.items) != 1:
                        raise Unsupported("enumerate over a multi-item segment")
                    b = base
                    if x.rev:
                        raise Unsupported("enumerate over a reversed segment")
                    out.append(("seg", x, (lambda vals, b=b, x=x: (mk_int(zint(b) + x.jvar), vals[0]))))
                    base = mk_int(zint(base) + zint(x.length))
                else:
                    out.append(("one", (base, x)))
                    base = mk_int(zint(base) + 1)
            return out
        if isinstance(it, ZipObj):
            return self.zip_plan([self._as_plain_list(l) for l in it.lists])
        if isinstance(it, Opaque):
            f = it.props.get("as_list")
            if f is None:
                raise Unsupported(f"iteration over opaque {it!r}")
            if it.props.get("unordered"):
                ctx().log("nondeterministic-iteration", "set", it.tag)
            return self.iteration_plan(f(it))
        if isinstance(it, (SInt, SBool, Fold, Poison)) or is_symstr(it):
            raise Unsupported(f"iteration over {type(it).__name__}")
        if isinstance(it, (set, frozenset)):
            ctx().notes.append(("set-iteration", sorted(map(repr, it))))
            if len(it) > 1:
                ctx().log("nondeterministic-iteration", "set", len(it))
        try:
            return [("one", v) for v in it]
        except TypeError as e:
            raise IRaise(e) from None

    def _as_plain_list(self, l):
        """list view of reversed()/plain lists for zip"""
        if isinstance(l, RevObj):
            out = []
            for x in reversed(l.lst):
                if isinstance(x, Seg):
                    out.append(Seg(x.tag, x.length, x.jvar, list(reversed(x.items)), not x.rev, x.cls_note))
                else:
                    out.append(x)
            return out
        return list(l)

    def zip_plan(self, lists):
        """all lists must have the same segment structure (lengths provably equal)"""
        c = ctx()
        lists = [list(l) for l in lists]
        out = []
        while all(lists):
            heads = [l[0] for l in lists]
            if all(not isinstance(h, Seg) for h in heads):
                out.append(("one", tuple(heads)))
                for l in lists:
                    l.pop(0)
                continue
            if all(isinstance(h, Seg) for h in heads):
                n0 = zint(heads[0].length)
                same = all(c.valid(zint(h.length) == n0)[0] for h in heads[1:])
                if not same and len(heads) == 2 and all(len(h.items) == 1 for h in heads) \
                        and all(len(l) == 1 for l in lists):
                    # zip stops at the shorter one (both are the last items of their lists)
                    a_, b_ = heads
                    if c.valid(zint(b_.length) <= zint(a_.length))[0]:
                        short, long_, swap = b_, a_, True
                    elif c.valid(zint(a_.length) <= zint(b_.length))[0]:
                        short, long_, swap = a_, b_, False
                    else:
                        raise Unsupported("zip over segments whose lengths cannot be ordered")
                    js = short.jvar
                    # position of the short run's round js in iteration order, and the long
                    # run's round at that position
                    k_ = (zint(short.length) - 1 - js) if short.rev else js
                    jl = (zint(long_.length) - 1 - k_) if long_.rev else k_
                    lv = ops.subst_j(long_.items[0], long_.jvar, z3.simplify(jl))
                    pair = (lv, short.items[0]) if swap else (short.items[0], lv)
                    out.append(("seg", Seg(("zip", a_.tag, b_.tag), short.length, js, [pair], short.rev), None))
                    return out
                for h in heads[1:]:
                    ok, _ = c.valid(zint(h.length) == n0)
                    if not ok:
                        raise Unsupported("zip over segments of different length")
                    if len(h.items) != 1 or h.rev != heads[0].rev:
                        raise Unsupported("zip over irregular segments")
                j0 = heads[0].jvar
                vals = [heads[0].items[0]] + [ops.subst_j(h.items[0], h.jvar, j0) for h in heads[1:]]
                out.append(("seg", Seg(("zip",) + tuple(h.tag for h in heads), heads[0].length, j0,
                                       [tuple(vals)], heads[0].rev), None))
                for l in lists:
                    l.pop(0)
                continue
            # mixed: split the segment heads
            for l in lists:
                if isinstance(l[0], Seg):
                    ops.split_head(l)
        # zip stops as soon as one list is exhausted; what is left in the others is ignored
        return out

    def loop_over(self, key, target, it, fr, round_body):
        plan = self.iteration_plan(it)
        for idx, step in enumerate(plan):
            if step[0] == "one":
                yield from self.assign(target, step[1], fr)
                sig = yield from round_body()
                if sig is BREAK:
                    return BREAK
                if sig is CONTINUE or sig is None:
                    continue
                return sig
            else:
                _, seg, vf = step
                sig = yield from self.seg_rounds(key + (idx,), target, seg, vf, fr, round_body)
                if sig is not None:
                    return sig
        return NORMAL

    # ---------------------------------------------------------------------------------
    def seg_rounds(self, key, target, seg, value_fn, fr, round_body):
        """All rounds of one segment, by one generic round + side-conditions (DESIGN 3.4)."""
        c = ctx()
        mode = c.hints.get(key, {})
        n = zint(seg.length)
        okn, _ = c.valid(n >= 0)
        if not okn:
            raise Unsupported("segment of possibly negative length")
        if mode.get("splitat") is not None:
            # the rounds fall into two classes at a known point (a position computed from the
            # round index crosses a run boundary of a list it indexes): two consecutive runs
            k = mode["splitat"]
            if not c.valid(z3.And(k >= 0, k <= n))[0]:
                raise Unsupported(f"loop at {key}: split point {z3.simplify(k)} is not provably within the run")
            jv = seg.jvar
            if seg.rev:  # iteration order is descending j: first the rounds [n-k, n)
                s1 = Seg((seg.tag, "hi"), mk_int(k), jv, [ops.subst_j(x, jv, jv + (n - k)) for x in seg.items], True, seg.cls_note)
                s2 = Seg((seg.tag, "lo"), mk_int(n - k), jv, list(seg.items), True, seg.cls_note)
            else:
                s1 = Seg((seg.tag, "lo"), mk_int(k), jv, list(seg.items), False, seg.cls_note)
                s2 = Seg((seg.tag, "hi"), mk_int(n - k), jv, [ops.subst_j(x, jv, jv + k) for x in seg.items], False, seg.cls_note)
            for part, sub in ((s1, "part1"), (s2, "part2")):
                sig = yield from self.seg_rounds(key + (sub,), target, part, value_fn, fr, round_body)
                if sig is not None:
                    return sig
            return NORMAL
        if mode.get("split0") or mode.get("peel"):
            if not c.branch(n > 0, "loop entered"):
                return NORMAL
        if mode.get("peel"):
            # first round concretely, then the rest generically
            first = (n - 1) if seg.rev else z3.IntVal(0)
            vals = [ops.seg_element(seg, first, k) for k in range(len(seg.items))]
            sig = yield from self.one_round(target, vals, value_fn, seg, fr, round_body, first)
            if sig is BREAK:
                return BREAK
            if sig is not None and sig is not CONTINUE:
                return sig
            if seg.rev:
                seg = Seg(seg.tag, mk_int(n - 1), seg.jvar, seg.items, True, seg.cls_note)
            else:
                seg = Seg((seg.tag, "+1"), mk_int(n - 1), seg.jvar,
                          [ops.subst_j(x, seg.jvar, seg.jvar + 1) for x in seg.items], False, seg.cls_note)
            n = zint(seg.length)
            mode = c.hints.get(key + ("tail",), {})
            key = key + ("tail",)
            if mode.get("split0"):
                if not c.branch(n > 0, "tail entered"):
                    return NORMAL

        j = seg.jvar
        scope = [j >= 0, j < n]
        c.pc.extend(scope)
        pc_mark = len(c.pc)
        if not c.feasible():
            # the segment is necessarily empty on this path
            del c.pc[pc_mark - 2:pc_mark]
            return NORMAL
        before = dict(fr.locals)
        affine = mode.get("affine", {})
        folds = mode.get("fold", ())
        round_no = (n - 1 - j) if seg.rev else j
        for name, cst in affine.items():
            fr.locals[name] = mk_int(zint(before[name]) + cst * round_no)
        accs = {}
        for name in folds:
            accs[name] = Opaque(("acc", name) + key, None)
            fr.locals[name] = accs[name]
        entry = dict(fr.locals)

        saved_eff, saved_alloc = c.effects, c.allocs
        c.effects, c.allocs = [], set()
        trace_mark = len(c.trace)
        c.generic.append((seg, j))
        if not hasattr(c, "generic_keys"):
            c.generic_keys = []
        c.generic_keys.append(key)
        outer_log = getattr(fr, "access_log", None)
        fr.access_log = {}
        try:
            vals = list(seg.items)
            sig = yield from self.one_round(target, vals, value_fn, seg, fr, round_body, j)
        finally:
            c.generic.pop()
            c.generic_keys.pop()
            effects, allocs = c.effects, c.allocs
            c.effects, c.allocs = saved_eff, saved_alloc
            round_log, fr.access_log = fr.access_log, outer_log
            if outer_log is not None:
                for k_, v_ in round_log.items():
                    outer_log.setdefault(k_, v_)
        if sig is not None and sig is not CONTINUE:
            raise Unsupported(f"control transfer ({sig[0]}) out of a generic loop round at {key}")

        # (a) no decision may depend on the round variable
        for t in c.pc[pc_mark:]:
            if _z3_mentions(t, j):
                if not mode.get("peel"):
                    raise Restart(key, _merge(mode, {"peel": True}))
                raise Unsupported(f"loop at {key}: a branch depends on the round index")

        # (b) loop-carried locals
        target_names = {x.id for x in ast.walk(target) if isinstance(x, ast.Name)}
        after = fr.locals
        new_hint = None
        fold_results = {}
        for name in set(entry) | set(after):
            if name in target_names:
                continue
            b, a = entry.get(name, _MISSING), after.get(name, _MISSING)
            if round_log.get(name) == "w" and name not in affine and name not in accs:
                # written before it is read in the round: a round-local temporary, not
                # loop-carried; after the loop it holds the last round's value (untracked
                # unless it is the same in every round and equal to the entry value)
                if not _same_value(c, a, b):
                    after[name] = Poison(f"{name} bound in summarised loop")
                continue
            if name in affine:
                ok, _ = c.valid(zint(a) == zint(b) + affine[name])
                if not ok:
                    raise Unsupported(f"loop at {key}: {name} is not affine")
                continue
            if name in accs:
                fold_results[name] = a
                continue
            if _same_value(c, a, b):
                continue
            if b is _MISSING or isinstance(b, Poison):
                # variable (re)bound inside the round before any read (reading an unbound or
                # untracked variable is an error/Unsupported): not loop-carried; untracked
                # after the loop
                after[name] = Poison(f"{name} bound in summarised loop")
                continue
            if isinstance(a, (int, SInt)) and isinstance(b, (int, SInt)) and not isinstance(a, bool):
                d = z3.simplify(zint(a) - zint(b))
                if z3.is_int_value(d):
                    new_hint = _merge(new_hint or mode, {"affine": {**affine, name: d.as_long()}})
                    continue
            new_hint = _merge(new_hint or mode, {"fold": tuple(folds) + (name,)})
        if new_hint is not None:
            raise Restart(key, new_hint)

        # (c) heap effects
        appended = {}  # id(list) -> (list, items)
        idem = []
        elem_ids = {id(x) for x in seg.items}
        for x in seg.items:
            if isinstance(x, tuple):
                elem_ids |= {id(y) for y in x}
            for y in (x if isinstance(x, tuple) else (x,)):
                if isinstance(y, Opaque):  # state owned by the element (its fields)
                    elem_ids |= {id(f) for f in y.fields.values()}
        for e in effects:
            kind, obj = e[0], e[1]
            if id(obj) in allocs:
                continue
            if id(obj) in elem_ids or (isinstance(obj, Opaque) and _tag_mentions(obj.tag, j)):
                # the round's own element is updated in place: a pointwise update of the
                # segment (the element template now carries the updated state)
                continue
            if kind == "append":
                appended.setdefault(id(obj), (obj, []))[1].extend(e[2])
            elif kind == "setattr":
                _, _, name, old, new = e
                if _same_value(c, old, new):
                    continue
                if contains_symbolic(new, 2) and _value_mentions(new, j):
                    raise Unsupported(f"loop at {key}: attribute {name} written with round-dependent value")
                idem.append(e)
            elif kind == "segupdate-unaligned":
                raise Unsupported(f"loop at {key}: store at a symbolic list position that is not aligned with the round")
            elif kind == "segupdate":
                _, _, useg, newv, jcur = e[:5]
                if len(e) > 5:
                    useg.items[0] = ops.subst_j(newv, jcur, z3.simplify(zint(useg.length) - 1 - useg.jvar))
                else:
                    useg.items[0] = ops.subst_j(newv, jcur, useg.jvar) if not useg.jvar.eq(jcur) else newv
                getattr(c, "seg_updated", set()).discard((id(obj), id(useg)))
            elif kind == "container" and e[2] in ("add", "update") and not contains_symbolic(e[3], 2):
                # adding the same concrete elements every round is idempotent
                idem.append(e)
            else:
                raise Unsupported(f"loop at {key}: non-uniform heap effect {kind} on a pre-existing object")
        if idem and not (mode.get("split0") or mode.get("peel")):
            raise Restart(key, _merge(mode, {"split0": True}))
        for name in list(accs):
            a = fold_results.get(name)
            if isinstance(a, ops.StrAcc) and a.acc is accs[name] and isinstance(before[name], ops.STRLIKE):
                # string accumulation: before + piece(0) + piece(1) + ...
                from .tmpl import tcat, tjoin
                fr.locals[name] = tcat(before[name], tjoin("", [Seg(("strfold", name) + key, seg.length, j, [tcat(*a.parts)], seg.rev)]))
                continue
            fr.locals[name] = Fold(("fold", name) + key, seg.length, j, before[name], accs[name], a, seg.rev)
        for name, cst in affine.items():
            fr.locals[name] = mk_int(zint(before[name]) + cst * n)
        for obj, items in appended.values():
            k = len(items)
            if k == 0:
                continue
            if obj[-k:] != items and not all(x is y for x, y in zip(obj[-k:], items)):
                raise Unsupported(f"loop at {key}: appended items are not at the tail")
            del obj[-k:]
            obj.append(Seg(("out",) + key + (len(obj),), seg.length, j, items, seg.rev))
        # trace events of the round become one repetition event
        evs = c.trace[trace_mark:]
        del c.trace[trace_mark:]
        if evs:
            c.trace.append(("rep", seg.length, j, seg.rev, evs))
        # drop the scope assumptions, keep segment-level decisions
        del c.pc[pc_mark - 2:pc_mark]
        for nm in target_names:
            fr.locals[nm] = Poison(f"loop target {nm} after a summarised loop")
        # a poisoned target is re-bound by the next element of the same loop: fine
        return NORMAL

    def one_round(self, target, vals, value_fn, seg, fr, round_body, round_term):
        sig = None
        if value_fn is not None:
            v = value_fn(vals)
            yield from self.assign(target, v, fr)
            sig = yield from round_body()
            return sig
        for v in vals:
            yield from self.assign(target, v, fr)
            sig = yield from round_body()
            if sig is not None and sig is not CONTINUE:
                return sig
        return sig


SYMBOLIC_NOSEQ = (SInt, SBool, Fold, Poison, Tmpl, Hole)


def _merge(a, b):
    out = dict(a or {})
    out.update(b)
    return out


def _same_value(c, a, b):
    if a is b:
        return True
    if a is _MISSING or b is _MISSING:
        return False
    if isinstance(a, (SInt, SBool)) or isinstance(b, (SInt, SBool)):
        try:
            if isinstance(a, (SInt, int)) and isinstance(b, (SInt, int)) and not isinstance(a, bool) and not isinstance(b, bool):
                ok, _ = c.valid(zint(a) == zint(b))
                return ok
        except Unsupported:
            return False
        return False
    if isinstance(a, (int, str, bool, float, type(None), bytes)) and type(a) is type(b):
        return a == b
    return False


def _value_mentions(v, j, depth=4):
    if isinstance(v, (SInt, SBool)):
        return _z3_mentions(v.t, j)
    if isinstance(v, Opaque):
        return _tag_mentions(v.tag, j)
    if isinstance(v, Hole):
        return _tag_mentions(v.tag, j)
    if depth <= 0:
        return False
    if isinstance(v, (list, tuple)):
        return any(_value_mentions(x, j, depth - 1) for x in v)
    if isinstance(v, Tmpl):
        return any(_value_mentions(x, j, depth - 1) for x in v.parts)
    if isinstance(v, ast.AST):
        return any(_value_mentions(getattr(v, f, None), j, depth - 1) for f in v._fields)
    return False


def _tag_mentions(tag, j):
    if isinstance(tag, tuple):
        return any(_tag_mentions(t, j) for t in tag)
    if z3.is_expr(tag):
        return _z3_mentions(tag, j)
    return False
