"""olvc.tmpl -- strings as templates (no SMT string theory).

A template is a sequence of parts: literal `str`, `Hole` (an unknown string with a few
boolean facts), `Join(sep, items)` (str.join over a list that may contain segments) and
`Fn(name, base, args)` (an uninterpreted string function applied to a template, used for
operations the engine does not look into, e.g. `.replace`).
"""
from __future__ import annotations

import z3

import hashlib

from .sym import SBool, Seg, Unsupported, ctx, has_seg, mk_bool, sym_len, tagstr, zint


def _short(t):
    r = repr(t)
    return hashlib.sha1(r.encode()).hexdigest()[:8]


class Hole:
    """Unknown string.  kind: 'text' (unparsed child, non-empty), 'ident' (identifier,
    non-empty, no special characters), 'str' (arbitrary), other kinds are user-defined."""

    def __init__(self, tag, kind="str", nonempty=None, **props):
        self.tag = tag
        self.kind = kind
        self.nonempty = (kind in ("text", "ident")) if nonempty is None else nonempty
        self.props = props

    def fact(self, name):
        """z3 Bool constant for a property of this string (deterministic name)."""
        return z3.Bool(f"{tagstr(self.tag)}.{name}")

    def __repr__(self):
        return "{" + tagstr(self.tag) + "}"

    def __eq__(self, o):
        return isinstance(o, Hole) and o.tag == self.tag and o.kind == self.kind

    def __hash__(self):
        return hash(("Hole", self.tag))

    def __bool__(self):
        raise Unsupported("native truth test of a symbolic string")


class Join:
    def __init__(self, sep, items):
        self.sep = as_tmpl(sep)
        self.items = list(items)  # python list, may contain Seg markers; elements str|Tmpl|Hole

    def __repr__(self):
        return f"Join({self.sep!r}, {self.items!r})"


class Fn:
    def __init__(self, name, base, args=()):
        self.name, self.base, self.args = name, as_tmpl(base), tuple(args)

    def __repr__(self):
        return f"{self.name}({self.base!r}{''.join(', ' + repr(a) for a in self.args)})"


class Tmpl:
    def __init__(self, parts=()):
        out = []
        for p in parts:
            if isinstance(p, Tmpl):
                ps = p.parts
            else:
                ps = [p]
            for q in ps:
                if isinstance(q, str):
                    if not q:
                        continue
                    if out and isinstance(out[-1], str):
                        out[-1] += q
                        continue
                elif not isinstance(q, (Hole, Join, Fn)):
                    raise Unsupported(f"not a string part: {type(q).__name__}")
                out.append(q)
        self.parts = out

    def __repr__(self):
        return "T[" + " ".join(repr(p) for p in self.parts) + "]"

    def __bool__(self):
        raise Unsupported("native truth test of a symbolic string")

    def __hash__(self):
        return id(self)


STRLIKE = (str, Tmpl, Hole, Join, Fn)


def is_symstr(v):
    return isinstance(v, (Tmpl, Hole, Join, Fn))


def as_tmpl(v):
    if isinstance(v, Tmpl):
        return v
    if isinstance(v, (str, Hole, Join, Fn)):
        return Tmpl([v])
    raise Unsupported(f"not string-like: {type(v).__name__}")


def simplify(v):
    """Back to a plain str when no symbolic part is left."""
    t = as_tmpl(v)
    if not t.parts:
        return ""
    if len(t.parts) == 1 and isinstance(t.parts[0], str):
        return t.parts[0]
    return t


def tcat(*vs):
    return simplify(Tmpl([as_tmpl(v) for v in vs]))


def tjoin(sep, lst):
    if not has_seg(lst) and all(isinstance(x, str) for x in lst) and isinstance(sep, str):
        return sep.join(lst)
    for x in lst:
        if isinstance(x, Seg):
            for it in x.items:
                if not isinstance(it, STRLIKE):
                    raise Unsupported("join over non-string segment")
        elif not isinstance(x, STRLIKE):
            raise Unsupported(f"join over non-string element {type(x).__name__}")
    if not has_seg(lst):
        # concrete number of elements: expand
        parts = []
        for i, x in enumerate(lst):
            if i:
                parts.append(as_tmpl(sep))
            parts.append(as_tmpl(x))
        return simplify(Tmpl(parts))
    return Tmpl([Join(sep, lst)])


# -- queries ---------------------------------------------------------------------------


def _part_nonempty(p):
    """True / False / z3 term: is this part a non-empty string?"""
    if isinstance(p, str):
        return bool(p)
    if isinstance(p, Hole):
        return True if p.nonempty else p.fact("nonempty")
    if isinstance(p, Fn):
        if p.name in ("brace_double",):  # length-non-decreasing, empty iff base empty
            return tmpl_nonempty(p.base)
        return z3.Bool(f"fn:{p!r}.nonempty")
    if isinstance(p, Join):
        n = sym_len(p.items)
        # non-empty if it has >= 2 elements and a non-empty separator, or any element
        # that is non-empty.  Conservative, exact for lists of non-empty elements.
        elems_nonempty = True
        for x in p.items:
            its = x.items if isinstance(x, Seg) else [x]
            for it in its:
                ne = tmpl_nonempty(as_tmpl(it))
                if ne is not True:
                    elems_nonempty = False
        if elems_nonempty:
            if isinstance(n, int):
                return n > 0
            return zint(n) > 0
        raise Unsupported("emptiness of a join over possibly-empty strings")
    raise Unsupported("nonempty?")


def tmpl_nonempty(t):
    t = as_tmpl(t)
    terms = []
    for p in t.parts:
        r = _part_nonempty(p)
        if r is True:
            return True
        if r is False:
            continue
        terms.append(r)
    if not terms:
        return False
    return z3.Or(*terms) if len(terms) > 1 else terms[0]


def t_truth(t):
    r = tmpl_nonempty(t)
    if isinstance(r, bool):
        return r
    return mk_bool(r)


def _edge_part(t, last):
    t = as_tmpl(t)
    if not t.parts:
        raise IndexError("string index out of range")
    return t.parts[-1 if last else 0]


def t_edge_char_eq(t, ch, last=False):
    """t[0] == ch  /  t[-1] == ch  as bool or SBool."""
    t = as_tmpl(t)
    if not t.parts:
        raise IndexError("string index out of range")
    p = _edge_part(t, last)
    if isinstance(p, str):
        return (p[-1] if last else p[0]) == ch
    if isinstance(p, Hole) and p.nonempty:
        if p.kind == "ident" and not (ch.isidentifier() or ch.isdigit()):
            return False
        return mk_bool(p.fact(f"{'last' if last else 'first'}=={ch!r}"))
    # anything else: an unconstrained fact about the whole template's edge, named after
    # the template text so that it is stable across re-executions (sound: both outcomes
    # are explored)
    return mk_bool(z3.Bool(f"edge:{'last' if last else 'first'}=={ch!r}:{_short(t)}"))


def t_isdigit(t):
    t = as_tmpl(t)
    if len(t.parts) == 1 and isinstance(t.parts[0], Hole):
        h = t.parts[0]
        if h.kind == "ident":
            return False  # an identifier never consists of digits only
        return mk_bool(h.fact("isdigit"))
    if all(isinstance(p, str) for p in t.parts):
        return "".join(t.parts).isdigit()
    # a composite text: digits only if every part is; literal non-digit decides
    for p in t.parts:
        if isinstance(p, str) and not p.isdigit():
            return False
    return mk_bool(z3.Bool(f"isdigit:{_short(t)}"))


def t_contains(sub, t):
    t = as_tmpl(t)
    lits = [p for p in t.parts if isinstance(p, str)]
    if any(sub in p for p in lits):
        return True
    if all(isinstance(p, str) for p in t.parts):
        return False
    if len(t.parts) == 1 and isinstance(t.parts[0], Hole) and t.parts[0].kind == "ident" and sub:
        # an identifier has word characters only; a dotted name (props dotted=True) also "."
        h = t.parts[0]
        odd = [ch for ch in sub if not (ch.isalnum() or ch == "_")]
        if odd and not (h.props.get("dotted") and all(ch == "." for ch in odd) and ".." not in sub):
            return False
    return mk_bool(z3.Bool(f"contains:{sub!r}:{_short(t)}"))


def t_replace(t, a, b):
    t = as_tmpl(t)
    if all(isinstance(p, str) for p in t.parts):
        return "".join(t.parts).replace(a, b)
    return Tmpl([Fn("replace", t, (a, b))])
