"""olvc.sym -- symbolic leaves, path context and solver plumbing.

Only the *leaves* are symbolic; every operation on concrete operands is delegated to
CPython by the interpreter (olvc.interp).  Nothing in here knows about Oneliner-Py.
"""
from __future__ import annotations

import ast
import itertools
import time

import z3

# --------------------------------------------------------------------------------------
# control exceptions (BaseException: interpreted `except Exception` must not catch them)


class Unsupported(BaseException):
    """Construct or operation outside the verified subset: obligation is UNDECIDED."""


class PathAbort(BaseException):
    """Current path condition is unsatisfiable: path silently dropped."""


class Restart(BaseException):
    """A loop needs a different summarisation mode; re-run the exploration with hints."""

    def __init__(self, key, mode, info=None):
        super().__init__(key, mode)
        self.key, self.mode, self.info = key, mode, info


class SolverUnknown(BaseException):
    """A feasibility / validity query came back `unknown`: obligation is UNDECIDED."""


# --------------------------------------------------------------------------------------
# symbolic scalars


class SInt:
    """Mathematical integer (Python ints are unbounded, so this is exact)."""

    __slots__ = ("t",)

    def __init__(self, t):
        self.t = t if z3.is_expr(t) else z3.IntVal(t)

    def __repr__(self):
        return f"SInt({z3.simplify(self.t)})"

    # deliberately *no* __eq__/__bool__/__index__: natives must never consume these
    def __hash__(self):
        return id(self)


class SBool:
    __slots__ = ("t",)

    def __init__(self, t):
        self.t = t if z3.is_expr(t) else z3.BoolVal(bool(t))

    def __repr__(self):
        return f"SBool({z3.simplify(self.t)})"

    def __bool__(self):
        raise Unsupported("native truth test of a symbolic boolean")


def zint(v):
    """z3 term of an int-like value."""
    if isinstance(v, SInt):
        return v.t
    if isinstance(v, bool):
        raise Unsupported("bool used as symbolic int")
    if isinstance(v, int):
        return z3.IntVal(v)
    raise Unsupported(f"not an integer: {type(v).__name__}")


def mk_int(t):
    """SInt, folded back to a Python int when the term is a literal."""
    t = z3.simplify(t)
    if z3.is_int_value(t):
        return t.as_long()
    return SInt(t)


def mk_bool(t):
    t = z3.simplify(t)
    if z3.is_true(t):
        return True
    if z3.is_false(t):
        return False
    return SBool(t)


# --------------------------------------------------------------------------------------
# opaque objects


def _leaf_classes(cls):
    """Concrete (instantiable, field-bearing) AST leaf classes below `cls`."""
    out = []
    seen = set()
    todo = [cls]
    while todo:
        c = todo.pop()
        if c in seen:
            continue
        seen.add(c)
        subs = [s for s in c.__subclasses__() if s.__module__ in ("ast", "_ast")]
        # deprecated aliases (Num, Str, ...) are subclasses of Constant: skip them
        subs = [
            s
            for s in subs
            if s.__name__
            not in ("Num", "Str", "Bytes", "NameConstant", "Ellipsis", "Index", "ExtSlice",
                    "Suite", "AugLoad", "AugStore", "Param")
        ]
        if not subs or c is ast.Constant:
            out.append(c)
        else:
            todo.extend(subs)
    return frozenset(out)


class Opaque:
    """An uninterpreted object.  What is known about it: a set of candidate classes,
    declared fields, and boolean/other facts added by forking.  It can be moved and stored
    freely; inspecting it goes through the interpreter, which forks or raises Unsupported.
    """

    def __init__(self, tag, cls=None, fields=None, cands=None, factory=None, truthy=True, **props):
        self.tag = tag
        self.cls = cls
        if cands is not None:
            self.cands = frozenset(cands)
        elif cls is not None and isinstance(cls, type) and issubclass(cls, ast.AST):
            self.cands = _leaf_classes(cls)
        elif cls is not None:
            self.cands = frozenset([cls])
        else:
            self.cands = None  # unknown: may only be moved around
        self.fields = dict(fields or {})
        self.factory = factory  # callable(opaque, name) -> value | raises AttributeError
        self.truthy = truthy
        self.props = props

    def __repr__(self):
        c = self.cls.__name__ if isinstance(self.cls, type) else self.cls
        return f"<{tagstr(self.tag)}:{c}>"

    def __bool__(self):
        raise Unsupported(f"native truth test of opaque {self!r}")

    def __iter__(self):
        raise Unsupported(f"native iteration over opaque {self!r}")

    def __len__(self):
        raise Unsupported(f"native len of opaque {self!r}")

    def __eq__(self, other):
        if isinstance(other, Opaque):
            return self.tag == other.tag
        return NotImplemented

    def __hash__(self):
        return hash(("Opaque", self.tag))


def tagstr(tag):
    if isinstance(tag, tuple):
        return "(" + " ".join(tagstr(t) for t in tag) + ")"
    if z3.is_expr(tag):
        return str(z3.simplify(tag))
    return str(tag)


# --------------------------------------------------------------------------------------
# segments: a run of list elements of symbolic length


class Seg:
    """`length` generic rounds, round j contributing `items` (values that may mention the
    bound z3 integer `jvar`).  A Seg sits *inside an ordinary Python list* as a marker
    element; the interpreter intercepts every operation that would look at it.
    `rev`: round order is descending j (from reversed())."""

    def __init__(self, tag, length, jvar, items, rev=False, cls_note=None):
        self.tag = tag
        self.length = length  # int | SInt
        self.jvar = jvar  # z3 Int const
        self.items = list(items)
        self.rev = rev
        self.cls_note = cls_note

    def __repr__(self):
        r = "~" if self.rev else ""
        return f"Seg{r}<{tagstr(self.tag)} x{self.length!r} {self.items!r}>"

    def __bool__(self):
        raise Unsupported("native truth test of a segment marker")

    def count(self):
        """number of list elements this marker stands for"""
        return mk_int(zint(self.length) * len(self.items))


def has_seg(lst):
    return any(isinstance(x, Seg) for x in lst)


def sym_len(lst):
    if not has_seg(lst):
        return len(lst)
    t = z3.IntVal(0)
    for x in lst:
        if isinstance(x, Seg):
            t = t + zint(x.length) * len(x.items)
        else:
            t = t + 1
    return mk_int(t)


class SymSet(list):
    """a set whose elements may be symbolic (kept as a list that may contain segment
    markers); order is never observable: iteration is flagged as unordered"""


class Fold:
    """Value of a loop-carried variable after a summarised loop:
    F(0) = init;  F(k+1) = step[acc := F(k), j := k]  (k runs over the segment rounds,
    descending when seg.rev).  `step` is a real tree that contains the opaque `acc`."""

    def __init__(self, tag, seg_len, jvar, init, acc, step, rev=False):
        self.tag, self.length, self.jvar = tag, seg_len, jvar
        self.init, self.acc, self.step, self.rev = init, acc, step, rev

    def __repr__(self):
        return f"Fold<{tagstr(self.tag)} x{self.length!r} init={self.init!r} step={self.step!r}>"


class Poison:
    """Value of a variable whose content is not tracked (e.g. loop target after a
    summarised loop).  Any use is Unsupported."""

    def __init__(self, why):
        self.why = why

    def __repr__(self):
        return f"<poison {self.why}>"


# --------------------------------------------------------------------------------------
# path context

_QUERY_TIMEOUT_MS = 20000
MAX_DECISIONS = 160


class Stats:
    def __init__(self):
        self.queries = 0
        self.solver_s = 0.0
        self.unknown = 0


STATS = Stats()


def z3_check(assertions, timeout_ms=_QUERY_TIMEOUT_MS):
    """sat / unsat / unknown on a list of z3 assertions; fresh solver each time (queries are
    tiny), retried on a second tactic before giving up."""
    t0 = time.time()
    s = z3.Solver()
    s.set("timeout", timeout_ms)
    s.add(*assertions)
    r = s.check()
    model = None
    if r == z3.unknown:
        s2 = z3.SolverFor("ALL")
        s2.set("timeout", timeout_ms)
        s2.add(*assertions)
        r = s2.check()
        s = s2
    if r == z3.sat:
        model = s.model()
    STATS.queries += 1
    STATS.solver_s += time.time() - t0
    if r == z3.unknown:
        STATS.unknown += 1
    return r, model


class Ctx:
    """State of one path of one symbolic run."""

    def __init__(self, decisions=(), hints=None):
        self.pc = []  # z3 BoolRefs
        self.decisions = list(decisions)
        self.taken = []
        self.pending = []  # alternative decision prefixes found on this path
        self.trace = []  # event log (engine + harness)
        self.hints = hints if hints is not None else {}
        self.generic = []  # stack of (Seg, jvar) while executing a generic round
        self.effects = None  # list while a generic round records heap effects
        self.allocs = None  # ids allocated during a generic round
        self.counter = itertools.count()
        self.notes = []
        self.writes = []  # (kind, obj, key) heap writes performed by interpreted code
        self.fresh_objs = set()  # ids of objects allocated by interpreted code
        self.keep = []  # keeps ids alive
        self.facts = []  # human-readable decisions taken on this path (stable signature)

    # -- assumptions ---------------------------------------------------------------
    def assume(self, cond):
        if isinstance(cond, SBool):
            cond = cond.t
        if cond is True:
            return
        if cond is False:
            raise PathAbort()
        self.pc.append(cond)

    def feasible(self, extra=()):
        r, _ = z3_check(self.pc + list(extra))
        if r == z3.unknown:
            raise SolverUnknown("feasibility")
        return r == z3.sat

    # -- forks ------------------------------------------------------------------------
    def branch(self, cond, label=""):
        """Decide a symbolic condition.  Follows the decision prefix; beyond it, explores
        `True` first and registers `False` as a pending alternative when both are feasible."""
        if isinstance(cond, SBool):
            cond = cond.t
        cond = z3.simplify(cond)
        if z3.is_true(cond):
            return True
        if z3.is_false(cond):
            return False
        idx = len(self.taken)
        if idx > MAX_DECISIONS:
            raise Unsupported(f"more than {MAX_DECISIONS} symbolic decisions on one path (unbounded symbolic loop?)")
        if idx < len(self.decisions):
            choice = self.decisions[idx]
        else:
            can_t = self.feasible([cond])
            can_f = self.feasible([z3.Not(cond)])
            if can_t and can_f:
                choice = True
                self.pending.append(self.taken + [False])
            elif can_t:
                choice = True
            elif can_f:
                choice = False
            else:
                raise PathAbort()
        self.taken.append(choice)
        lit = cond if choice else z3.Not(cond)
        self.pc.append(lit)
        self.facts.append(str(z3.simplify(lit)).replace("\n", " "))
        return choice

    def choose(self, n, label=""):
        """n-way fork with no condition attached (caller adds what it implies)."""
        if n <= 0:
            raise PathAbort()
        if n == 1:
            return 0
        idx = len(self.taken)
        if idx < len(self.decisions):
            choice = self.decisions[idx]
        else:
            choice = 0
            for k in range(1, n):
                self.pending.append(self.taken + [k])
        self.taken.append(choice)
        if label:
            self.facts.append(f"{label}#{choice}")
        return choice

    def signature(self):
        seen = []
        for f in self.facts:
            f = " ".join(f.split())
            if f not in seen:
                seen.append(f)
        return " & ".join(sorted(seen)) or "-"

    # -- validity -----------------------------------------------------------------------
    def valid(self, cond):
        """(True, None) if pc |= cond; (False, model) if a counter-model exists."""
        if isinstance(cond, SBool):
            cond = cond.t
        if cond is True:
            return True, None
        if cond is False:
            cond = z3.BoolVal(False)
        r, m = z3_check(self.pc + [z3.Not(cond)])
        if r == z3.unsat:
            return True, None
        if r == z3.sat:
            return False, m
        raise SolverUnknown("validity")

    def fresh(self, prefix):
        return f"{prefix}#{next(self.counter)}"

    def log(self, *ev):
        self.trace.append(ev)


CTX: Ctx | None = None


def ctx() -> Ctx:
    assert CTX is not None, "no active symbolic run"
    return CTX


def set_ctx(c):
    global CTX
    CTX = c


def int_const(name):
    return z3.Int(name)


def bool_const(name):
    return z3.Bool(name)
