"""olvc.machine -- the evaluator: expressions, statements, calls, natives."""
from __future__ import annotations

import ast
import builtins
import itertools
import types

import z3

from . import extract, ops
from .interp import (
    BUILTIN_NAMES, SYMBOLIC, BoundI, ChainObj, EnumObj, Frame, HFn, IFunc, IGen, IRaise, IStop,
    ISuper, RevObj, SymMethod, ZipObj, contains_symbolic, ifunc_of, stub_key,
)
from .sym import (
    Fold, Opaque, Poison, Restart, SBool, Seg, SInt, SymSet, Unsupported, ctx, has_seg, mk_bool, mk_int,
    sym_len, tagstr, zint,
)
from .tmpl import STRLIKE, Fn, Hole, Join, Tmpl, is_symstr, tcat

class EmittedCall(tuple):
    """(function, result, ctx) of one harness-level call + the names ol_name() created in it"""

    def __new__(cls, t, own_names):
        o = super().__new__(cls, t)
        o.own_names = own_names
        return o


EMITTED = None  # set to a list to record (function, result, path) of every harness-level call

NORMAL = None
BREAK = ("break",)
CONTINUE = ("continue",)

_MISSING = object()


class Interp:
    def __init__(self, stubs=None, interpret_all=True, native_stubs=None):
        # stubs: 'module:qualname' -> python callable(interp, *args, **kwargs) -> value
        self.stubs = dict(stubs or {})
        # native_stubs: native callable -> handler(interp, args, kwargs): assumed contracts of
        # dependencies (ast.parse, symtable.symtable, open, ...), listed in the evidence
        self.native_stubs = dict(native_stubs or {})
        self.call_depth = 0
        self.calls_interpreted = 0
        self.stub_calls = []

    # ==================================================================================
    # running
    def run(self, gen):
        """drive an evaluator generator that must not yield (non-generator call)"""
        try:
            y = next(gen)
        except StopIteration as e:
            return e.value
        raise Unsupported(f"unexpected yield outside a generator: {y!r}")

    def call_value(self, fn, *args, **kwargs):
        """Call from harness code; returns value, or an IGen for generator functions."""
        from . import sym as _sym
        c = _sym.CTX  # None when called outside a symbolic run (plain concrete call)
        lo = len(getattr(c, "ol_created", ()))
        # a contract holds for every call: a boolean parameter the harness does not supply
        # (e.g. one added after the contract was written) takes BOTH values, not its default
        self._top_call = c is not None
        r = self.run(self.call(fn, list(args), dict(kwargs)))
        if EMITTED is not None and c is not None:
            # names created by ol_name() during this very call (for the temporaries clause of C09)
            own = list(getattr(c, "ol_created", ())[lo:])
            EMITTED.append(EmittedCall((getattr(fn, "__qualname__", repr(fn)), r, c), own))
        return r

    def native(self, f, *a, **k):
        """perform a native operation on behalf of the interpreted program"""
        try:
            return f(*a, **k)
        except StopIteration as e:
            raise IRaise(IStop(e.value)) from None
        except Exception as e:  # noqa: BLE001
            raise IRaise(e) from None

    # ==================================================================================
    # calls
    def call(self, fn, args, kwargs):
        if isinstance(fn, HFn):
            return fn.f(*args, **kwargs)
        if isinstance(fn, BoundI):
            return (yield from self.call(fn.fn, [fn.self_obj] + list(args), kwargs))
        if isinstance(fn, SymMethod):
            return (yield from self.call_symmethod(fn, args, kwargs))
        if isinstance(fn, IFunc):
            return (yield from self.call_ifunc(fn, args, kwargs))
        if isinstance(fn, types.MethodType):
            f = fn.__func__
            if isinstance(f, types.FunctionType) and extract.is_repo_code(f.__code__):
                return (yield from self.call(f, [fn.__self__] + list(args), kwargs))
            return self.call_native(fn, args, kwargs)
        if isinstance(fn, types.FunctionType) and extract.is_repo_code(fn.__code__):
            key = stub_key(fn)
            if key in self.stubs:
                self.stub_calls.append(key)
                return self.call_stub(key, args, kwargs)
            return (yield from self.call_ifunc(ifunc_of(fn), args, kwargs))
        if isinstance(fn, type):
            key = stub_key(fn)
            if key in self.stubs:
                self.stub_calls.append(key)
                return self.call_stub(key, args, kwargs)
            if self.is_repo_class(fn):
                return (yield from self.instantiate(fn, args, kwargs))
            return self.call_native(fn, args, kwargs)
        if isinstance(fn, Opaque):
            f = fn.props.get("call")
            if f is None:
                raise Unsupported(f"call of opaque {fn!r}")
            return f(fn, *args, **kwargs)
        return self.call_native(fn, args, kwargs)

    @staticmethod
    def is_repo_class(cls):
        mod = getattr(cls, "__module__", "") or ""
        return mod == "oneliner" or mod.startswith("oneliner.")

    def instantiate(self, cls, args, kwargs):
        obj = self.native(object.__new__, cls)
        c = ctx()
        c.fresh_objs.add(id(obj))
        c.keep.append(obj)
        if c.allocs is not None:
            c.allocs.add(id(obj))
        init = None
        for k in cls.__mro__:
            if "__init__" in k.__dict__:
                init = k.__dict__["__init__"]
                break
        if init is not None and init is not object.__init__:
            r = yield from self.call(init, [obj] + list(args), kwargs)
        elif args or kwargs:
            raise IRaise(TypeError(f"{cls.__name__}() takes no arguments"))
        return obj

    def call_stub(self, key, args, kwargs):
        """a callee contract stands for the callee only for the call shapes it was written
        for: any other shape (e.g. a new parameter) is outside the contract -> undecided"""
        import inspect
        f = self.stubs[key]
        try:
            sig = inspect.signature(f)
        except ValueError:
            return f(self, *args, **kwargs)
        try:
            sig.bind(self, *args, **kwargs)
        except TypeError as e:
            # boolean arguments the contract does not know are dropped: the callee is verified
            # for BOTH values of every boolean parameter (see call_value), so its contract holds
            # whatever they are.  Anything else is outside the contract.
            params = sig.parameters
            kw2 = {k: v for k, v in kwargs.items() if k in params or not (v is True or v is False)}
            a2 = list(args)
            npos = sum(1 for q in params.values() if q.kind in (q.POSITIONAL_ONLY, q.POSITIONAL_OR_KEYWORD)) - 1
            while len(a2) > npos and (a2[-1] is True or a2[-1] is False) and not any(q.kind == q.VAR_POSITIONAL for q in params.values()):
                a2.pop()
            try:
                sig.bind(self, *a2, **kw2)
            except TypeError:
                raise Unsupported(f"call of {key} does not fit the signature its contract was written for ({e})")
            ctx().log("stub-extra-boolean-arguments-dropped", key)
            return f(self, *a2, **kw2)
        return f(self, *args, **kwargs)

    def bind_args(self, fn: IFunc, args, kwargs):
        top, self._top_call = getattr(self, "_top_call", False), False

        def dflt(p, v):
            if top and (v is True or v is False):
                import z3
                return bool(ctx().branch(z3.Bool(f"arg:{fn.qualname}.{p}")))
            return v
        a = fn.node.args
        params = [x.arg for x in a.posonlyargs + a.args]
        loc = {}
        args = list(args)
        if has_seg(args):
            raise Unsupported("call with a segment in the argument list")
        npos = len(params)
        for i, v in enumerate(args[:npos]):
            loc[params[i]] = v
        if len(args) > npos:
            if a.vararg is None:
                raise IRaise(TypeError(f"{fn.name}() takes {npos} positional arguments but {len(args)} were given"))
            loc[a.vararg.arg] = tuple(args[npos:])
        elif a.vararg is not None:
            loc[a.vararg.arg] = ()
        kwargs = dict(kwargs)
        nposonly = len(a.posonlyargs)
        for i, p in enumerate(params):
            if p in kwargs and i >= nposonly:
                if p in loc:
                    raise IRaise(TypeError(f"{fn.name}() got multiple values for argument {p!r}"))
                loc[p] = kwargs.pop(p)
        # defaults
        d = fn.defaults
        for i, p in enumerate(params):
            if p not in loc:
                di = i - (len(params) - len(d))
                if di < 0:
                    raise IRaise(TypeError(f"{fn.name}() missing required positional argument {p!r}"))
                loc[p] = dflt(p, d[di])
        for x in a.kwonlyargs:
            if x.arg in kwargs:
                loc[x.arg] = kwargs.pop(x.arg)
            elif x.arg in fn.kw_defaults:
                loc[x.arg] = dflt(x.arg, fn.kw_defaults[x.arg])
            else:
                raise IRaise(TypeError(f"{fn.name}() missing keyword-only argument {x.arg!r}"))
        if a.kwarg is not None:
            loc[a.kwarg.arg] = kwargs
        elif kwargs:
            raise IRaise(TypeError(f"{fn.name}() got an unexpected keyword argument {next(iter(kwargs))!r}"))
        return loc

    def call_ifunc(self, fn: IFunc, args, kwargs):
        loc = self.bind_args(fn, args, kwargs)
        self_obj = args[0] if args else None
        fr = Frame(fn, loc, fn.globals, fn.enclosing, cls=fn.cls, self_obj=self_obj, name=fn.qualname)
        self.calls_interpreted += 1
        if fn.is_generator:
            return IGen(self.exec_function(fn, fr), fn.qualname)
        if self.call_depth > 150:
            raise Unsupported("interpreter call depth")
        self.call_depth += 1
        try:
            r = yield from self.exec_function(fn, fr)
        finally:
            self.call_depth -= 1
        return r

    def exec_function(self, fn: IFunc, fr: Frame):
        if isinstance(fn.node, ast.Lambda):
            return (yield from self.eval(fn.node.body, fr))
        sig = yield from self.exec_block(fn.node.body, fr)
        if sig is not None and sig[0] == "return":
            return sig[1]
        return None

    # ---------------------------------------------------------------------------------
    def call_symmethod(self, m: SymMethod, args, kwargs):
        obj, name = m.obj, m.name
        if isinstance(obj, list):
            return self.list_method(obj, name, args, kwargs)
        if isinstance(obj, STRLIKE):
            if name == "join" and len(args) == 1 and isinstance(args[0], IGen):
                args = [self.drain(args[0])]
            return ops.str_method(obj, name, args, kwargs)
        if isinstance(obj, IGen):
            if name == "send":
                return obj.send(args[0])
            if name == "__next__":
                return obj.send(None)
            raise Unsupported(f"generator method {name}")
        if isinstance(obj, Opaque):
            f = obj.props.get("methods", {}).get(name)
            if f is None:
                raise Unsupported(f"method {name} of opaque {obj!r}")
            return f(obj, *args, **kwargs)
        raise Unsupported(f"symbolic method {name} on {type(obj).__name__}")
        yield  # pragma: no cover

    def drain(self, g: IGen):
        out = []
        while True:
            try:
                out.append(g.send(None))
            except IRaise as e:
                if isinstance(e.exc, IStop):
                    return out
                raise

    # ---------------------------------------------------------------------------------
    # lists: every mutation goes through here so that effects are logged
    def list_method(self, lst, name, args, kwargs):
        c = ctx()
        if isinstance(lst, SymSet):
            if name == "add":
                name = "append"
            elif name == "update":
                name = "extend"
            elif name == "copy":
                return SymSet(lst)
        if kwargs:
            raise Unsupported("list method keyword arguments")
        fresh = id(lst) in c.fresh_objs

        def eff(*e):
            c.writes.append(("list", lst, name))
            if c.effects is not None:
                c.effects.append(e)

        if name == "append":
            (x,) = args
            if isinstance(x, Seg):
                raise Unsupported("append of a segment marker")
            lst.append(x)
            eff("append", lst, [x])
            return None
        if name == "extend":
            (xs,) = args
            if isinstance(xs, IGen):
                xs = self.drain(xs)
            if isinstance(xs, Opaque):
                f = xs.props.get("as_list")
                if f is None:
                    raise Unsupported(f"extend with opaque {xs!r}")
                xs = f(xs)
            if not isinstance(xs, (list, tuple)):
                if contains_symbolic(xs, 1):
                    raise Unsupported("extend with symbolic iterable")
                xs = list(xs)
            xs = list(xs)
            lst.extend(xs)
            eff("append", lst, xs)
            return None
        if name == "insert":
            i, x = args
            if isinstance(i, SInt):
                # allowed when the position provably is a boundary between list items
                off = z3.IntVal(0)
                pos = None
                for k in range(len(lst) + 1):
                    ok, _ = c.valid(zint(i) == off)
                    if ok:
                        pos = k
                        break
                    if k < len(lst):
                        e = lst[k]
                        off = off + (zint(e.length) * len(e.items) if isinstance(e, Seg) else 1)
                if pos is None:
                    raise Unsupported("insert at a symbolic index that is not a segment boundary")
                lst.insert(pos, x)
                eff("insert", lst, pos, x)
                return None
            if has_seg(lst) and i != 0:
                # position must fall into the concrete prefix
                if any(isinstance(e, Seg) for e in lst[:i]) or i < 0:
                    raise Unsupported("insert behind a segment")
            lst.insert(i, x)
            eff("insert", lst, i, x)
            return None
        if name == "pop":
            if args:
                (i,) = args
                if i != -1 and i != len(lst) - 1:
                    if has_seg(lst):
                        raise Unsupported("pop(i) on list with segments")
                    eff("pop", lst, i)
                    return self.native(lst.pop, i)
            if not lst:
                raise IRaise(IndexError("pop from empty list"))
            if isinstance(lst[-1], Seg):
                ops.split_tail(lst)
                if not lst:
                    raise IRaise(IndexError("pop from empty list"))
            eff("pop", lst, -1)
            return lst.pop()
        if name in ("copy",):
            return list(lst)
        if name in ("index", "count", "remove", "sort", "reverse", "clear"):
            if has_seg(lst) or contains_symbolic(args, 1):
                raise Unsupported(f"list.{name} on symbolic list")
            if name in ("remove", "sort", "reverse", "clear"):
                eff(name, lst)
            return self.native(getattr(lst, name), *args)
        raise Unsupported(f"list method {name}")

    # ---------------------------------------------------------------------------------
    # natives
    def call_native(self, fn, args, kwargs):
        if _hashable(fn) and fn in self.native_stubs:
            return self.native_stubs[fn](self, args, kwargs)
        f0 = getattr(fn, "__func__", None)
        if f0 is not None and _hashable(f0) and f0 in self.native_stubs:
            return self.native_stubs[f0](self, [fn.__self__] + list(args), kwargs)
        b = BUILTIN_HANDLERS.get(fn) if _hashable(fn) else None
        if b is not None:
            return b(self, args, kwargs)
        self_obj = getattr(fn, "__self__", None)
        if isinstance(self_obj, list) and isinstance(fn, types.BuiltinMethodType):
            return self.list_method(self_obj, fn.__name__, args, kwargs)
        if isinstance(self_obj, (dict, set)) and isinstance(fn, types.BuiltinMethodType):
            return self.container_method(self_obj, fn.__name__, args, kwargs)
        if isinstance(fn, type) and issubclass(fn, ast.AST):
            # AST constructors only store their fields: parametric in the children
            if any(isinstance(a, Seg) for a in args):
                raise Unsupported("segment passed positionally to AST constructor")
            node = self.native(fn, *args, **kwargs)
            c = ctx()
            c.fresh_objs.add(id(node))
            c.keep.append(node)
            if c.allocs is not None:
                c.allocs.add(id(node))
            return node
        if isinstance(fn, type) and issubclass(fn, BaseException):
            return self.native(fn, *[self.concretise_msg(a) for a in args], **kwargs)
        if contains_symbolic(args, 2) or contains_symbolic(kwargs, 2):
            raise Unsupported(f"native {getattr(fn, '__qualname__', fn)!r} with symbolic arguments")
        return self.native(fn, *args, **kwargs)

    def concretise_msg(self, a):
        """exception messages may contain symbolic pieces; their text is irrelevant"""
        if isinstance(a, SYMBOLIC):
            return f"<{a!r}>"
        return a

    def container_method(self, obj, name, args, kwargs):
        c = ctx()
        mutating = name in ("add", "update", "discard", "remove", "pop", "clear", "setdefault",
                            "popitem", "__setitem__", "__delitem__")
        if mutating:
            c.writes.append((type(obj).__name__, obj, name))
            if c.effects is not None:
                c.effects.append(("container", obj, name, args))
        for a in args:
            if isinstance(a, (SInt, SBool, Seg, Fold, Poison)):
                raise Unsupported(f"{type(obj).__name__}.{name} with symbolic argument")
            if isinstance(a, list) and has_seg(a):
                raise Unsupported(f"{type(obj).__name__}.{name} with segment list")
        if isinstance(obj, set) and name in ("add", "discard", "remove") and is_symstr(args[0]):
            # symbolic element: keep it as an object; membership handled in ops.contains
            raise Unsupported("set mutation with symbolic string")
        if isinstance(obj, dict) and name == "get":
            k = args[0]
            if isinstance(k, (Opaque, ops.SType)) or is_symstr(k):
                return self.dict_lookup(obj, k, args[1] if len(args) > 1 else None, use_default=True)
        return self.native(getattr(obj, name), *args, **kwargs)

    def dict_lookup(self, d, k, default=None, use_default=False):
        if isinstance(k, ops.SType):
            k = ops.opaque_type(k.op)
        if isinstance(k, Opaque) or is_symstr(k):
            keys = list(d.keys())
            if is_symstr(k) and all(isinstance(x, str) for x in keys):
                for key in sorted(keys):
                    e = ops.str_eq(k, key)
                    if e is True or (e is not False and ctx().branch(e.t)):
                        return d[key]
                if use_default:
                    return default
                raise IRaise(KeyError(repr(k)))
            raise Unsupported("dict lookup with opaque key")
        try:
            return d[k]
        except KeyError as e:
            if use_default:
                return default
            raise IRaise(e) from None
        except TypeError as e:
            raise IRaise(e) from None

    # ==================================================================================
    # names
    def load_name(self, name, fr: Frame):
        log = getattr(fr, "access_log", None)
        if log is not None and name not in log and (name in fr.locals or (fr.local_names is not None and name in fr.local_names)):
            log[name] = "r"
        if name in fr.locals:
            return fr.locals[name]
        if fr.local_names is not None and name in fr.local_names and not getattr(fr, "is_comp", False):
            raise IRaise(UnboundLocalError(name))
        for d in fr.enclosing:
            if name in d:
                return d[name]
        if name in fr.globals:
            return fr.globals[name]
        if name in BUILTIN_NAMES:
            return BUILTIN_NAMES[name]
        raise IRaise(NameError(name))

    def store_name(self, name, v, fr: Frame):
        if name in fr.global_names:
            fr.globals[name] = v
            ctx().writes.append(("global", fr.globals, name))
            return
        if name in fr.nonlocal_names:
            for d in fr.enclosing:
                if name in d:
                    d[name] = v
                    return
            raise IRaise(NameError(name))
        if getattr(fr, "is_comp", False) and name not in fr.local_names:
            # walrus inside a comprehension binds in the enclosing function
            fr.parent.locals[name] = v
            return
        log = getattr(fr, "access_log", None)
        if log is not None and name not in log:
            log[name] = "w"
        fr.locals[name] = v

    # ==================================================================================
    # attribute access
    def getattr(self, obj, name):
        ops.check_usable(obj)
        if isinstance(obj, Opaque):
            if name in obj.props.get("methods", {}) and name not in obj.fields:
                return SymMethod(obj, name)
            try:
                return ops.opaque_getattr(obj, name)
            except AttributeError as e:
                raise IRaise(e) from None
        if isinstance(obj, SymSet):
            if name in ("add", "update", "copy"):
                return SymMethod(obj, name)
            raise Unsupported(f"method {name} of a symbolic set")
        if isinstance(obj, list):
            if name in ("append", "extend", "insert", "pop", "copy", "index", "count", "remove",
                        "sort", "reverse", "clear"):
                return SymMethod(obj, name)
            return self.native(getattr, obj, name)
        if isinstance(obj, STRLIKE) and (is_symstr(obj) or name in ("join", "format")):
            return SymMethod(obj, name)
        if isinstance(obj, IGen):
            if name in ("send", "__next__"):
                return SymMethod(obj, name)
            raise Unsupported(f"generator attribute {name}")
        if isinstance(obj, ISuper):
            mro = type(obj.obj).__mro__
            i = mro.index(obj.cls)
            for k in mro[i + 1:]:
                if name in k.__dict__:
                    v = k.__dict__[name]
                    if isinstance(v, types.FunctionType):
                        return BoundI(v, obj.obj)
                    return self.native(getattr, super(obj.cls, obj.obj), name)
            raise IRaise(AttributeError(name))
        if isinstance(obj, (SInt, SBool, Fold, Seg)):
            raise Unsupported(f"attribute {name} of {type(obj).__name__}")
        if isinstance(obj, ops.SType):
            if name == "__name__":
                return Hole(("typename", obj.op.tag), "ident")
            raise Unsupported("attribute of symbolic type")
        if isinstance(obj, IFunc):
            raise Unsupported("attribute of interpreted function")
        # repo data descriptors are interpreted, not run natively
        if not isinstance(obj, type):
            for k in type(obj).__mro__:
                if name in k.__dict__:
                    d = k.__dict__[name]
                    if self.is_repo_class(type(d)) and hasattr(type(d), "__get__"):
                        g = type(d).__dict__.get("__get__") or getattr(type(d), "__get__")
                        return self.run(self.call(g, [d, obj, type(obj)], {}))
                    break
        v = self.native(getattr, obj, name)
        return v

    def setattr(self, obj, name, v):
        ops.check_usable(obj)
        c = ctx()
        if isinstance(obj, Opaque):
            f = obj.props.get("setattr")
            if f is None:
                raise Unsupported(f"attribute store on opaque {obj!r}")
            old = obj.fields.get(name, _MISSING)
            f(obj, name, v)
            c.writes.append(("attr", obj, name))
            if c.effects is not None:
                c.effects.append(("setattr", obj, name, old, v))
            return
        if isinstance(obj, SYMBOLIC):
            raise Unsupported("attribute store on symbolic value")
        if not isinstance(obj, type):
            for k in type(obj).__mro__:
                if name in k.__dict__:
                    d = k.__dict__[name]
                    if self.is_repo_class(type(d)) and "__set__" in type(d).__dict__:
                        self.run(self.call(type(d).__dict__["__set__"], [d, obj, v], {}))
                        return
                    break
        old = getattr(obj, "__dict__", {}).get(name, _MISSING) if not isinstance(obj, type) else vars(obj).get(name, _MISSING)
        self.native(setattr, obj, name, v)
        c.writes.append(("attr", obj, name))
        if c.effects is not None:
            c.effects.append(("setattr", obj, name, old, v))

    # ==================================================================================
    # subscripts
    def getitem(self, obj, idx):
        ops.check_usable(obj, idx)
        if isinstance(obj, list):
            try:
                return ops.list_getitem(obj, idx)
            except IndexError as e:
                raise IRaise(e) from None
        if isinstance(obj, dict):
            return self.dict_lookup(obj, idx)
        if isinstance(obj, STRLIKE) and is_symstr(obj):
            if idx == 0:
                return _EdgeChar(obj, False)
            if idx == -1:
                return _EdgeChar(obj, True)
            raise Unsupported("indexing a symbolic string")
        if isinstance(obj, Opaque):
            f = obj.props.get("getitem")
            if f is None:
                raise Unsupported(f"subscript of opaque {obj!r}")
            return f(obj, idx)
        if isinstance(obj, tuple) and isinstance(idx, int):
            try:
                return obj[idx]
            except IndexError as e:
                raise IRaise(e) from None
        if contains_symbolic(idx, 1):
            raise Unsupported("symbolic subscript")
        if isinstance(obj, SYMBOLIC):
            raise Unsupported(f"subscript of {type(obj).__name__}")
        return self.native(lambda: obj[idx])

    def setitem(self, obj, idx, v):
        ops.check_usable(obj, idx)
        c = ctx()
        if isinstance(obj, list):
            if isinstance(idx, slice) and idx.step is None and isinstance(v, list):
                # lst[:0] = items (prepend) / lst[len(lst):] = items (extend): by the list methods
                if idx.stop == 0 and idx.start in (None, 0):
                    for k_, x_ in enumerate(v):
                        self.list_method(obj, "insert", [k_, x_], {})
                    return
                if idx.stop is None and idx.start is not None and not isinstance(idx.start, slice):
                    n_ = ops.sym_len(obj) if has_seg(obj) else len(obj)
                    same = (idx.start == n_) if isinstance(n_, int) and isinstance(idx.start, int) else c.valid(zint(idx.start) == zint(n_))[0]
                    if same:
                        self.list_method(obj, "extend", [v], {})
                        return
            if has_seg(obj) or isinstance(idx, SInt):
                raise Unsupported("item store into a list with segments / at symbolic index")
            old = obj[idx] if isinstance(idx, int) and -len(obj) <= idx < len(obj) else _MISSING
            self.native(obj.__setitem__, idx, v)
            c.writes.append(("item", obj, idx))
            if c.effects is not None:
                c.effects.append(("setitem", obj, idx, old, v))
            return
        if isinstance(obj, dict):
            if isinstance(idx, (SInt, SBool, Opaque)) or is_symstr(idx):
                f = None
                raise Unsupported("dict store with symbolic key")
            old = obj.get(idx, _MISSING)
            obj[idx] = v
            c.writes.append(("item", obj, idx))
            if c.effects is not None:
                c.effects.append(("setitem", obj, idx, old, v))
            return
        if isinstance(obj, Opaque):
            f = obj.props.get("setitem")
            if f is None:
                raise Unsupported(f"item store on opaque {obj!r}")
            f(obj, idx, v)
            c.writes.append(("item", obj, idx))
            if c.effects is not None:
                c.effects.append(("setitem", obj, idx, _MISSING, v))
            return
        if isinstance(obj, SYMBOLIC):
            raise Unsupported("item store on symbolic value")
        self.native(lambda: obj.__setitem__(idx, v))
        c.writes.append(("item", obj, idx))


class _EdgeChar:
    """s[0] / s[-1] of a symbolic string; only comparable with a literal character"""

    def __init__(self, s, last):
        self.s, self.last = s, last


def _hashable(x):
    try:
        hash(x)
        return True
    except TypeError:
        return False


# ======================================================================================
# builtin handlers: (interp, args, kwargs) -> value


def _b_isinstance(it, args, kw):
    obj, classes = args
    if isinstance(obj, Opaque):
        return ops.opaque_isinstance(obj, classes)
    if isinstance(obj, (Tmpl, Hole, Join, Fn)):
        return _cls_match(str, classes)
    if isinstance(obj, SInt):
        return _cls_match(int, classes)
    if isinstance(obj, SBool):
        return _cls_match(bool, classes)
    if isinstance(obj, Poison):
        raise Unsupported(f"use of untracked value: {obj.why}")
    if isinstance(obj, (Seg, Fold)):
        if isinstance(obj, Fold):
            raise Unsupported("isinstance of a fold value")
        raise Unsupported("isinstance of a segment marker")
    if isinstance(obj, (IFunc, IGen)):
        return False
    return isinstance(obj, classes)


def _cls_match(c, classes):
    if not isinstance(classes, tuple):
        classes = (classes,)
    return any(issubclass(c, k) for k in classes if isinstance(k, type))


def _b_len(it, args, kw):
    (x,) = args
    if isinstance(x, list):
        return sym_len(x)
    if isinstance(x, tuple) and has_seg(x):
        return sym_len(list(x))
    if isinstance(x, Opaque):
        f = x.props.get("len")
        if f is None:
            raise Unsupported(f"len of opaque {x!r}")
        return f(x)
    if isinstance(x, SYMBOLIC):
        raise Unsupported(f"len of {type(x).__name__}")
    return it.native(len, x)


def _b_enumerate(it, args, kw):
    x = args[0]
    start = args[1] if len(args) > 1 else kw.get("start", 0)
    if isinstance(x, list):
        return EnumObj(x, start)
    if contains_symbolic(x, 1):
        raise Unsupported("enumerate of symbolic iterable")
    return list(enumerate(x, start))


def _b_range(it, args, kw):
    if any(isinstance(a, SInt) for a in args):
        c = ctx()
        if len(args) == 1:
            start, stop, step = z3.IntVal(0), zint(args[0]), 1
        else:
            start, stop = zint(args[0]), zint(args[1])
            step = args[2] if len(args) == 3 else 1
            if isinstance(step, SInt) or step not in (1, -1):
                raise Unsupported("range with a step other than 1 / -1 and symbolic bounds")
        n = z3.simplify(stop - start if step == 1 else start - stop)
        ok, _ = c.valid(n >= 0)
        if not ok:
            if not c.branch(n > 0):
                return []
        if z3.is_int_value(n):
            return [SInt(z3.simplify(start + k * step)) if not z3.is_int_value(z3.simplify(start + k * step)) else z3.simplify(start + k * step).as_long()
                    for k in range(n.as_long())]
        j = z3.Int(f"jrange({z3.simplify(start)},{z3.simplify(stop)},{step})")
        return [Seg(("range", str(z3.simplify(start)), str(z3.simplify(stop)), step), SInt(n), j, [mk_int(z3.simplify(start + j * step))])]
    return it.native(range, *args)


def _b_reversed(it, args, kw):
    (x,) = args
    if isinstance(x, list):
        if has_seg(x):
            return RevObj(x)
        return list(reversed(x))
    if contains_symbolic(x, 1):
        raise Unsupported("reversed of symbolic iterable")
    return list(reversed(x))


def _b_zip(it, args, kw):
    lists = []
    for a in args:
        if isinstance(a, IGen):
            a = it.drain(a)
        lists.append(a)
    if all(isinstance(a, (list, tuple, RevObj)) for a in lists) and any(isinstance(a, RevObj) or has_seg(a) for a in lists):
        return ZipObj([a if isinstance(a, RevObj) else list(a) for a in lists])
    if contains_symbolic(lists, 1) and not all(isinstance(a, (list, tuple)) for a in lists):
        raise Unsupported("zip of symbolic iterables")
    return list(zip(*lists))


def _b_chain(it, args, kw):
    if any(isinstance(a, list) and has_seg(a) for a in args) or any(isinstance(a, Opaque) for a in args):
        out = []
        for a in args:
            if isinstance(a, Opaque):
                f = a.props.get("as_list")
                if f is None:
                    raise Unsupported("chain over opaque")
                a = f(a)
            out.extend(a)
        return out
    return list(itertools.chain(*args))


def _b_hasattr(it, args, kw):
    obj, name = args
    if isinstance(obj, Opaque):
        f = obj.props.get("hasattr")
        if f is not None:
            return f(obj, name)
        return ops.opaque_hasattr(obj, name)
    if isinstance(name, Hole) and not isinstance(obj, SYMBOLIC):
        if "value" in name.props:
            return hasattr(obj, name.props["value"])
        # symbolic attribute name on a real object: case split over its finite attribute set
        return ops.bind_hole(name, sorted(set(dir(obj)))) is not None
    if isinstance(obj, SYMBOLIC) or is_symstr(name):
        raise Unsupported("hasattr on symbolic value")
    return hasattr(obj, name)


def _b_getattr(it, args, kw):
    obj, name = args[0], args[1]
    if isinstance(name, Hole) and "value" in name.props:
        name = name.props["value"]
    if is_symstr(name):
        raise Unsupported("getattr with symbolic name")
    try:
        return it.getattr(obj, name)
    except IRaise as e:
        if isinstance(e.exc, AttributeError) and len(args) > 2:
            return args[2]
        raise


def _b_setattr(it, args, kw):
    obj, name, v = args
    if isinstance(name, Hole) and "value" in name.props:
        name = name.props["value"]
    if is_symstr(name):
        f = obj.props.get("setattr_sym") if isinstance(obj, Opaque) else None
        if f is None:
            raise Unsupported("setattr with symbolic name")
        return f(obj, name, v)
    it.setattr(obj, name, v)


def _b_type(it, args, kw):
    if len(args) != 1:
        if contains_symbolic(args, 2):
            raise Unsupported("3-arg type() with symbolic args")
        return it.native(type, *args, **kw)
    (x,) = args
    if isinstance(x, Opaque):
        if x.cands is not None and len(x.cands) == 1:
            return next(iter(x.cands))
        return ops.opaque_type(x)
    if isinstance(x, (Tmpl, Hole, Join, Fn)):
        return str
    if isinstance(x, SInt):
        return int
    if isinstance(x, SBool):
        return bool
    if isinstance(x, SYMBOLIC):
        raise Unsupported(f"type() of {type(x).__name__}")
    return type(x)


def _b_next(it, args, kw):
    g = args[0]
    if isinstance(g, IGen):
        try:
            return g.send(None)
        except IRaise as e:
            if isinstance(e.exc, IStop) and len(args) > 1:
                return args[1]
            raise
    if isinstance(g, _ListIter):
        return g.next(it)
    if isinstance(g, Opaque):
        f = g.props.get("next")
        if f is None:
            raise Unsupported(f"next() of opaque {g!r}")
        return f(g)
    if isinstance(g, SYMBOLIC):
        raise Unsupported("next of symbolic")
    return it.native(next, *args)


class _ListIter:
    """iter(list) where the list may contain segments"""

    def __init__(self, lst):
        self.lst = list(lst)

    def next(self, it):
        if not self.lst:
            raise IRaise(IStop(None))
        if isinstance(self.lst[0], Seg):
            ops.split_head(self.lst)
            if not self.lst:
                raise IRaise(IStop(None))
        return self.lst.pop(0)


def _b_iter(it, args, kw):
    (x,) = args
    if isinstance(x, list):
        return _ListIter(x)
    if isinstance(x, IGen):
        return x
    if isinstance(x, Opaque):
        f = x.props.get("iter")
        if f is None:
            raise Unsupported(f"iter() of opaque {x!r}")
        return f(x)
    if isinstance(x, SYMBOLIC):
        raise Unsupported("iter of symbolic")
    return it.native(iter, x)


def _b_str(it, args, kw):
    if not args:
        return ""
    return ops.to_str(args[0])


def _b_repr(it, args, kw):
    (x,) = args
    if isinstance(x, Opaque):
        f = x.props.get("repr")
        if f is None:
            raise Unsupported(f"repr of opaque {x!r}")
        return f(x)
    if isinstance(x, SYMBOLIC):
        if is_symstr(x):
            return Tmpl([Fn("repr", x)])
        raise Unsupported("repr of symbolic value")
    return it.native(repr, x)


def _b_ascii(it, args, kw):
    (x,) = args
    if isinstance(x, (Opaque, Hole)) and "ascii" in x.props:
        return x.props["ascii"](x)
    if isinstance(x, SYMBOLIC):
        raise Unsupported("ascii of symbolic value")
    return it.native(ascii, x)


def _b_ord(it, args, kw):
    (x,) = args
    if isinstance(x, (Opaque, Hole)) and "ord" in x.props:
        return x.props["ord"](x)
    if isinstance(x, SYMBOLIC):
        raise Unsupported("ord of symbolic value")
    return it.native(ord, x)


def _b_tuple(it, args, kw):
    if not args:
        return ()
    (x,) = args
    if isinstance(x, IGen):
        x = it.drain(x)
    if isinstance(x, (list, tuple)):
        return tuple(x)
    if isinstance(x, SYMBOLIC):
        raise Unsupported("tuple() of symbolic value")
    return it.native(tuple, x)


def _b_list(it, args, kw):
    if not args:
        r = []
    else:
        (x,) = args
        if isinstance(x, IGen):
            x = it.drain(x)
        if isinstance(x, (EnumObj, RevObj, ZipObj)):
            raise Unsupported("list() of lazy wrapper over segments")
        if isinstance(x, (list, tuple)):
            r = list(x)
        elif isinstance(x, SYMBOLIC):
            raise Unsupported("list() of symbolic value")
        else:
            r = it.native(list, x)
    c = ctx()
    c.fresh_objs.add(id(r))
    c.keep.append(r)
    if c.allocs is not None:
        c.allocs.add(id(r))
    return r


def _b_set(it, args, kw):
    if not args:
        r = set()
    else:
        (x,) = args
        if isinstance(x, IGen):
            x = it.drain(x)
        if contains_symbolic(x, 1):
            raise Unsupported("set() of symbolic value")
        r = it.native(set, x)
    c = ctx()
    c.fresh_objs.add(id(r))
    c.keep.append(r)
    if c.allocs is not None:
        c.allocs.add(id(r))
    return r


def _b_dict(it, args, kw):
    r = it.native(dict, *args, **kw)
    c = ctx()
    c.fresh_objs.add(id(r))
    c.keep.append(r)
    if c.allocs is not None:
        c.allocs.add(id(r))
    return r


def _b_sorted(it, args, kw):
    (x,) = args
    if isinstance(x, Opaque):
        f = x.props.get("sorted")
        if f is None:
            raise Unsupported(f"sorted() of opaque {x!r}")
        return f(x)
    if isinstance(x, IGen):
        x = it.drain(x)
    if contains_symbolic(x, 1):
        raise Unsupported("sorted() of symbolic values")
    return it.native(sorted, x, **kw)


def _b_super(it, args, kw):
    raise Unsupported("super() with arguments")


def _b_id(it, args, kw):
    raise Unsupported("id()")


def _b_cast(it, args, kw):
    return args[1]


def _b_print(it, args, kw):
    ctx().log("print", tuple(args), dict(kw))
    return None


def _b_any_all(which):
    def h(it, args, kw):
        (x,) = args
        if isinstance(x, IGen):
            x = it.drain(x)
        if isinstance(x, list) and (has_seg(x) or any(isinstance(e, SBool) for e in x)):
            # any/all over truth values; a segment contributes its (round-independent)
            # item values iff it is non-empty
            want = which is any
            for e in x:
                if isinstance(e, Seg):
                    vals = e.items
                    if not all(isinstance(v, bool) for v in vals):
                        raise Unsupported(f"{which.__name__} over a segment of non-constant truth values")
                    if any(v is want for v in vals):
                        if ctx().branch(zint(e.length) > 0):
                            return want
                else:
                    if ops.truth(e) is want:
                        return want
            return not want
        if contains_symbolic(x, 1):
            raise Unsupported(f"{which.__name__} over symbolic values")
        return which(x)
    return h


import typing as _typing

def _b_ast_walk(it, args, kw):
    """ast.walk over a tree whose leaves may be unknown sub-trees: every real node, and each
    unknown sub-tree as ONE node (its interior is unknown: recorded like the bounded
    materialisation of source trees -- a group that relied on it is never reported proved)"""
    (root,) = args
    out, todo = [], [root]
    c = ctx()
    while todo:
        n = todo.pop(0)
        out.append(n)
        if isinstance(n, Opaque):
            c.depth_cut = True
            continue
        if not isinstance(n, ast.AST):
            continue
        for f in n._fields:
            v = getattr(n, f, None)
            for x in (v if isinstance(v, list) else [v]):
                if isinstance(x, Seg):
                    raise Unsupported("ast.walk over a run of nodes")
                if isinstance(x, (ast.AST, Opaque)):
                    todo.append(x)
    return out


BUILTIN_HANDLERS = {
    ast.walk: _b_ast_walk,
    isinstance: _b_isinstance,
    len: _b_len,
    enumerate: _b_enumerate,
    reversed: _b_reversed,
    range: _b_range,
    zip: _b_zip,
    itertools.chain: _b_chain,
    hasattr: _b_hasattr,
    getattr: _b_getattr,
    setattr: _b_setattr,
    type: _b_type,
    next: _b_next,
    iter: _b_iter,
    str: _b_str,
    repr: _b_repr,
    ascii: _b_ascii,
    ord: _b_ord,
    tuple: _b_tuple,
    list: _b_list,
    set: _b_set,
    dict: _b_dict,
    id: _b_id,
    sorted: _b_sorted,
    print: _b_print,
    any: _b_any_all(any),
    all: _b_any_all(all),
    _typing.cast: _b_cast,
}
