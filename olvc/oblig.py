"""olvc.oblig -- obligations, verdicts, the per-property check driver, evidence, known
findings, replay files.

Exit codes of a check:  0 held (KNOWN-FINDING lines allowed) / 1 violation / 2 undecided /
3 checker error.  `unknown`, timeouts, Unsupported and tracebacks are never mapped to 1.
"""
from __future__ import annotations

import hashlib
import importlib
import json
import os
import re
import subprocess
import sys
import time
import traceback
from concurrent.futures import ProcessPoolExecutor, as_completed

VERIF = os.path.dirname(os.path.dirname(os.path.abspath(__file__)))
OUT = os.path.join(VERIF, "out")
EVID = os.environ.get("VERIF_EVIDENCE_DIR") or os.path.join(VERIF, "evidence")  # (scratch runs on mutated trees set the variable)
KNOWN = os.path.join(VERIF, "KNOWN_FINDINGS.txt")

DISCHARGED, FAILED, UNDECIDED, ERROR = "discharged", "failed", "undecided", "error"


class Results:
    """collector used inside one obligation group"""

    def __init__(self, prop, group):
        self.prop, self.group = prop, group
        self.items = []

    def _add(self, clause, status, backend, detail, replay=None, expect_fail=False, count=1):
        name = f"{self.prop}/{self.group}/{clause}"
        self.items.append(dict(name=name, status=status, backend=backend, detail=str(detail)[:4000],
                               replay=replay, canary=expect_fail, count=count))

    def ok_many(self, clause, n, backend="ground", detail=""):
        """n ground obligations of one family, all discharged (kept as one record)"""
        if n > 0:
            self._add(clause, DISCHARGED, backend, detail or f"{n} ground obligations", count=n)

    def ok(self, clause, backend="structural", detail=""):
        self._add(clause, DISCHARGED, backend, detail)

    def fail(self, clause, detail, replay=None, backend="structural"):
        self._add(clause, FAILED, backend, detail, replay)

    def undecided(self, clause, why):
        self._add(clause, UNDECIDED, "-", why)

    def check(self, clause, cond, detail="", replay=None, backend="structural"):
        if cond:
            self.ok(clause, backend, detail)
        else:
            self.fail(clause, detail, replay, backend)

    def bounded(self, clause, ok, detail="", replay=None):
        """bounded stand-in: a failure is a violation (it comes with a concrete input); a
        pass is recorded with count 0 -- never counted as a discharged proof obligation"""
        if ok:
            self._add(clause, DISCHARGED, "bounded", detail, count=0)
        else:
            self._add(clause, FAILED, "bounded", detail, replay)

    def canary(self, clause, refuted, detail=""):
        """an obligation that is false by construction: the engine must refute it"""
        self._add(clause, DISCHARGED if refuted else ERROR, "canary",
                  detail or ("refuted as expected" if refuted else "CANARY NOT REFUTED: engine proves false statements"),
                  expect_fail=True)

    def valid(self, clause, ctx, cond, detail="", replay=None):
        """cond is a z3 term / SBool / bool: discharged iff valid under the path condition"""
        from .sym import SBool, SolverUnknown
        import z3
        try:
            ok, model = ctx.valid(cond)
        except SolverUnknown:
            self.undecided(clause, "solver unknown")
            return False
        if ok:
            self.ok(clause, "z3", detail)
            return True
        mtxt = ""
        if model is not None:
            mtxt = " model: " + ", ".join(f"{d.name()}={model[d]}" for d in model.decls()[:24])
        rp = dict(replay or {})
        if model is not None:
            rp["model"] = {d.name(): str(model[d]) for d in model.decls()}
        self.fail(clause, f"{detail}{mtxt}", rp or None, backend="z3")
        return False


def fail_or_gap(R, clause, p, replay=None):
    """For harnesses that run a SLICE of a function (a loop body from a generic state): an
    unexpected exception is a failed obligation -- unless it is a NameError/UnboundLocalError,
    which means the harness could not establish the loop state (the locals of the function
    were renamed or restructured): then the obligation is undecided, not violated."""
    if p.kind == "raise" and isinstance(p.value, (NameError, UnboundLocalError)):
        R.undecided(clause, f"the harness could not establish the state of the loop it steps (locals renamed or restructured?): {p.value!r}")
    else:
        R.fail(clause, repr(p.value), replay)


def paths_or_undecided(R, clause, paths):
    """True if every path is usable; otherwise records UNDECIDED and returns False"""
    bad = list(getattr(paths, "undecided", None) or [p for p in paths if p.kind in ("unsupported", "unknown")])
    if hasattr(paths, "reported"):
        paths.reported = True
    if bad:
        R.undecided(clause, f"{len(bad)} path(s) outside the engine subset: {bad[0].value}")
        return False
    if not len(paths):
        R.undecided(clause, "no feasible path (vacuous)")
        return False
    # frame condition of every path: no write to an object that outlives the call
    from . import frames
    base = clause[:-len("/paths")] if clause.endswith("/paths") else clause
    bad = []
    for p in paths:
        v = frames.violations(p.ctx)
        if v:
            bad.append((p.ctx.signature(), v))
    if bad:
        R.fail(f"{base}/frame", f"writes to objects that outlive the call: {bad[0][1][:4]!r} on path {bad[0][0]}",
               replay=dict(kind="frame", where=bad[0][1][0][1]))
    else:
        R.ok(f"{base}/frame", "structural", f"{len(paths)} path(s): every heap write goes to an object created by the call or its harness")
    if any(getattr(p.ctx, "depth_cut", False) for p in paths):
        R.undecided(f"{base}/source-trees-explored-to-a-bounded-depth",
                    "the code walks down source expressions recursively; children of the inspected node were taken as leaves: obligations of this group are bounded, not proved")
    # preconditions of the contracts the call relied on (callee `requires` clauses)
    bad = []
    def walk(evs, sig):
        for e in evs:
            if e and e[0] == "requires-failed":
                bad.append((sig, e[1], e[2]))
            elif e and e[0] == "rep":
                walk(e[4], sig)
    for p in paths:
        walk(getattr(p.ctx, "trace", ()), p.ctx.signature())
    if bad:
        R.fail(f"{base}/callee-preconditions", f"{bad[0][1]}: {bad[0][2]} on path {bad[0][0]} (+{len(bad) - 1} more)", replay=dict(kind="requires", callee=bad[0][1]))
    else:
        R.ok(f"{base}/callee-preconditions", "structural", "every contract the call relied on was used within its precondition")
    return True


# ----------------------------------------------------------------------------------------
# known findings


def load_known(prop):
    """-> {obligation name: text} for `finding:` lines of this property"""
    out = {}
    if not os.path.exists(KNOWN):
        return out
    for line in open(KNOWN, encoding="utf8"):
        line = line.strip()
        if not line.startswith("finding:"):
            continue
        body = line[len("finding:"):].strip()
        head, _, what = body.partition("::")
        kv = dict(tok.split("=", 1) for tok in head.split() if "=" in tok)
        if kv.get("property") == prop and "obligation" in kv:
            out[kv["obligation"]] = what.strip()
    return out


# ----------------------------------------------------------------------------------------
# running groups


GROUP_TIMEOUT_S = int(os.environ.get("VERIF_GROUP_TIMEOUT", "420"))
MAX_REPLAY_FILES = 200


class GroupTimeout(BaseException):
    pass


def _alarm(signum, frame):
    raise GroupTimeout()


def _run_group(modname, gname, tier):
    t0 = time.time()
    import signal
    try:
        signal.signal(signal.SIGALRM, _alarm)
        signal.alarm(GROUP_TIMEOUT_S)
    except Exception:  # noqa: BLE001
        pass
    try:
        sys.path.insert(0, VERIF) if VERIF not in sys.path else None
        mod = importlib.import_module(modname)
        fn = mod.GROUPS[gname]
        R = Results(mod.PROPERTY, gname)
        from . import runner as _runner
        _runner.REGISTRY.clear()
        fn(R, tier)
        # explorations whose undecided paths no obligation reported: undecided, by name of the group
        n_und = 0
        for pl in _runner.REGISTRY:
            if pl.undecided and not pl.reported:
                n_und += 1
                if n_und <= 5:
                    R.undecided(f"paths-outside-the-engine-subset/{n_und}", f"{len(pl.undecided)} path(s): {pl.undecided[0].value}")
        _runner.REGISTRY.clear()
        items = R.items
        if not items:
            items = [dict(name=f"{mod.PROPERTY}/{gname}/-", status=ERROR, backend="-",
                          detail="group produced zero obligations (vacuity guard)", replay=None, canary=False)]
    except GroupTimeout:
        items = list(getattr(locals().get("R"), "items", []) or [])
        items.append(dict(name=f"{modname.split('.')[-1].upper()}/{gname}/time-budget", status=UNDECIDED, backend="-",
                          detail=f"group did not finish within {GROUP_TIMEOUT_S}s (engine budget): undecided, not a violation", replay=None, canary=False))
    except BaseException as e:  # noqa: BLE001
        from .runner import ExplorationLimit
        if isinstance(e, ExplorationLimit):
            # path budget of the engine: what was decided so far stands, the rest is undecided
            items = list(getattr(locals().get("R"), "items", []) or [])
            items.append(dict(name=f"{modname.split('.')[-1].upper()}/{gname}/path-budget", status=UNDECIDED, backend="-",
                              detail=f"{e} (engine budget): undecided, not a violation", replay=None, canary=False))
        else:
            items = [dict(name=f"{modname}/{gname}/crash", status=ERROR, backend="-",
                          detail="".join(traceback.format_exception(type(e), e, e.__traceback__))[-3000:],
                          replay=None, canary=False)]
    try:
        signal.alarm(0)
    except Exception:  # noqa: BLE001
        pass
    from . import sym, extract
    covdir = os.environ.get("VERIF_COV")
    if covdir:
        from . import evaluator as _ev
        os.makedirs(covdir, exist_ok=True)
        with open(os.path.join(covdir, f"{modname.split('.')[-1]}-{re.sub('[^A-Za-z0-9]+', '_', gname)}-{os.getpid()}.json"), "w") as f_:
            json.dump(sorted(_ev.COVERAGE or (), key=str), f_)
    return dict(group=gname, items=items, wall=time.time() - t0, solver_s=sym.STATS.solver_s,
                queries=sym.STATS.queries, functions=dict(extract.FUNCTIONS_SEEN))


def host_tag():
    return f"{sys.version_info[0]}.{sys.version_info[1]}"


def run_suite_local(modname, tier, jobs=None):
    """run all groups of a suite in this interpreter (process pool)"""
    sys.path.insert(0, VERIF) if VERIF not in sys.path else None
    mod = importlib.import_module(modname)
    names = list(mod.GROUPS)
    only = os.environ.get("VERIF_ONLY_GROUP")
    if only:
        names = [n for n in names if only in n]
    jobs = jobs or min(16, max(1, len(names)))
    res = []
    if jobs == 1 or os.environ.get("VERIF_SERIAL"):
        for n in names:
            res.append(_run_group(modname, n, tier))
    else:
        with ProcessPoolExecutor(max_workers=jobs) as ex:
            futs = {ex.submit(_run_group, modname, n, tier): n for n in names}
            for f in as_completed(futs):
                try:
                    res.append(f.result())
                except BaseException as e:  # noqa: BLE001
                    res.append(dict(group=futs[f], wall=0, solver_s=0, queries=0, functions={},
                                    items=[dict(name=f"{modname}/{futs[f]}/pool", status=ERROR, backend="-",
                                                detail=repr(e), replay=None, canary=False)]))
    res.sort(key=lambda r: names.index(r["group"]))
    h = host_tag()
    for r in res:
        r["host"] = h
    return res


def run_suite_on_host(modname, tier, host):
    """host: '3.12' (this overlay venv) or '3.11' (python3-vt)"""
    if host == host_tag():
        return run_suite_local(modname, tier)
    exe = {"3.11": "python3-vt", "3.12": os.path.join(VERIF, ".venv312", "bin", "python")}[host]
    env = dict(os.environ)
    env["PYTHONPATH"] = VERIF
    env["PYTHONDONTWRITEBYTECODE"] = "1"
    p = subprocess.run([exe, "-m", "olvc.oblig", "--worker", modname, tier], cwd=VERIF, env=env,
                       capture_output=True, text=True)
    if p.returncode != 0:
        return [dict(group="host-" + host, host=host, wall=0, solver_s=0, queries=0, functions={},
                     items=[dict(name=f"{modname}/host-{host}/spawn", status=ERROR, backend="-",
                                 detail=(p.stderr or p.stdout)[-3000:], replay=None, canary=False)])]
    line = [l for l in p.stdout.splitlines() if l.startswith("@@RESULT ")][-1]
    return json.loads(line[len("@@RESULT "):])


def replay_on_host(modname, rp, host):
    exe = {"3.11": "python3-vt", "3.12": os.path.join(VERIF, ".venv312", "bin", "python")}[host]
    env = dict(os.environ)
    env["PYTHONPATH"] = VERIF
    env["PYTHONDONTWRITEBYTECODE"] = "1"
    p = subprocess.run([exe, "-m", "olvc.oblig", "--replay-one", modname, json.dumps(rp, default=str)], cwd=VERIF, env=env,
                       capture_output=True, text=True)
    lines = [l for l in p.stdout.splitlines() if l.startswith("@@REPLAY ")]
    if not lines:
        return dict(reproduced=False, error=(p.stderr or p.stdout)[-1500:])
    return json.loads(lines[-1][len("@@REPLAY "):])


# ----------------------------------------------------------------------------------------
# the check driver


def main_check(prop, tier):
    t0 = time.time()
    os.makedirs(OUT, exist_ok=True)
    os.makedirs(EVID, exist_ok=True)
    os.makedirs(os.path.join(OUT, "replays"), exist_ok=True)
    seed = int(os.environ.get("VERIF_SEED", "0") or 0)
    modname = f"suites.{prop.lower()}"
    sys.path.insert(0, VERIF) if VERIF not in sys.path else None
    mod = importlib.import_module(modname)
    hosts = getattr(mod, "HOSTS", ["3.12"])
    groups = []
    if len(hosts) > 1:
        from concurrent.futures import ThreadPoolExecutor
        with ThreadPoolExecutor(max_workers=len(hosts)) as tp:
            for res in tp.map(lambda h: run_suite_on_host(modname, tier, h), hosts):
                groups.extend(res)
    else:
        for h in hosts:
            groups.extend(run_suite_on_host(modname, tier, h))

    known = load_known(prop)
    items = []
    for g in groups:
        for it in g["items"]:
            it = dict(it)
            it["host"] = g["host"]
            it["group"] = g["group"]
            it["name_h"] = it["name"] + (f"@{g['host']}" if len(hosts) > 1 else "")
            items.append(it)

    # Bounded stand-ins for what the engine could not decide.  An UNDECIDED obligation (code
    # outside the interpreted subset, budget exceeded) stays undecided -- but the suite's bounded
    # program family for that group is run against the real converter, and a program on which
    # the converted text misbehaves NATIVELY is a violation with a replayed input.  (Never the
    # other way round: a quiet family decides nothing.  On a tree where everything is decided
    # no stand-in runs.)
    standins = getattr(mod, "STANDINS", None) or {}
    ran = {}
    for it in [i for i in items if i["status"] == UNDECIDED and i["host"] == host_tag()]:
        specs = [sp for key, sps in standins.items() if key == "*" or key in it["group"] for sp in sps]
        for sp in specs:
            ck = json.dumps(sp, sort_keys=True, default=str)
            if ck not in ran:
                try:
                    ran[ck] = mod.REPLAY[sp["kind"]](dict(sp))
                except BaseException as e:  # noqa: BLE001
                    ran[ck] = dict(reproduced=False, error="".join(traceback.format_exception_only(type(e), e)))
            if ran[ck].get("reproduced") and not ran[ck].get("_reported"):
                ran[ck]["_reported"] = True
                items.append(dict(name=f"{it['name']}/bounded-stand-in:{sp['kind']}", name_h=f"{it['name']}/bounded-stand-in:{sp['kind']}", status=FAILED, backend="bounded",
                                  detail=f"the engine could not decide this obligation ({it['detail'][:200]}); its bounded stand-in, the program family {sp['kind']!r} run "
                                         "against the real converter, contains a program on which the converted text does not behave like the script",
                                  replay=dict(sp), canary=False, host=it["host"], group=it["group"], count=0))

    errors = [i for i in items if i["status"] == ERROR]
    undec = [i for i in items if i["status"] == UNDECIDED]
    failed = [i for i in items if i["status"] == FAILED]
    ok = [i for i in items if i["status"] == DISCHARGED]

    known_hit, violations = [], []
    for i in failed:
        if i["name"] in known or i["name_h"] in known:
            known_hit.append(i)
        else:
            violations.append(i)
    seen = set()
    for i in known_hit:
        key = i["name"]
        if key in seen:
            continue
        seen.add(key)
        print(f"KNOWN-FINDING: property={prop} {i['name']} :: {known.get(i['name'], known.get(i['name_h'], ''))}")

    # replay of violations against the real code
    viol_lines = []
    overflow_started = False
    replay_cache = {}
    for i in violations:
        rp = i.get("replay") or {}
        rep = None
        if rp.get("kind") and hasattr(mod, "REPLAY"):
            # (a replay depends on the kind and its parameters only, not on the obligation)
            ck = (i["host"], json.dumps({k: v for k, v in rp.items() if k != "model"}, sort_keys=True, default=str))
            if ck in replay_cache:
                rep = replay_cache[ck]
            else:
                try:
                    if i["host"] != host_tag():
                        rep = replay_on_host(modname, rp, i["host"])
                    else:
                        rep = mod.REPLAY[rp["kind"]](rp)
                except BaseException as e:  # noqa: BLE001
                    rep = dict(reproduced=False, error="".join(traceback.format_exception_only(type(e), e)))
                replay_cache[ck] = rep
        hid = hashlib.sha1(i["name_h"].encode()).hexdigest()[:10]
        rec = dict(property=prop, obligation=i["name"], host=i["host"], verifier_output=i["detail"],
                   backend=i["backend"], replay_input=rp, replay_result=rep)
        if len(viol_lines) < MAX_REPLAY_FILES:
            path = os.path.join(OUT, "replays", f"{prop}-{hid}.json")
            rec["how_to_rerun"] = f"./check --replay {path}"
            with open(path, "w", encoding="utf8") as f:
                json.dump(rec, f, indent=1, default=str)
        else:
            # (a change that breaks thousands of obligations must not fill the disk: the rest
            #  share one file, one record per line)
            path = os.path.join(OUT, "replays", f"{prop}-more.jsonl")
            with open(path, "a" if overflow_started else "w", encoding="utf8") as f:
                f.write(json.dumps(rec, default=str) + "\n")
            overflow_started = True
        tail = "" if (rep and rep.get("reproduced")) else " no-failing-input-found"
        viol_lines.append(f"VIOLATION property={prop} replay={path}{tail}")

    for i in errors:
        print(f"CHECKER-ERROR {i['name_h']}: {i['detail'][-1500:]}")
    for i in undec:
        print(f"UNDECIDED {i['name_h']}: {i['detail'][:300]}")
    for i, line in zip(violations, viol_lines):
        print(f"FAILED-OBLIGATION {i['name_h']}: {i['detail'][:600]}")
        print(line)

    # evidence
    funcs = {}
    by_backend = {}
    solver_s = 0.0
    for g in groups:
        funcs.update(g.get("functions", {}))
        solver_s += g.get("solver_s", 0.0)
    for i in ok:
        by_backend[i["backend"]] = by_backend.get(i["backend"], 0) + int(i.get("count", 1))
    cnt = lambda xs: sum(int(i.get("count", 1)) for i in xs)
    claimed = cnt(items) - cnt(known_hit)
    samples = [dict(obligation=i["name_h"], backend=i["backend"], detail=i["detail"][:300]) for i in ok[:3]]
    samples += [dict(obligation=i["name_h"], backend=i["backend"], detail=i["detail"][:300]) for i in ok[len(ok) // 2: len(ok) // 2 + 3]]
    level = getattr(mod, "LEVEL", "proof")
    cov = dict(
        obligations=claimed,
        discharged=cnt(ok),
        checker_cmd=f"./check {prop} {tier}",
        trusted_base=list(getattr(mod, "TRUSTED_BASE", [])),
        samples=samples,
        functions_under_contract=sorted(funcs),
        by_backend=by_backend,
        solver_s=round(solver_s, 3),
        hosts=hosts,
        known_findings=sorted({i["name"] for i in known_hit}),
        undecided=[i["name_h"] for i in undec],
        bounded_standins=list(getattr(mod, "BOUNDED", [])),
        explanation=getattr(mod, "EXPLANATION", ""),
        groups={g["group"] + "@" + g["host"]: round(g["wall"], 2) for g in groups},
    )
    ev = dict(property_id=prop, tier=tier, seed=seed, level=level, coverage=cov,
              assumptions=list(getattr(mod, "ASSUMPTIONS", [])), wall_s=round(time.time() - t0, 2),
              violations=len(violations))
    with open(os.path.join(EVID, f"{prop}.json"), "w", encoding="utf8") as f:
        json.dump(ev, f, indent=1)

    print(f"{prop} {tier}: obligations={cnt(items)} discharged={cnt(ok)} known-findings={len(known_hit)} "
          f"violations={len(violations)} undecided={len(undec)} errors={len(errors)} "
          f"functions={len(funcs)} solver_s={solver_s:.2f} wall={time.time() - t0:.1f}s")
    if violations:
        return 1  # a replayed / named violation stands even if another group crashed
    if errors:
        return 3
    if undec:
        return 2
    if len(ok) == 0:
        print("CHECKER-ERROR zero obligations discharged")
        return 3
    return 0


def main_replay(path):
    if path.endswith(".jsonl"):  # the shared overflow file: replay its first record
        d = json.loads(open(path, encoding="utf8").readline())
    else:
        d = json.load(open(path, encoding="utf8"))
    prop = d["property"]
    sys.path.insert(0, VERIF) if VERIF not in sys.path else None
    mod = importlib.import_module(f"suites.{prop.lower()}")
    rp = d.get("replay_input") or {}
    if not rp.get("kind"):
        print(f"no replayable input stored for {d['obligation']}; verifier output:\n{d['verifier_output']}")
        return 0
    if d.get("host") and d["host"] != host_tag():
        rep = replay_on_host(f"suites.{prop.lower()}", rp, d["host"])
    else:
        rep = mod.REPLAY[rp["kind"]](rp)
    print(json.dumps(rep, indent=1, default=str))
    return 1 if rep.get("reproduced") else 0


if __name__ == "__main__":
    if len(sys.argv) >= 4 and sys.argv[1] == "--replay-one":
        sys.path.insert(0, VERIF) if VERIF not in sys.path else None
        mod = importlib.import_module(sys.argv[2])
        rp = json.loads(sys.argv[3])
        print("@@REPLAY " + json.dumps(mod.REPLAY[rp["kind"]](rp), default=str))
        sys.exit(0)
    if len(sys.argv) >= 4 and sys.argv[1] == "--worker":
        res = run_suite_local(sys.argv[2], sys.argv[3])
        print("@@RESULT " + json.dumps(res, default=str))
        sys.exit(0)
