"""spec.pygrammar -- the Python expression grammar as two ladders (TRUSTED SPEC).

Written from Grammar/python.gram (CPython 3.12; the 3.8 column notes where the 3.8 grammar
is stricter).  Nothing here is derived from Oneliner-Py's source.

LEVEL: index of the tightest non-terminal that derives an *unparenthesised* node of a kind.
SLOT : index of the non-terminal the grammar has at a child position.
A child of kind k may stand unparenthesised in a slot s iff LEVEL[k] <= SLOT[s]
(every non-terminal of the ladder derives all tighter ones); a parenthesised child is a
`group` atom and is admitted everywhere except where the grammar has no `atom`
(Starred, Slice, FormattedValue positions).
"""
from __future__ import annotations

import ast

# the ladder, tightest first ------------------------------------------------------------
LADDER = [
    "atom",              # 0  NAME NUMBER strings ( ) [ ] { } ...
    "primary",           # 1  primary.NAME  primary(...)  primary[...]
    "await_primary",     # 2  await primary
    "power",             # 3  await_primary ** factor
    "factor",            # 4  +factor -factor ~factor
    "term",              # 5  term * factor ...
    "sum",               # 6
    "shift_expr",        # 7
    "bitwise_and",       # 8
    "bitwise_xor",       # 9
    "bitwise_or",        # 10
    "comparison",        # 11
    "inversion",         # 12 not inversion
    "conjunction",       # 13 inversion and inversion
    "disjunction",       # 14 conjunction or conjunction
    "fstring_expr",      # 15 disjunction | ternary   (replacement-field expression that is
                         #    safe before '!' ':' '}': no bare lambda, no bare walrus)
    "expression",        # 16 ternary | lambdef
    "named_expression",  # 17 NAME := expression
    "genexp_bare",       # 18 `elt for ...` without its own parentheses: only as the sole
                         #    argument of a call (primary genexp)
    "yield_expr",        # 19 only inside a group, or as a statement / assignment value
]
L = {n: i for i, n in enumerate(LADDER)}

ATOM_CLASSES = (ast.Constant, ast.Name, ast.JoinedStr, ast.List, ast.ListComp, ast.Tuple, ast.Dict,
                ast.DictComp, ast.Set, ast.SetComp)

BINOP_LEVEL = {
    ast.Pow: "power",
    ast.Mult: "term", ast.MatMult: "term", ast.Div: "term", ast.FloorDiv: "term", ast.Mod: "term",
    ast.Add: "sum", ast.Sub: "sum",
    ast.LShift: "shift_expr", ast.RShift: "shift_expr",
    ast.BitAnd: "bitwise_and", ast.BitXor: "bitwise_xor", ast.BitOr: "bitwise_or",
}
UNARY_LEVEL = {ast.UAdd: "factor", ast.USub: "factor", ast.Invert: "factor", ast.Not: "inversion"}
BOOL_LEVEL = {ast.And: "conjunction", ast.Or: "disjunction"}

# kinds whose text can never be wrapped in parentheses (no `atom` alternative there)
UNPARENABLE = (ast.Starred, ast.Slice, ast.FormattedValue)


def kinds():
    """The complete catalogue of expression kinds: (name, node factory)."""
    out = []
    for c in ATOM_CLASSES:
        out.append((c.__name__, c, None))
    for c in (ast.Attribute, ast.Subscript, ast.Call, ast.Await, ast.Compare, ast.IfExp, ast.Lambda,
              ast.NamedExpr, ast.GeneratorExp, ast.Yield, ast.YieldFrom, ast.Starred, ast.Slice,
              ast.FormattedValue):
        out.append((c.__name__, c, None))
    for op in BINOP_LEVEL:
        out.append((f"BinOp.{op.__name__}", ast.BinOp, op))
    for op in UNARY_LEVEL:
        out.append((f"UnaryOp.{op.__name__}", ast.UnaryOp, op))
    for op in BOOL_LEVEL:
        out.append((f"BoolOp.{op.__name__}", ast.BoolOp, op))
    return out


def level(cls, op=None):
    """LEVEL of a kind (unparenthesised form as the production writes it)."""
    if cls in ATOM_CLASSES:
        # Tuple: the production chosen is the parenthesised `tuple` atom.
        return L["atom"]
    if cls in (ast.Attribute, ast.Subscript, ast.Call):
        return L["primary"]
    if cls is ast.Await:
        return L["await_primary"]
    if cls is ast.BinOp:
        return L[BINOP_LEVEL[op]]
    if cls is ast.UnaryOp:
        return L[UNARY_LEVEL[op]]
    if cls is ast.BoolOp:
        return L[BOOL_LEVEL[op]]
    if cls is ast.Compare:
        return L["comparison"]
    if cls is ast.IfExp:
        return L["fstring_expr"]
    if cls is ast.Lambda:
        return L["expression"]
    if cls is ast.NamedExpr:
        return L["named_expression"]
    if cls is ast.GeneratorExp:
        return L["genexp_bare"]
    if cls in (ast.Yield, ast.YieldFrom):
        return L["yield_expr"]
    if cls in UNPARENABLE:
        return None  # special: legal only in designated slots, never parenthesised
    raise KeyError(cls)


# ----------------------------------------------------------------------------------------
# slots: (parent class, field[, case]) -> (non-terminal, admits_starred, admits_slice)
#
# `case` distinguishes positions of one field that the grammar treats differently.


def slot(parent, field, op=None, case=None):
    """-> dict(level=int, starred=bool, slice=bool, fvalue=bool)"""
    S = lambda name, starred=False, slc=False, fv=False, only=None: dict(level=L[name], starred=starred, slice=slc, fvalue=fv, only=only)
    P = parent
    if P is ast.Attribute and field == "value":
        return S("primary")
    if P is ast.Subscript and field == "value":
        return S("primary")
    if P is ast.Subscript and field == "slice":
        # slices: slice | named_expression | tuple of (slice | starred | named_expression)
        # (the tuple is written bare by the grammar; a parenthesised Tuple atom is the same
        # tree only if it contains no Slice)
        return S("named_expression", slc=True)
    if P is ast.Slice:
        return S("expression")
    if P is ast.Call and field == "func":
        return S("primary")
    if P is ast.Call and field == "args":
        if case == "sole":
            # primary genexp | '(' args ')' with one positional argument
            return S("genexp_bare", starred=True)
        return S("named_expression", starred=True)
    if P is ast.keyword and field == "value":
        return S("expression")  # NAME '=' expression | '**' expression
    if P is ast.Starred and field == "value":
        return S("bitwise_or")  # star_named_expression: '*' bitwise_or (tightest of its uses)
    if P is ast.BinOp:
        lv = BINOP_LEVEL[op]
        if op is ast.Pow:
            return S("await_primary") if field == "left" else S("factor")
        if field == "left":
            return S(lv)
        return S(LADDER[L[lv] - 1])
    if P is ast.UnaryOp:
        return S("inversion") if op is ast.Not else S("factor")
    if P is ast.BoolOp:
        return S("inversion") if op is ast.And else S("conjunction")
    if P is ast.Compare:
        return S("bitwise_or")
    if P is ast.IfExp:
        return S("expression") if field == "orelse" else S("disjunction")
    if P is ast.Lambda:
        return S("expression")  # body; defaults: '=' expression
    if P in (ast.List, ast.Tuple, ast.Set) and field == "elts":
        return S("named_expression", starred=True)
    if P is ast.Dict:
        if case == "double_star":
            return S("bitwise_or")
        return S("expression")
    if P is ast.comprehension:
        if field in ("iter", "ifs"):
            return S("disjunction")
        if field == "target":
            # star_targets: the parser only ever builds these kinds here
            return S("primary", starred=True,
                     only=(ast.Name, ast.Attribute, ast.Subscript, ast.Tuple, ast.List, ast.Starred))
    if P in (ast.ListComp, ast.SetComp, ast.GeneratorExp) and field == "elt":
        return S("named_expression")
    if P is ast.DictComp and field in ("key", "value"):
        return S("expression")
    if P is ast.NamedExpr and field == "value":
        return S("expression")
    if P is ast.Yield:
        return S("expression", starred=False)
    if P is ast.YieldFrom:
        return S("expression")
    if P is ast.Await:
        return S("primary")
    if P is ast.FormattedValue and field == "value":
        return S("fstring_expr")
    if P is ast.JoinedStr and field == "values":
        return dict(level=-1, starred=False, slice=False, fvalue=True, only=(ast.FormattedValue,))
    if P is None:  # root of eval-mode text: `expressions`
        return S("expression")
    raise KeyError((parent, field, case))


def admits(slot_info, cls, op=None):
    """May a child of this kind stand *unparenthesised* in the slot?"""
    if cls is ast.Starred:
        return slot_info["starred"]
    if cls is ast.Slice:
        return slot_info["slice"]
    if cls is ast.FormattedValue:
        return slot_info["fvalue"]
    return level(cls, op) <= slot_info["level"]


def legal_child(slot_info, cls, op=None):
    """Can a well-formed tree have this kind at this position at all (possibly in
    parentheses)?  Everything with an atom form can; the three unparenable kinds only
    where the grammar names them."""
    if slot_info.get("only") is not None and cls not in slot_info["only"]:
        return False
    if cls in UNPARENABLE:
        return admits(slot_info, cls, op)
    return slot_info["level"] >= 0


# ----------------------------------------------------------------------------------------
# operator spellings (from the grammar's token table)
OPERATOR_TEXT = {
    ast.Add: "+", ast.Sub: "-", ast.Mult: "*", ast.MatMult: "@", ast.Div: "/", ast.FloorDiv: "//",
    ast.Mod: "%", ast.Pow: "**", ast.LShift: "<<", ast.RShift: ">>", ast.BitOr: "|", ast.BitXor: "^",
    ast.BitAnd: "&",
}
UNARY_TEXT = {ast.UAdd: "+", ast.USub: "-", ast.Invert: "~", ast.Not: "not"}
BOOL_TEXT = {ast.And: "and", ast.Or: "or"}
CMP_TEXT = {
    ast.Eq: "==", ast.NotEq: "!=", ast.Lt: "<", ast.LtE: "<=", ast.Gt: ">", ast.GtE: ">=",
    ast.Is: "is", ast.IsNot: "is not", ast.In: "in", ast.NotIn: "not in",
}
