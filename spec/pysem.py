"""spec.pysem -- statement-level facts from the Python Language Reference (TRUSTED SPEC,
DESIGN.md section 4.4).  Expected traces are written in the event algebra of
spec.target_lang, from the reference manual, never from Oneliner-Py's code."""
from __future__ import annotations

import ast

import z3

from olvc.sym import SInt, zint
from spec import target_lang as TL

# data model 3.3.8: augmented arithmetic assignments
INPLACE_NAME = {
    ast.Add: "__iadd__", ast.Sub: "__isub__", ast.Mult: "__imul__", ast.MatMult: "__imatmul__",
    ast.Div: "__itruediv__", ast.FloorDiv: "__ifloordiv__", ast.Mod: "__imod__", ast.Pow: "__ipow__",
    ast.LShift: "__ilshift__", ast.RShift: "__irshift__", ast.BitAnd: "__iand__", ast.BitXor: "__ixor__",
    ast.BitOr: "__ior__",
}

SUPPORTED_STMTS = {
    ast.Expr, ast.If, ast.While, ast.For, ast.Break, ast.Continue, ast.Pass, ast.Assign, ast.AnnAssign,
    ast.AugAssign, ast.FunctionDef, ast.Return, ast.Global, ast.Nonlocal, ast.ClassDef, ast.Import, ast.ImportFrom,
}
UNSUPPORTED_STMTS = {  # README "Limitations" + property C08
    "Try", "TryStar", "Raise", "With", "AsyncWith", "Assert", "Delete", "Match", "TypeAlias", "AsyncFunctionDef",
    "AsyncFor",
}
UNSUPPORTED_EXPRS = {ast.Yield, ast.YieldFrom, ast.Await}


# ----------------------------------------------------------------------------------------
# sequence elements: reading of indexing / slicing a tuple() snapshot of length L
# (data model: negative indices count from the end; slice bounds None -> ends)


def norm_pos(c, i, L):
    """position in [0, L) denoted by index term i (z3 int) on a sequence of length L"""
    ok_nonneg, _ = c.valid(i >= 0)
    if ok_nonneg:
        return i
    ok_neg, _ = c.valid(i < 0)
    if ok_neg:
        return L + i
    return z3.If(i >= 0, i, L + i)


def norm_bound(c, term, L, default):
    """slice bound: ('const', None) -> default; ints as above (no clamping needed when the
    result is compared under the legality assumption on L)"""
    if term == ("const", None):
        return default
    if isinstance(term, tuple) and term[0] == "const":
        v = term[1]
        z = v if z3.is_expr(v) else (z3.IntVal(v) if isinstance(v, int) and not isinstance(v, bool) else None)
        if z is None:
            return None
        return norm_pos(c, z, L)
    return None


def reading_of_snapshot_value(c, t, L, snap):
    """value term built from indexing a tuple() snapshot -> ('elem', pos) / ('elems', lo, hi)
    / ('listof', lo, hi); None if the term is not of that shape"""
    if not (isinstance(t, tuple) and t):
        return None
    if t[0] == "idx" and TL.term_eq(c, t[1], snap):
        i = t[2]
        if isinstance(i, tuple) and i[0] == "const" and (z3.is_expr(i[1]) or (isinstance(i[1], int) and not isinstance(i[1], bool))):
            z = i[1] if z3.is_expr(i[1]) else z3.IntVal(i[1])
            return ("elem", norm_pos(c, z, L))
        if isinstance(i, tuple) and i[0] == "slice":
            if i[3] != ("const", None):
                return None
            lo = norm_bound(c, i[1], L, z3.IntVal(0))
            hi = norm_bound(c, i[2], L, L)
            if lo is None or hi is None:
                return None
            return ("elems", lo, hi)
        return None
    if t[0] == "list":
        inner = reading_of_snapshot_value(c, t[1], L, snap)
        if inner and inner[0] == "elems":
            return ("listof", inner[1], inner[2])
        return None
    return None


# ----------------------------------------------------------------------------------------
# trace comparison with scoping of repetition variables


def trace_eq(c, got, want, why=None):
    """structural equality of two traces; inside ('rep', n, j, rev, body) the bound
    variable is constrained to 0 <= j < n while the bodies are compared"""
    why = why if why is not None else []
    if len(got) != len(want):
        why.append(f"different number of events: {len(got)} vs {len(want)}")
        return False
    for g, w in zip(got, want):
        if g[0] != w[0]:
            why.append(f"event kind {g[0]} vs {w[0]}: {g!r} vs {w!r}")
            return False
        if g[0] == "rep":
            if not TL.term_eq(c, g[1], w[1]):
                why.append(f"repetition counts differ: {g[1]!r} vs {w[1]!r}")
                return False
            if g[3] != w[3]:
                why.append("repetition order differs (forward / reversed)")
                return False
            jg, jw = g[2], w[2]
            body_w = w[4]
            if not jg.eq(jw):
                body_w = _subst_trace(body_w, jw, jg)
            scope = [jg >= 0, jg < zint(g[1])]
            c.pc.extend(scope)
            try:
                ok = trace_eq(c, g[4], body_w, why)
            finally:
                del c.pc[-2:]
            if not ok:
                return False
            continue
        if g[0] == "choice":
            if not TL.term_eq(c, g[1], w[1]) or not trace_eq(c, g[2], w[2], why) or not trace_eq(c, g[3], w[3], why):
                why.append(f"choice differs: {g!r} vs {w!r}")
                return False
            continue
        if g[0] == "loop":
            if not (TL.term_eq(c, g[1:4], w[1:4]) and trace_eq(c, g[4], w[4], why)):
                why.append(f"loop differs: {g[:4]!r} vs {w[:4]!r}")
                return False
            continue
        if not TL.term_eq(c, g, w):
            why.append(f"{g!r}  vs  {w!r}")
            return False
    return True


def _subst_trace(x, old, new):
    if z3.is_expr(x):
        return z3.substitute(x, (old, new))
    if isinstance(x, SInt):
        return SInt(z3.substitute(x.t, (old, new)))
    if isinstance(x, tuple):
        return tuple(_subst_trace(i, old, new) for i in x)
    if isinstance(x, list):
        return [_subst_trace(i, old, new) for i in x]
    return x


# ----------------------------------------------------------------------------------------
# guarded traces: flatten choices into (condition, event); conditions over truth atoms


def truth_of(term):
    """z3 Bool for the truth value of a value term (Language Reference 6.11 / 4.1)"""
    if isinstance(term, tuple) and term:
        k = term[0]
        if k == "const":
            v = term[1]
            if z3.is_expr(v):
                return v != 0
            if isinstance(v, tuple):
                return z3.Bool(f"truth:{term!r}")
            return z3.BoolVal(bool(v))
        if k == "boolop":
            a, b = truth_of(term[2]), truth_of(term[3])
            return z3.And(a, b) if term[1] == "and" else z3.Or(a, b)
        if k == "unary" and term[1] == "Not":
            return z3.Not(truth_of(term[2]))
        if k == "ifexp":
            return z3.If(truth_of(term[1]), truth_of(term[2]), truth_of(term[3]))
        if k == "listdisp" or k == "tupledisp":
            if len(term[1]) > 0 and not any(isinstance(x, tuple) and x and x[0] == "segvals" for x in term[1]):
                return z3.BoolVal(True)
    return z3.Bool(f"truth:{term!r}")


def _statement_values_tested(term):
    """sequencer results whose truth decides `term`'s truth and that may be a single statement's own value"""
    out = []
    if isinstance(term, tuple) and term:
        k = term[0]
        if k == "seqresult" and len(term) > 1 and term[1] in ("one", "unknown"):
            out.append(term[1])
        elif k == "boolop":
            out += _statement_values_tested(term[2]) + _statement_values_tested(term[3])
        elif k == "ifexp":
            out += _statement_values_tested(term[2]) + _statement_values_tested(term[3])
        elif k == "unary" and term[1] == "Not":
            out += _statement_values_tested(term[2])
    return out


def asked_objects(term):
    """[(condition, tag)]: the source values whose truth value is taken when the truth of `term` is
    asked.  `a and b` IS the object a when a is false, else the object b (6.11): testing the result of
    a boolean operation asks that very object again."""
    T = z3.BoolVal(True)
    if isinstance(term, tuple) and term:
        k = term[0]
        if k == "val":
            return [(T, term[1])]
        if k == "boolop":
            ta = truth_of(term[2])
            first_is_result = z3.Not(ta) if term[1] == "and" else ta
            return [(z3.And(first_is_result, c_), t_) for c_, t_ in asked_objects(term[2])] + \
                   [(z3.And(z3.Not(first_is_result), c_), t_) for c_, t_ in asked_objects(term[3])]
        if k == "ifexp":
            tt = truth_of(term[1])
            return [(z3.And(tt, c_), t_) for c_, t_ in asked_objects(term[2])] + [(z3.And(z3.Not(tt), c_), t_) for c_, t_ in asked_objects(term[3])]
    return []


def guarded(tr, cond=None):
    cond = z3.BoolVal(True) if cond is None else cond
    out = []
    for e in tr:
        if e[0] == "truthask":
            for c_, tag in asked_objects(e[1]):
                out.append((z3.And(cond, c_), ("truth-ask", tag)))
            continue
        if e[0] == "choice":
            t = truth_of(e[1])
            for c_, tag in asked_objects(e[1]):
                # bool() of an object a source expression produced: observable (its __bool__/__len__ may run)
                out.append((z3.And(cond, c_), ("truth-ask", tag)))
            for sub in _statement_values_tested(e[1]):
                # the truth value of a STATEMENT's value is taken: bool() of an object the user's
                # expression produced (Python never does that for a statement)
                out.append((cond, ("truth-test-of-a-statement-value", sub)))
            out.extend(guarded(e[2], z3.And(cond, t)))
            out.extend(guarded(e[3], z3.And(cond, z3.Not(t))))
        elif e[0] == "rep":
            inner = guarded(e[4], cond)
            out.append((cond, ("rep", e[1], e[2], e[3], tuple((z3.simplify(c_), ev) for c_, ev in inner))))
        else:
            out.append((cond, e))
    return out


def _order_exclusive(c, evs):
    """two adjacent events that can never both happen (their conditions exclude each other: the two
    branches of one test) have no observable order: bring them into a canonical one"""
    evs = list(evs)
    key = lambda e: repr(e[1])
    changed = True
    rounds = 0
    while changed and rounds < len(evs) + 2:
        changed = False
        rounds += 1
        for i in range(len(evs) - 1):
            a, b = evs[i], evs[i + 1]
            if key(a) > key(b) and c.valid(z3.Not(z3.And(a[0], b[0])))[0]:
                evs[i], evs[i + 1] = b, a
                changed = True
    return evs


def guarded_eq(c, got, want, why):
    g = [(z3.simplify(cd), e) for cd, e in guarded(got)]
    w = [(z3.simplify(cd), e) for cd, e in guarded(want)]
    g = [x for x in g if not z3.is_false(x[0])]
    w = [x for x in w if not z3.is_false(x[0])]
    g, w = _order_exclusive(c, g), _order_exclusive(c, w)
    if len(g) != len(w):
        why.append(f"{len(g)} guarded events vs {len(w)}")
        return False
    for (cg, eg), (cw, ew) in zip(g, w):
        if eg[0] == "rep" and ew[0] == "rep":
            ok = TL.term_eq(c, eg[1], ew[1]) and eg[3] == ew[3] and len(eg[4]) == len(ew[4]) and all(
                TL.term_eq(c, a[1], b[1]) and c.valid(a[0] == b[0])[0] for a, b in zip(eg[4], ew[4]))
            if not ok:
                why.append(f"repetition differs: {eg!r} vs {ew!r}")
                return False
        elif not TL.term_eq(c, eg, ew):
            why.append(f"event {eg!r} vs {ew!r}")
            return False
        ok, m = c.valid(cg == cw)
        if not ok:
            why.append(f"event {eg!r} runs under {cg} in the lowered form but under {cw} in Python (model {m})")
            return False
    return True
