"""spec.samples -- small concrete instances of every expression kind and of every
(parent slot, child kind) composition.  Used (a) by replay, to turn a failed obligation
into a concrete failing input for the real code, (b) by tools/spec_validate.py to validate
spec/pygrammar.py against CPython's parser."""
from __future__ import annotations

import ast
import copy

KIND_SRC = {
    "Name": ["n"],
    "Constant": ["1", "'s'", "2.5", "None", "...", "b'x'", "3j", "True"],
    "JoinedStr": ["f'a{b}c'", "f'{a!r:>{w}}'", "f'{a}{{}}'", "f'{x:{y}}'", "f'{d[\"k\"]}'"],
    "List": ["[]", "[a]", "[a,b,c]", "[*a,b]"],
    "ListComp": ["[a for b in c]", "[a for b in c if d if e for f in g]", "[a async for b in c]"],
    "Tuple": ["()", "(a,)", "(a,b,c)", "(*a,b)"],
    "Dict": ["{}", "{a:b}", "{a:b,**c,d:e}", "{**c}"],
    "DictComp": ["{a:b for c in d}", "{a:b for c in d if e for f in g if h}"],
    "Set": ["{a}", "{a,b,*c}"],
    "SetComp": ["{a for b in c}", "{a for b in c if d for e in f}"],
    "Attribute": ["a.b", "(1).real", "1.5.real", "a.b.c", "'s'.x", "(-1).x"],
    "Subscript": ["a[b]", "a[1:2]", "a[::2]", "a[1:2,3]", "a[1:2,]", "a[b,c]", "a[:,...,None]", "a[()]", "a[b:c:d, e:f]"],
    "Call": ["f()", "f(a)", "f(a,b)", "f(*a)", "f(a,k=b)", "f(**k)", "f(a for b in c)", "f(a,*b,k=c,**d)",
             "f((a for b in c), d)", "f(k=(x:=1))", "f(x:=1)", "f(x:=1, y)", "f(a, **b, c=1)", "f(**a, b=1, **c)", "f(*a, b, *c, d=1)",
             "f((a for b in c), k=1)", "f((a for b in c), **k)", "f((a for b in c), *d)", "f(*(a for b in c))", "f(k=(a for b in c))"],
    "Await": ["await a", "await a.b", "await f(x)"],
    "Compare": ["a<b", "a<b<=c", "a is not b", "a not in b in c", "a==b!=c>d>=e"],
    "IfExp": ["a if b else c", "a if b else c if d else e", "(a if b else c) if d else e"],
    "Lambda": ["lambda: 0", "lambda a: a", "lambda a, b=1: a", "lambda a, /, b: a", "lambda a=1, /, b=2: a",
               "lambda *a: a", "lambda *, k: k", "lambda *, k=1, m: k", "lambda a, *b, c=1, d, **e: a",
               "lambda **k: k", "lambda a, /: a", "lambda a, b=1, /, c=2, *, d, e=3, **f: a",
               "lambda a, b, /, c=1: a", "lambda a, b=2, c=3: a", "lambda a, b=1, /: a", "lambda a=0, b=1, /, *r: a", "lambda a=None, /, **k: a",
               "lambda a=1, /, *, k: a", "lambda *, k=1, m=2, **z: k"],
    "NamedExpr": ["(a:=b)", "(a:=b if c else d)", "(a:=lambda: 0)"],
    "GeneratorExp": ["(a for b in c)", "(a for b in c if d)", "(a async for b in c)"],
    "Yield": ["(yield)", "(yield a)", "(yield a, b)"],
    "YieldFrom": ["(yield from a)"],
    "Starred": [],
    "Slice": [],
    "FormattedValue": [],
}
_BIN = {"Add": "+", "Sub": "-", "Mult": "*", "MatMult": "@", "Div": "/", "FloorDiv": "//", "Mod": "%", "Pow": "**",
        "LShift": "<<", "RShift": ">>", "BitOr": "|", "BitXor": "^", "BitAnd": "&"}
for _n, _t in _BIN.items():
    KIND_SRC[f"BinOp.{_n}"] = [f"p {_t} q", f"p {_t} q {_t} r", f"p {_t} (q {_t} r)", f"(p {_t} q) {_t} r"]
for _n, _t in {"UAdd": "+", "USub": "-", "Invert": "~", "Not": "not "}.items():
    KIND_SRC[f"UnaryOp.{_n}"] = [f"{_t}p", f"{_t}{_t}p", f"{_t}(p+q)"]
for _n, _t in {"And": "and", "Or": "or"}.items():
    KIND_SRC[f"BoolOp.{_n}"] = [f"p {_t} q", f"p {_t} q {_t} r", f"p {_t} (q {_t} r)", f"(p {_t} q) {_t} r"]


DEEP_SRC = [
    "-((a+b)*(c+d))", "((a+b)*(c+d))**2", "not ((a or b) and (c or d))", "((a,b)+(c,d)).count", "[((i,j) for i in f(n))]",
    "(a if b else c)(d)", "(lambda: x)()", "(a, b)[0]", "(yield)", "(await a)**b", "-(-a)", "(-a)**-b", "a**-b**c", "(a**b)**c",
    "a < (b < c)", "(a < b) < c", "a if (b if c else d) else e", "(a and b) or (c and d)", "a and (b or c) and d", "not (not a)",
    "(a := 1) + (b := 2)", "[x for x in (a if b else c)]", "[x for x in a if (b if c else d)]", "{**(a or b)}", "f(*(a or b), **(c or d))",
    "(a.b)(c)[d].e", "(1).real + 1.5.imag", "a[(b, c)]", "a[b:c, (d, e)]", "(*a, b)", "f'{(lambda: 1)()}'", "f'{(a := 1)}'",
]


def parse_expr(src):
    return ast.parse(src, mode="eval").body


def child_sample(kind):
    """one node of the kind, usable as a child"""
    if kind == "Starred":
        return parse_expr("[*s]").elts[0]
    if kind == "Slice":
        return parse_expr("a[1:2]").slice
    if kind == "FormattedValue":
        return parse_expr("f'{v}'").values[0]
    return parse_expr(KIND_SRC[kind][0])


def kind_samples(kind):
    return [(s, parse_expr(s)) for s in KIND_SRC.get(kind, [])]


def N(x):
    return ast.Name(id=x, ctx=ast.Load())


def _op(parent):
    return getattr(ast, parent.split(".")[1])()


def make_parent(parent, label, ch):
    """AST with `ch` at the position named by label (see contracts/c_expr_unparse.requested_children)"""
    L = label
    if L == "root":
        return ch
    if L == "Attribute.value":
        return ast.Attribute(value=ch, attr="x", ctx=ast.Load())
    if L == "Subscript.value":
        return ast.Subscript(value=ch, slice=N("i"), ctx=ast.Load())
    if L == "Subscript.slice":
        return ast.Subscript(value=N("a"), slice=ch, ctx=ast.Load())
    if L == "Subscript.slice.elts":
        return ast.Subscript(value=N("a"), slice=ast.Tuple(elts=[ch, child_sample("Slice")], ctx=ast.Load()), ctx=ast.Load())
    if L.startswith("Slice."):
        kw = dict(lower=None, upper=None, step=None)
        kw[L.split(".")[1]] = ch
        return ast.Subscript(value=N("a"), slice=ast.Slice(**kw), ctx=ast.Load())
    if L == "Call.func":
        return ast.Call(func=ch, args=[], keywords=[])
    if L == "Call.args[sole]":
        return ast.Call(func=N("f"), args=[ch], keywords=[])
    if L == "Call.args":
        return ast.Call(func=N("f"), args=[N("a"), ch], keywords=[])
    if L == "keyword.value":
        return ast.Call(func=N("f"), args=[], keywords=[ast.keyword(arg="k", value=ch), ast.keyword(arg=None, value=copy.deepcopy(ch))])
    if L == "Starred.value":
        return ast.List(elts=[ast.Starred(value=ch, ctx=ast.Load())], ctx=ast.Load())
    if L == "BinOp.left":
        return ast.BinOp(left=ch, op=_op(parent), right=N("z"))
    if L == "BinOp.right":
        return ast.BinOp(left=N("z"), op=_op(parent), right=ch)
    if L == "UnaryOp.operand":
        return ast.UnaryOp(op=_op(parent), operand=ch)
    if L == "BoolOp.values":
        return ast.BoolOp(op=_op(parent), values=[ch, N("z"), copy.deepcopy(ch)])
    if L == "Compare.left":
        return ast.Compare(left=ch, ops=[ast.Lt()], comparators=[N("z")])
    if L == "Compare.comparators":
        return ast.Compare(left=N("z"), ops=[ast.Lt(), ast.In()], comparators=[ch, copy.deepcopy(ch)])
    if L.startswith("IfExp."):
        kw = dict(test=N("t"), body=N("b"), orelse=N("o"))
        kw[L.split(".")[1]] = ch
        return ast.IfExp(**kw)
    if L == "Lambda.body":
        return ast.Lambda(args=ast.arguments(posonlyargs=[], args=[], kwonlyargs=[], kw_defaults=[], defaults=[]), body=ch)
    if L == "Lambda.defaults":
        return ast.Lambda(args=ast.arguments(posonlyargs=[], args=[ast.arg(arg="a")], kwonlyargs=[], kw_defaults=[], defaults=[ch]), body=N("a"))
    if L == "Lambda.kw_defaults":
        return ast.Lambda(args=ast.arguments(posonlyargs=[], args=[], kwonlyargs=[ast.arg(arg="k")], kw_defaults=[ch], defaults=[]), body=N("k"))
    if L in ("List.elts", "Tuple.elts", "Set.elts"):
        cls = getattr(ast, L.split(".")[0])
        if cls is ast.Set:
            return ast.Set(elts=[ch, N("z")])
        return cls(elts=[ch, N("z")], ctx=ast.Load())
    if L == "Dict.keys":
        return ast.Dict(keys=[ch], values=[N("v")])
    if L == "Dict.values":
        return ast.Dict(keys=[N("k")], values=[ch])
    if L == "Dict.values[double_star]":
        return ast.Dict(keys=[None], values=[ch])
    if L.startswith("comprehension."):
        kw = dict(target=ast.Name(id="x", ctx=ast.Store()), iter=N("it"), ifs=[], is_async=0)
        f = L.split(".")[1]
        if f == "ifs":
            kw["ifs"] = [ch, copy.deepcopy(ch)]
        else:
            kw[f] = ch
        return ast.ListComp(elt=N("e"), generators=[ast.comprehension(**kw), ast.comprehension(
            target=ast.Name(id="y", ctx=ast.Store()), iter=copy.deepcopy(ch) if f == "iter" else N("j"), ifs=[], is_async=0)])
    if L in ("ListComp.elt", "SetComp.elt", "GeneratorExp.elt"):
        cls = getattr(ast, L.split(".")[0])
        return cls(elt=ch, generators=[ast.comprehension(target=ast.Name(id="x", ctx=ast.Store()), iter=N("it"), ifs=[], is_async=0)])
    if L in ("DictComp.key", "DictComp.value"):
        kw = dict(key=N("k"), value=N("v"))
        kw[L.split(".")[1]] = ch
        return ast.DictComp(generators=[ast.comprehension(target=ast.Name(id="x", ctx=ast.Store()), iter=N("it"), ifs=[], is_async=0)], **kw)
    if L == "NamedExpr.value":
        return ast.NamedExpr(target=ast.Name(id="w", ctx=ast.Store()), value=ch)
    if L == "Yield.value":
        return ast.Yield(value=ch)
    if L == "YieldFrom.value":
        return ast.YieldFrom(value=ch)
    if L == "Await.value":
        return ast.Await(value=ch)
    if L == "FormattedValue.value":
        return ast.JoinedStr(values=[ast.FormattedValue(value=ch, conversion=-1, format_spec=None)])
    raise KeyError(label)


class _StripCtx(ast.NodeTransformer):
    def generic_visit(self, node):
        super().generic_visit(node)
        if hasattr(node, "ctx"):
            node.ctx = ast.Load()
        return node


class _DropEmptyPieces(ast.NodeTransformer):
    """an empty-string Constant inside a JoinedStr contributes nothing to the string; CPython's
    own parser inserts such pieces inconsistently (e.g. `f"{x:{{}}}"` gets one in front of the
    nested field of the spec, `f"{x:{ {}}}"` does not), so they are not part of the structure"""

    def visit_JoinedStr(self, node):
        self.generic_visit(node)
        node.values = [v for v in node.values if not (isinstance(v, ast.Constant) and v.value == "")]
        return node


def norm_dump(node):
    node = copy.deepcopy(node)
    node = _StripCtx().visit(node)
    node = _DropEmptyPieces().visit(node)
    return ast.dump(node)


def roundtrip(unparse, node):
    """-> (ok, text or error, detail)"""
    try:
        text = unparse(node)
    except BaseException as e:  # noqa: BLE001
        return False, None, f"unparser raised {type(e).__name__}: {e}"
    if "\n" in text or "\r" in text:
        return False, text, "output contains a line break"
    try:
        back = ast.parse(text, mode="eval").body
    except SyntaxError as e:
        return False, text, f"does not parse: {e.msg}"
    a, b = norm_dump(node), norm_dump(back)
    if a != b:
        return False, text, f"reparsed tree differs: {b}  !=  {a}"
    return True, text, ""
