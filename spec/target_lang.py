"""spec.target_lang -- the reading of the expression idioms the lowering emits (TRUSTED SPEC,
DESIGN.md section 4.2).

`Eval` walks an emitted tree -- real `ast` nodes whose leaves may be abstract nodes
(olvc Opaque objects carrying a `sem` contract), lists with segments and folds -- and
produces (a) the ordered trace of abstract events and (b) a value term.  Each clause cites
the Language Reference rule it encodes.  Nothing here looks at Oneliner-Py's source.

Events (tuples):
  ('ev', scope, e)                evaluation of the transformed source expression e in scope
  ('store', scope, name, val)     namespace store (contract of Namespace.get_assign)
  ('load', scope, name)           namespace load  (contract of Namespace.get_load_name)
  ('bind', name, val)             walrus on a plain name            [PEP 572]
  ('setattr', obj, attr, val)     setattr(o, 'a', v)  == o.a = v    [builtins]
  ('setitem', obj, idx, val)      o.__setitem__(i, v) == o[i] = v   [datamodel 3.3.7]
  ('getattr', obj, attr) ('getitem', obj, idx)
  ('call', f, args, kwargs)       any other call
  ('rep', n, j, rev, [events])    n rounds of a segment / comprehension over a segment
  ('choice', cond, [then], [else])
  ('loop', kind, target, iter, [element events])   comprehension as a loop
Value terms are tuples too: ('val', e) ('var', scope, name) ('const', c) ('tuple', v)
('list', v) ('idx', v, i) ('slice', lo, hi, step) ('app', f, args, kw) ('name', n) ...
"""
from __future__ import annotations

import ast

import z3

from olvc import ops
from olvc.sym import Fold, Opaque, Seg, SInt, Unsupported, tagstr, zint
from olvc.tmpl import Hole, Tmpl


class NotInFragment(Exception):
    """the emitted tree uses a construct the reading does not cover: obligation undecided"""


def nk(x):
    """key of an identifier (str or symbolic)"""
    if isinstance(x, str):
        return x
    if isinstance(x, Hole):
        return ("id", tagstr(x.tag))
    if isinstance(x, Tmpl) and len(x.parts) == 1:
        return nk(x.parts[0])
    raise NotInFragment(f"identifier {x!r}")


def is_reserved(x):
    """introduced by ol_name (contract: fresh, reserved prefix) or literally __ol_*"""
    if isinstance(x, str):
        return x.startswith("__ol_")
    if isinstance(x, Hole):
        return bool(x.props.get("fresh"))
    return False


def seq_arity(lst):
    """contract of the statement sequencer (proved in suites/c01 selector): 0 statements -> the
    constant `...`, exactly 1 -> THAT STATEMENT ITSELF (its value is whatever the statement's
    expression gives: a user object), more -> a list display / the chain-call runner (helper
    objects, always truthy).  -> 'one' | 'other' | 'unknown' under the current path condition"""
    from olvc import sym as _sym
    from olvc.sym import sym_len
    c = _sym.CTX
    n = sym_len(list(lst))
    if isinstance(n, int):
        return "one" if n == 1 else "other"
    if c is None:
        return "unknown"
    if c.valid(zint(n) == 1)[0]:
        return "one"
    if c.valid(zint(n) != 1)[0]:
        return "other"
    return "unknown"


def normal_run(x, fresh_own=None):
    """(fresh_own: for a reserved temporary made in a loop -- one name per round -- the round variable
    it was bound under; then a run that reads those temporaries by position is normalised like a run
    over a source run.)
    Normal form of a run whose items are the elements of ONE source run S: the run
    variable is S's own, and the direction says how S is traversed.  A loop written
    `for i in range(n - 1, -1, -1): use(S[i])` produces a forward run over a counter whose
    items are S[n-1-j]; that is the same sequence as `for e in reversed(S)`: S's own
    variable, reversed.  (Alpha- and mirror-normalisation; nothing else is changed.)"""
    if isinstance(x, Fold):
        probe = Seg(x.tag, x.length, x.jvar, [x.step], x.rev)
        n_ = normal_run(probe, fresh_own)
        if n_ is probe:
            return x
        return Fold(x.tag, x.length, n_.jvar, x.init, x.acc, n_.items[0], n_.rev)
    if not isinstance(x, Seg):
        return x
    found = set()

    def scan(t):
        if isinstance(t, tuple):
            if len(t) == 2 and isinstance(t[0], str) and z3.is_expr(t[1]):
                found.add((t[0], t[1]))
            for y in t:
                scan(y)
        elif isinstance(t, Opaque):
            scan(t.tag)
            sem = t.props.get("sem")
            if sem:
                for y in sem[1:]:
                    if isinstance(y, (Opaque, tuple)):
                        scan(y)
    for it in x.items:
        if isinstance(it, (Opaque, tuple)):
            scan(it)
        elif isinstance(it, ast.AST):
            for n_ in ast.walk(it):
                for f_ in getattr(n_, "_fields", ()):
                    v_ = getattr(n_, f_, None)
                    for y in (v_ if isinstance(v_, list) else [v_]):
                        if isinstance(y, Opaque):
                            scan(y)
                        elif fresh_own is not None and isinstance(y, Hole) and isinstance(y.tag, tuple) and len(y.tag) == 4 and y.tag[0] == "fresh" and z3.is_expr(y.tag[3]):
                            found.add((("fresh", y.tag[1], y.tag[2]), y.tag[3]))
    mention = [(nm, ix) for nm, ix in found if any(str(d) == str(x.jvar) for d in _vars_of(ix))]
    names = {nm for nm, _ in mention}
    idxs = {str(z3.simplify(ix)) for _, ix in mention}
    if len(names) != 1 or len(idxs) != 1:
        return x
    nm, ix = mention[0]
    own = z3.Int(f"j_{nm}") if isinstance(nm, str) else fresh_own(nm)
    if own is None:
        return x
    n = zint(x.length)
    if z3.simplify(ix - x.jvar).eq(z3.IntVal(0)):
        if str(own) == str(x.jvar):
            return x
        return Seg(x.tag, x.length, own, [ops.subst_j(i, x.jvar, own) for i in x.items], x.rev, x.cls_note)
    if z3.simplify(ix - (n - 1 - x.jvar)).eq(z3.IntVal(0)):
        return Seg(x.tag, x.length, own, [ops.subst_j(i, x.jvar, z3.simplify(n - 1 - own)) for i in x.items], not x.rev, x.cls_note)
    return x


def _vars_of(t):
    out = []
    todo = [t]
    while todo:
        e = todo.pop()
        if z3.is_const(e) and e.decl().kind() == z3.Z3_OP_UNINTERPRETED:
            out.append(e)
        todo.extend(e.children())
    return out


class Eval:
    def __init__(self, env=None):
        self.tr = []          # event trace (current list being appended to)
        self.env = dict(env or {})  # reserved temporaries: name key -> value term
        self.fresh_binds = {}
        self.env_writes = []        # keys in order of binding
        self.refs = []        # free plain-name references (hygiene)
        self.binders = []     # introduced binders: (key, identifier, kind)
        self.lambdas = {}     # id -> (arguments, body tree)
        self.depth_max = 0
        self._lam = 0

    # ------------------------------------------------------------------------------
    def emit(self, *ev):
        self.tr.append(ev)

    def round_of(self, run, fn):
        """evaluate fn as ONE GENERIC ROUND of a run (segment): like sub(), and afterwards
        every reserved temporary that the round binds under a name which does not change
        with the round holds what the LAST round stored -- not the generic round's value"""
        mark = len(self.env_writes)
        evs, r = self.sub(fn)
        j = str(run.jvar)
        for key in self.env_writes[mark:]:
            if j not in repr(key) and key in self.env and not (isinstance(self.env[key], tuple) and self.env[key][:1] == ("last-round-value",)):
                self.env[key] = ("last-round-value", repr(key), tagstr(run.tag) if hasattr(run, "tag") else j)
        return evs, r

    def sub(self, fn):
        """run fn with a fresh event list; returns (events, result)"""
        saved = self.tr
        self.tr = []
        try:
            r = fn()
            return self.tr, r
        finally:
            self.tr = saved

    # ------------------------------------------------------------------------------
    def seq(self, lst):
        """evaluate a list of expressions in order (list display / Seq contract)"""
        vals = []
        for x in lst:
            x = normal_run(x)
            if isinstance(x, Seg):
                evs, v = self.round_of(x, lambda x=x: [self.expr(i) for i in x.items])
                if evs:
                    self.emit("rep", x.length, x.jvar, x.rev, evs)
                vals.append(("segvals", x.length, x.jvar, x.rev, tuple(v)))
            else:
                vals.append(self.expr(x))
        return vals

    def expr(self, e):
        if isinstance(e, Opaque):
            return self.abstract(e)
        if isinstance(e, Fold):
            return self.fold(e)
        if e is None:
            return ("const", None)
        m = getattr(self, "x_" + type(e).__name__, None)
        if m is None:
            raise NotInFragment(f"emitted node {type(e).__name__}")
        return m(e)

    # -- abstract nodes (contracts of callees) ---------------------------------------
    def abstract(self, o):
        sem = o.props.get("sem")
        if sem is None:
            raise NotInFragment(f"opaque node without a contract: {o!r}")
        k = sem[0]
        if k == "T":  # expr_transf(nsp, e): same evaluation events as e, names routed through nsp
            _, scope, e = sem
            self.emit("ev", scope, tagstr(e.tag))
            return ("val", tagstr(e.tag))
        if k == "store":  # nsp.get_assign(name, value): evaluates value, then stores
            _, scope, name, value = sem
            v = self.expr(value)
            self.emit("store", scope, nk(name), v)
            return ("storeresult", v)
        if k == "load":
            _, scope, name = sem
            self.emit("load", scope, nk(name))
            return ("var", scope, nk(name))
        if k == "seq":  # expr_wraper(list): every element once, in order
            _, lst = sem
            self.seq(lst)
            return ("seqresult", seq_arity(lst))
        if k == "R":  # converted child statement(s): opaque effect
            self.emit("stmt", sem[1])
            return ("none",)
        if k == "flag":  # flow-control flag expression of a level
            return ("flag", sem[1])
        if k == "raw":  # a source node used without transformation
            self.emit("rawev", tagstr(sem[1].tag))
            return ("rawval", tagstr(sem[1].tag))
        raise NotInFragment(f"contract {k}")

    def fold(self, f):
        """F(0)=init, F(k+1)=step[acc:=F(k)] -- the finished tree is
        step_last(step_..(step_first(init))).  Evaluating it runs, for every round from the
        OUTERMOST inwards, what the step evaluates before its accumulator, then init, then,
        from the innermost round outwards, what the step evaluates after it."""
        f = normal_run(f, self.fresh_binds.get)
        marker = ("acc", tagstr(f.acc.tag))
        saved = self.abstract

        def abstract2(o):
            if o is f.acc or (isinstance(o, Opaque) and o.tag == f.acc.tag):  # (normalisation copies the step)
                self.emit("accref")
                return marker
            return saved(o)
        self.abstract = abstract2
        try:
            evs, v = self.round_of(f, lambda: self.expr(f.step))
        finally:
            self.abstract = saved
        idx = [i for i, e in enumerate(evs) if e == ("accref",)]
        if len(idx) != 1:
            raise NotInFragment("fold step must evaluate its accumulator exactly once")
        pre, post = evs[:idx[0]], evs[idx[0] + 1:]
        # rounds run j = 0..n-1 (f.rev: n-1..0); the last round is the outermost node
        outer_first_rev = not f.rev  # outermost = largest j when rounds ascend
        if pre:
            self.emit("rep", f.length, f.jvar, outer_first_rev, pre)
        init_v = self.expr(f.init)
        if post:
            self.emit("rep", f.length, f.jvar, not outer_first_rev, post)
        return ("foldval", tagstr(f.tag), init_v)

    # -- real nodes -------------------------------------------------------------------
    def x_Constant(self, e):
        v = e.value
        if isinstance(v, SInt):
            return ("const", v.t)
        if isinstance(v, (Hole, Tmpl)):
            return ("const", ("str", nk(v)))
        return ("const", v)

    def x_Name(self, e):
        key = nk(e.id)
        if key in self.env:
            return self.env[key]
        self.refs.append((key, e.id))
        return ("name", key)

    def x_NamedExpr(self, e):
        v = self.expr(e.value)
        t = e.target
        if isinstance(t, Opaque):
            raise NotInFragment("walrus target is not a Name")
        if not isinstance(t, ast.Name):
            self.emit("bad-walrus-target", type(t).__name__)
            return v
        key = nk(t.id)
        if isinstance(t.id, Hole) and isinstance(t.id.tag, tuple) and len(t.id.tag) == 4 and t.id.tag[0] == "fresh" and z3.is_expr(t.id.tag[3]) and z3.is_const(t.id.tag[3]):
            self.fresh_binds[("fresh", t.id.tag[1], t.id.tag[2])] = t.id.tag[3]   # a temporary per round of the loop it is made in
        if is_reserved(t.id):
            self.env[key] = v
            self.env_writes.append(key)
            self.emit("tmpbind", key, v)
        else:
            self.emit("bind", key, v)
        self.binders.append((key, t.id, "walrus"))
        return v

    def x_Attribute(self, e):
        o = self.expr(e.value)
        self.emit("getattr", o, nk(e.attr))
        return ("attr", o, nk(e.attr))

    def x_Subscript(self, e):
        o = self.expr(e.value)
        i = self.expr(e.slice)
        self.emit("getitem", o, i)
        return ("idx", o, i)

    def x_Slice(self, e):
        return ("slice", self.expr(e.lower), self.expr(e.upper), self.expr(e.step))

    def x_Starred(self, e):
        return ("star", self.expr(e.value))

    def x_List(self, e):
        return ("listdisp", tuple(self.seq(e.elts)))

    def x_Tuple(self, e):
        return ("tupledisp", tuple(self.seq(e.elts)))

    def x_Dict(self, e):
        ks, vs = e.keys, e.values
        out = []
        if len(ks) != len(vs):
            raise NotInFragment("dict display with different key/value structure")
        for k, v in zip(ks, vs):
            if isinstance(k, Seg):
                if not isinstance(v, Seg):
                    raise NotInFragment("dict display: misaligned segments")
                vi = [ops.subst_j(i, v.jvar, k.jvar) for i in v.items]
                evs, r = self.round_of(k, lambda: [(self.expr(a), self.expr(b)) for a, b in zip(k.items, vi)])
                if evs:
                    self.emit("rep", k.length, k.jvar, k.rev, evs)
                out.append(("segvals", k.length, k.jvar, k.rev, tuple(r)))
            else:
                out.append((self.expr(k), self.expr(v)))
        return ("dictdisp", tuple(out))

    def x_UnaryOp(self, e):
        v = self.expr(e.operand)
        if isinstance(e.op, ast.Not) and denotes_source_value(v):
            # `not x` asks x for its truth value (data model: __bool__ / __len__ of a user object may run)
            self.emit("truthask", v)
        return ("unary", type(e.op).__name__, v)

    def x_BinOp(self, e):
        l = self.expr(e.left)
        r = self.expr(e.right)
        op = e.op
        opn = type(op).__name__ if not isinstance(op, Opaque) else ("op", tagstr(op.tag))
        self.emit("binop", opn, l, r)
        return ("binop", opn, l, r)

    def x_BoolOp(self, e):
        # x and y: y evaluated only if x is true; x or y: only if x is false   [expressions 6.11]
        vals = e.values
        if any(isinstance(v, Seg) for v in vals):
            raise NotInFragment("BoolOp over a segment")
        is_and = isinstance(e.op, ast.And)

        def rest(i):
            v = self.expr(vals[i])
            if i == len(vals) - 1:
                return v
            evs, r = self.sub(lambda: rest(i + 1))
            if is_and:
                self.emit("choice", v, evs, [])
            else:
                self.emit("choice", v, [], evs)
            return ("boolop", "and" if is_and else "or", v, r)
        return rest(0)

    def x_IfExp(self, e):
        t = self.expr(e.test)
        a, av = self.sub(lambda: self.expr(e.body))
        b, bv = self.sub(lambda: self.expr(e.orelse))
        self.emit("choice", t, a, b)
        return ("ifexp", t, av, bv)

    def x_Compare(self, e):
        l = self.expr(e.left)
        rs = [self.expr(c) for c in e.comparators]
        return ("compare", tuple(type(o).__name__ for o in e.ops), l, tuple(rs))

    def x_Lambda(self, e):
        self._lam += 1
        lid = self._lam
        a = e.args
        for d in self._plain(a.defaults):
            self.expr(d)
        for d in self._plain(a.kw_defaults):
            if d is not None:
                self.expr(d)
        self.lambdas[lid] = e
        return ("lambda", lid)

    @staticmethod
    def _plain(lst):
        out = []
        for x in lst:
            if isinstance(x, Seg):
                raise NotInFragment("lambda defaults with segments: use the function contract")
            out.append(x)
        return out

    def x_ListComp(self, e):
        # [elt for T in it]: it evaluated once in the enclosing scope; elt once per item,
        # T local to the comprehension   [expressions 6.2.4]
        if len(e.generators) != 1:
            raise NotInFragment("comprehension with several clauses")
        g = e.generators[0]
        if isinstance(g, Opaque) or g.ifs:
            raise NotInFragment("comprehension clause")
        it = self.expr(g.iter)
        body, bv = self.sub(lambda: self.expr(e.elt))
        tgt = g.target
        self.emit("loop", "listcomp", self.target_key(tgt), it, body)
        return ("listcomp",)

    def target_key(self, t):
        if isinstance(t, Opaque):
            return ("srctarget", tagstr(t.tag))
        if isinstance(t, ast.Name):
            self.binders.append((nk(t.id), t.id, "comp-target"))
            return ("name", nk(t.id))
        if isinstance(t, (ast.Tuple, ast.List)):
            return ("tuple", tuple(self.target_key(x) for x in t.elts))
        raise NotInFragment("comprehension target")

    def x_Call(self, e):
        f = e.func
        # method idioms on a receiver
        if isinstance(f, ast.Attribute) and isinstance(f.attr, str):
            if f.attr == "__setitem__" and len(e.args) == 2 and not e.keywords:
                o = self.expr(f.value)
                i = self.expr(e.args[0])
                v = self.expr(e.args[1])
                self.emit("setitem", o, i, v)
                return ("none",)
        if isinstance(f, ast.Name) and isinstance(f.id, str) and f.id not in self.env:
            name = f.id
            if name == "setattr" and len(e.args) == 3 and not e.keywords:
                self.refs.append((name, name))
                o = self.expr(e.args[0])
                a = self.expr(e.args[1])
                v = self.expr(e.args[2])
                self.emit("setattr", o, a, v)
                return ("none",)
            if name in ("tuple", "list", "slice", "hasattr", "globals", "locals", "iter", "next", "classmethod",
                        "__import__") and not e.keywords:
                self.refs.append((name, name))
                args = self.seq(e.args)
                if name in ("tuple", "list") and len(args) == 1:
                    # tuple(x) / list(x): iterates x once, left to right   [builtins]
                    if not (isinstance(args[0], tuple) and args[0][0] in ("idx", "tuple", "list") and _pure_snapshot(args[0])):
                        self.emit("iterate", args[0])
                    return (name, args[0])
                if name == "slice":
                    return ("slice",) + tuple(args)
                if name == "hasattr":
                    return ("hasattr",) + tuple(args)
                if name == "globals" and not args:
                    return ("globals",)
                if name == "locals" and not args:
                    return ("locals",)
                self.emit("call", ("builtin", name), tuple(args), ())
                return ("app", ("builtin", name), tuple(args), ())
        fv = self.expr(f)
        args = self.seq(e.args)
        kws = []
        for k in e.keywords:
            if isinstance(k, Seg):
                evs, r = self.round_of(k, lambda: [(nk(i.arg) if i.arg is not None else None, self.expr(i.value)) for i in k.items])
                if evs:
                    self.emit("rep", k.length, k.jvar, k.rev, evs)
                kws.append(("segvals", k.length, k.jvar, k.rev, tuple(r)))
            else:
                kws.append((nk(k.arg) if k.arg is not None else None, self.expr(k.value)))
        self.emit("call", fv, tuple(args), tuple(kws))
        return ("app", fv, tuple(args), tuple(kws))


def _pure_snapshot(t):
    """indexing/slicing of a tuple() snapshot has no side effect"""
    while isinstance(t, tuple) and t and t[0] in ("idx",):
        t = t[1]
    return isinstance(t, tuple) and t and t[0] == "tuple"


# ----------------------------------------------------------------------------------------
# normalisation of traces for comparison


def denotes_source_value(term):
    """may the value term be an object produced by a source expression (whose __bool__ is the user's)?"""
    if isinstance(term, tuple) and term:
        if term[0] == "val":
            return True
        if term[0] == "boolop":
            return denotes_source_value(term[2]) or denotes_source_value(term[3])
        if term[0] == "ifexp":
            return denotes_source_value(term[2]) or denotes_source_value(term[3])
    return False


def observable(tr, keep_tmp=False):
    """drop events that are internal to the lowering: binds of reserved temporaries and
    reads of tuple() snapshots; recursively"""
    out = []
    for ev in tr:
        k = ev[0]
        if k == "tmpbind" and not keep_tmp:
            continue
        if k == "getitem" and _pure_snapshot(ev[1]):
            continue
        if k == "rep":
            inner = observable(ev[4], keep_tmp)
            if inner:
                out.append(("rep", ev[1], ev[2], ev[3], inner))
            continue
        if k == "choice":
            out.append(("choice", ev[1], observable(ev[2], keep_tmp), observable(ev[3], keep_tmp)))
            continue
        if k == "loop":
            out.append(("loop", ev[1], ev[2], ev[3], observable(ev[4], keep_tmp)))
            continue
        out.append(ev)
    return out


def term_eq(c, a, b):
    """structural equality of terms/traces; z3 integer terms by validity under the pc"""
    if z3.is_expr(a) or z3.is_expr(b) or isinstance(a, SInt) or isinstance(b, SInt):
        try:
            za, zb = _z(a), _z(b)
        except Exception:  # noqa: BLE001
            return False
        ok, _ = c.valid(za == zb)
        return ok
    if isinstance(a, (tuple, list)) and isinstance(b, (tuple, list)):
        if len(a) != len(b):
            return False
        return all(term_eq(c, x, y) for x, y in zip(a, b))
    if isinstance(a, (Hole, Opaque)) or isinstance(b, (Hole, Opaque)):
        return isinstance(a, type(b)) and a.tag == b.tag
    try:
        return type(a) is type(b) and a == b
    except Exception:  # noqa: BLE001
        return a is b


def _z(x):
    if isinstance(x, SInt):
        return x.t
    if z3.is_expr(x):
        return x
    if isinstance(x, int) and not isinstance(x, bool):
        return z3.IntVal(x)
    raise TypeError


def show(tr, ind=0):
    out = []
    pad = "  " * ind
    for ev in tr:
        if ev[0] == "rep":
            out.append(f"{pad}rep x{ev[1]!r}{' reversed' if ev[3] else ''} over {ev[2]}:")
            out.append(show(ev[4], ind + 1))
        elif ev[0] == "choice":
            out.append(f"{pad}if {ev[1]!r}:")
            out.append(show(ev[2], ind + 1))
            out.append(f"{pad}else:")
            out.append(show(ev[3], ind + 1))
        elif ev[0] == "loop":
            out.append(f"{pad}for {ev[2]!r} in {ev[3]!r}:")
            out.append(show(ev[4], ind + 1))
        else:
            out.append(pad + repr(ev))
    return "\n".join(x for x in out if x)
