"""spec.control -- trace semantics of the control idioms (TRUSTED SPEC, DESIGN 4.2 `Sem`).

Extends the idiom reading with boolean run-time flags.  Evaluating an emitted tree yields,
for every converted child statement R(c) and every transformed source expression T(e), the
CONDITION (z3 Bool over symbolic child outcomes and truth atoms) under which it executes,
in order.  Child contract (induction hypothesis of C05, lemma A4): executing R(c) from a
state where the level's flag is false leaves the flag equal to o_c ("c interrupted this
level"); plain statements have o_c = false.
"""
from __future__ import annotations

import ast

import z3

from olvc.sym import Opaque, Seg, tagstr
from spec import target_lang as TL


class _Timed(list):
    """list whose entries remember the logical time at which they were appended"""

    def __init__(self, owner):
        super().__init__()
        self.owner = owner
        self.times = []

    def append(self, x):
        self.owner.clock += 1
        self.times.append(self.owner.clock)
        super().append(x)


class Sem(TL.Eval):
    def __init__(self, flags=None, outcomes=None):
        super().__init__()
        self.cond = z3.BoolVal(True)
        self.state = dict(flags or {})     # flag key -> z3 Bool
        self.outcomes = outcomes or {}     # child tag -> {flag key: z3 Bool}
        self.execs = _Timed(self)          # (kind, tag, cond)
        self.writes = _Timed(self)         # (flag key, value, cond)
        self.clock = 0

    # -- flags ------------------------------------------------------------------------
    def flag_key(self, e):
        if isinstance(e, Opaque) and e.props.get("sem", (None,))[0] == "flag":
            return ("flag", e.props["sem"][1])
        if isinstance(e, ast.Name):
            k = ("name", TL.nk(e.id))
            return k if k in self.state else None
        if isinstance(e, ast.Attribute) and isinstance(e.value, ast.Name) and e.attr == "_break":
            k = ("brk", TL.nk(e.value.id))
            return k if k in self.state else None
        return None

    def set_flag(self, key, value):
        old = self.state[key]
        self.state[key] = z3.simplify(z3.If(self.cond, z3.BoolVal(value), old))
        self.writes.append((key, value, self.cond))

    def bool_of(self, e):
        """truth value of an expression as z3 Bool, evaluating it (events are recorded)"""
        k = self.flag_key(e)
        if k is not None:
            return self.state[k]
        if isinstance(e, ast.UnaryOp) and isinstance(e.op, ast.Not):
            return z3.Not(self.bool_of(e.operand))
        if isinstance(e, ast.Constant) and isinstance(e.value, (bool, int, type(None))) or (isinstance(e, ast.Constant) and e.value is Ellipsis):
            return z3.BoolVal(bool(e.value))
        if isinstance(e, ast.BoolOp) and not any(isinstance(v, Seg) for v in e.values):
            is_and = isinstance(e.op, ast.And)
            saved = self.cond
            acc = None
            try:
                for v in e.values:
                    b = self.bool_of(v)
                    acc = b if acc is None else (z3.And(acc, b) if is_and else z3.Or(acc, b))
                    # the next operand is evaluated only if the result is still open
                    self.cond = z3.And(saved, acc if is_and else z3.Not(acc))
            finally:
                self.cond = saved
            return acc
        if isinstance(e, Opaque):
            sem = e.props.get("sem")
            if sem and sem[0] == "T":
                tag = tagstr(sem[2].tag)
                self.execs.append(("ev", tag, self.cond))
                return z3.Bool(f"truth:{tag}")
        v = self.expr(e)
        return z3.Bool(f"truth:{v!r}")

    # -- overrides ----------------------------------------------------------------------
    def abstract(self, o):
        sem = o.props.get("sem")
        if sem and sem[0] == "R":
            tag = sem[1]
            self.execs.append(("stmt", tag, self.cond))
            for key, oc in self.outcomes.get(tag, {}).items():
                self.state[key] = z3.simplify(z3.Or(self.state[key], z3.And(self.cond, oc)))
            return ("none",)
        if sem and sem[0] == "T":
            self.execs.append(("ev", tagstr(sem[2].tag), self.cond))
            return ("val", tagstr(sem[2].tag))
        if sem and sem[0] == "flag":
            return ("flagval", sem[1])
        if sem and sem[0] == "seq":
            self.seq(sem[1])
            return ("seqresult", TL.seq_arity(sem[1]))
        return super().abstract(o)

    def fold(self, f):
        """see target_lang.Eval.fold: what the step evaluates before its accumulator (for
        all rounds, outermost first), then the initial value, then what it evaluates after"""
        f = TL.normal_run(f, getattr(self, "fresh_binds", {}).get)
        marker = ("acc", tagstr(f.acc.tag))
        saved_abs, saved_execs = self.abstract, self.execs
        pos = {}
        self.execs = _Timed(self)

        def abstract2(o):
            if o is f.acc or (isinstance(o, Opaque) and o.tag == f.acc.tag):
                if "i" in pos:
                    raise TL.NotInFragment("fold step evaluates its accumulator twice")
                pos["i"] = len(self.execs)
                return marker
            return saved_abs(o)
        self.abstract = abstract2
        try:
            self.expr(f.step)
            step_execs = list(self.execs)
        finally:
            self.abstract, self.execs = saved_abs, saved_execs
        if "i" not in pos:
            raise TL.NotInFragment("fold step never evaluates its accumulator")
        run = lambda e: ("stmts" if e[0] == "stmt" else e[0], e[1], e[2])
        for e in step_execs[:pos["i"]]:
            self.execs.append(run(e))
        v = self.expr(f.init)
        for e in step_execs[pos["i"]:]:
            self.execs.append(run(e))
        return ("foldval", tagstr(f.tag), v)

    def seq(self, lst):
        vals = []
        for x in lst:
            if isinstance(x, Seg):
                # a run of children: only outcome-free (plain) children may be summarised
                for it in x.items:
                    sem = it.props.get("sem") if isinstance(it, Opaque) else None
                    if not (sem and sem[0] == "R"):
                        raise TL.NotInFragment("segment of non-statement nodes in a control context")
                    if self.outcomes.get(sem[1]):
                        raise TL.NotInFragment("a summarised run contains a statement that may interrupt")
                    self.execs.append(("stmts", sem[1], self.cond))
                vals.append(("none",))
            else:
                vals.append(self.expr(x))
        return vals

    def x_IfExp(self, e):
        t = self.bool_of(e.test)
        saved = self.cond
        try:
            self.cond = z3.And(saved, t)
            a = self.expr(e.body)
            self.cond = z3.And(saved, z3.Not(t))
            b = self.expr(e.orelse)
        finally:
            self.cond = saved
        return ("ifexp", a, b)

    def x_BoolOp(self, e):
        self.bool_of(e)
        return ("boolval",)

    def x_NamedExpr(self, e):
        t = e.target
        if isinstance(t, ast.Name):
            k = ("name", TL.nk(t.id))
            if k in self.state and isinstance(e.value, ast.Constant) and isinstance(e.value.value, bool):
                self.set_flag(k, e.value.value)
                return ("const", e.value.value)
        return super().x_NamedExpr(e)

    def x_Call(self, e):
        f = e.func
        if isinstance(f, ast.Name) and f.id == "setattr" and len(e.args) == 3 and isinstance(e.args[0], ast.Name) \
                and isinstance(e.args[1], ast.Constant) and e.args[1].value == "_break" and isinstance(e.args[2], ast.Constant):
            k = ("brk", TL.nk(e.args[0].id))
            if k in self.state:
                self.set_flag(k, bool(e.args[2].value))
                return ("none",)
        return super().x_Call(e)


def same_execs(c, got, want, why):
    """[(kind, tag, cond)] equal as sequences with equivalent conditions (never-executed
    entries are dropped)"""
    def live(xs):
        out = []
        for k, t, cd in xs:
            cd = z3.simplify(cd)
            if z3.is_false(cd):
                continue
            ok, _ = c.valid(z3.Not(cd))
            if ok:
                continue
            out.append((k, t, cd))
        return out
    def coalesce(xs):
        """head-peeled runs: '(B 0)' followed by '(B 1 + j)' is the run B again, provided
        both parts execute under equivalent conditions"""
        out = []
        for k, t, cd in xs:
            name = t[1:].split(" ")[0] + "*" if isinstance(t, str) and t.startswith("(") else None
            if name is not None:
                if out and out[-1][1] == name and c.valid(out[-1][2] == cd)[0]:
                    continue
                out.append(("stmts", name, cd))
            else:
                out.append((k, t, cd))
        return out
    g, w = coalesce(live(got)), coalesce(live(want))
    if [(k, t) for k, t, _ in g] != [(k, t) for k, t, _ in w]:
        why.append(f"executed items differ: {[(k, t) for k, t, _ in g]} vs {[(k, t) for k, t, _ in w]}")
        return False
    for (k, t, a), (_, _, b) in zip(g, w):
        ok, m = c.valid(a == b)
        if not ok:
            why.append(f"{k} {t} runs under {a} in the lowered form but under {b} in Python; model {m}")
            return False
    return True
