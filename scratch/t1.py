import ast, sys, z3
sys.path.insert(0, '/verif')
from olvc import extract, sym
from olvc.evaluator import Machine
from olvc.runner import explore
from olvc.sym import Opaque, Seg, SInt
from olvc.tmpl import Hole
from olvc.interp import IRaise, IStop

eu = extract.repo_module('oneliner.expr_unparse')

def drive(m, gen, answer):
    """drive an IGen: returns (yields, result)"""
    ys = []
    sent = None
    while True:
        try:
            y = gen.send(sent)
        except IRaise as e:
            if isinstance(e.exc, IStop):
                return ys, e.exc.value
            raise
        ys.append(y)
        sent = answer(y)

def mk_seg(tag, cls):
    n = z3.Int('n_'+tag); j = z3.Int('j_'+tag)
    sym.ctx().assume(n >= 0)
    return Seg(tag, SInt(n), j, [Opaque((tag, j), cls)])

def run_list(c):
    m = Machine()
    node = ast.List(elts=[mk_seg('E', ast.expr)], ctx=ast.Load())
    g = m.call_value(eu.unparse_List, node)
    return drive(m, g, lambda y: Hole(('txt', y[1].tag), 'text'))

for p in explore(run_list):
    print(p.kind, p.value, p.ctx.trace, p.ctx.pc)

def run_call(c):
    m = Machine()
    kws = mk_seg('K', ast.keyword)
    node = ast.Call(func=Opaque('F', ast.expr), args=[mk_seg('A', ast.expr)], keywords=[kws])
    g = m.call_value(eu.unparse_Call, node)
    return drive(m, g, lambda y: Hole(('txt', y[1].tag), 'text'))
for p in explore(run_call):
    print(p.kind, p.value, p.ctx.pc)

def run_binop(c):
    m = Machine()
    node = ast.BinOp(left=Opaque('L', ast.expr), op=ast.Pow(), right=Opaque('R', ast.expr))
    g = m.call_value(eu.unparse_BinOp, node)
    return drive(m, g, lambda y: Hole(('txt', y[1].tag), 'text'))
for p in explore(run_binop):
    print(p.kind, p.value, p.ctx.pc)
