import sys; sys.path.insert(0,'/verif')
from contracts import c_expr_unparse as CU
from olvc.evaluator import Machine
from olvc.runner import explore
import olvc.machine as M, traceback
eu=CU.eu()
orig=M._b_isinstance
def dbg(it,args,kw):
    from olvc.sym import Seg
    if isinstance(args[0], Seg): traceback.print_stack(limit=12)
    return orig(it,args,kw)
M.BUILTIN_HANDLERS[isinstance]=dbg
def run(c):
    node = CU.node_shapes()['Subscript'][1][1]()
    m = Machine()
    gen = m.call_value(eu.unparse_Subscript, node)
    return CU.drive(gen, compose=(m,'"'))
for p in explore(run): print(p.kind, p.value if p.kind!='ok' else p.value[1], p.ctx.signature())
