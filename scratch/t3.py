import sys; sys.path.insert(0,'/verif')
from contracts import c_expr_unparse as CU
from olvc.evaluator import Machine
from olvc.runner import explore
import traceback
eu=CU.eu()
def run(c):
    node = CU.node_shapes()['Lambda'][0][1]()
    m = Machine()
    gen = m.call_value(eu.unparse_Lambda, node)
    return CU.drive(gen)
for p in explore(run): print(p.kind, p.value if p.kind!='ok' else p.value[1], p.ctx.signature())
import olvc.evaluator as E
orig = E.Machine.sym_list_set
def dbg(self, lst, idx, v):
    from olvc.sym import ctx
    c=ctx(); seg, r = self._locate_round(lst, idx)
    cur, j = c.generic[-1]
    print('idx', idx, 'r', r, 'j', j, 'seg', seg, 'cur', cur, c.valid(r==j), c.pc[-4:])
    return orig(self, lst, idx, v)
E.Machine.sym_list_set = dbg
explore(run)
