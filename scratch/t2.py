import ast, sys, random, glob, time
sys.path.insert(0, '/verif')
from olvc import extract, sym
from olvc.evaluator import Machine
from olvc.runner import explore
ol = extract.repo_module('oneliner')
cfgm = extract.repo_module('oneliner.config')

def both(src, **opts):
    def mk():
        c = cfgm.Configs()
        for k,v in opts.items(): setattr(c,k,v)
        return c
    random.seed(1); cfg = mk()
    native = ol.convert_code_string(src, configs=cfg)
    def run(c):
        random.seed(1)
        m = Machine()
        r = m.call_value(ol.convert_code_string, src, configs=mk())
        return r, m.calls_interpreted
    ps = explore(run)
    assert len(ps)==1, ps
    p = ps[0]
    if p.kind != 'ok': return 'FAIL', p
    return ('same' if p.value[0]==native else 'DIFF', p.value[1])

t=time.time()
for f in sorted(glob.glob('/repo/oneliner_tests/test_cases/*.py')):
    src=open(f).read()
    for opts in ({}, dict(unparser='oneliner', expr_wrapper='list', if_style='short_circuit')):
        print(f.split('/')[-1], opts and 'alt', both(src, **opts))
print(time.time()-t)
