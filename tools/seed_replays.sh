#!/bin/sh
# usage: tools/seed_replays.sh <seed-id>  -- apply, run its property's check, list replay results, revert
S=$1; D=/verif/seeded/$S
P=$(python3 -c "import json;print(json.load(open('$D/meta.json'))['property'])")
cd /repo && git apply $D/patch.diff || exit 9
cd /verif; export VERIF_EVIDENCE_DIR=/tmp/verif_scratch_evidence; mkdir -p $VERIF_EVIDENCE_DIR
./check $P quick > /tmp/seed_replays.log 2>&1
cd /repo && git checkout -- .
python3 - <<PY
import re,json
for m in re.finditer(r"^VIOLATION property=(\S+) replay=(\S+)( no-failing-input-found)?", open('/tmp/seed_replays.log').read(), re.M):
    d=json.load(open(m.group(2)))
    print(("NOINPUT " if m.group(3) else "INPUT   ")+d['obligation'][:150], "| replay_input:", str(d.get('replay_input'))[:80])
PY
