#!/usr/bin/env python3
"""tools/seed_sweep.py [seed ...] -- apply every stored seeded change (/verif/seeded/<id>/patch.diff)
to /repo, run the quick check of the property it targets, revert, and record whether the check
reports a violation (exit 1 + VIOLATION line).  Writes /verif/seeded/SWEEP.json.
Evidence of these runs goes to a scratch directory (never to /verif/evidence)."""
import json
import os
import re
import subprocess
import sys
import tempfile

V = os.path.dirname(os.path.dirname(os.path.abspath(__file__)))
REPO = os.environ.get("VERIF_REPO", "/repo")


def main():
    seeds = sys.argv[1:] or sorted(d for d in os.listdir(os.path.join(V, "seeded")) if os.path.isdir(os.path.join(V, "seeded", d)) and not d.startswith("benign"))
    if subprocess.run(["git", "-C", REPO, "status", "--porcelain"], capture_output=True, text=True).stdout.strip():
        print("refusing: /repo working tree is not clean")
        return 2
    scratch = tempfile.mkdtemp(prefix="verif_sweep_")
    env = dict(os.environ, VERIF_EVIDENCE_DIR=scratch)
    out = {}
    path = os.path.join(V, "seeded", "SWEEP.json")
    if sys.argv[1:] and os.path.exists(path):
        out = json.load(open(path))
    baseline = {}
    for s in seeds:
        d = os.path.join(V, "seeded", s)
        meta = json.load(open(os.path.join(d, "meta.json")))
        prop = meta["property"]
        if prop not in baseline:  # the check must be quiet on the unchanged tree, or nothing it says counts
            b = subprocess.run([os.path.join(V, "check"), prop, "quick"], capture_output=True, text=True, env=env, cwd=V)
            baseline[prop] = b.returncode
            if b.returncode != 0:
                print(f"BASELINE {prop} exit {b.returncode} on the unchanged tree: results for its seeds are void")
        if baseline[prop] != 0:
            out[s] = dict(property=prop, applies=True, caught=False, error=f"baseline exit {baseline[prop]}")
            continue
        r = subprocess.run(["git", "-C", REPO, "apply", os.path.join(d, "patch.diff")], capture_output=True, text=True)
        if r.returncode != 0:
            out[s] = dict(property=prop, applies=False, error=r.stderr.strip()[:200])
            print(s, "PATCH DOES NOT APPLY")
            continue
        try:
            r = subprocess.run([os.path.join(V, "check"), prop, "quick"], capture_output=True, text=True, env=env, cwd=V)
        finally:
            subprocess.run(["git", "-C", REPO, "checkout", "--", "."], check=True)
        failed = [m[0] for m in re.findall(r"^FAILED-OBLIGATION (.+?)(@3\.1[0-9])?: ", r.stdout, re.M)]
        viol = re.findall(r"^VIOLATION property=(\S+) replay=(\S+)( no-failing-input-found)?", r.stdout, re.M)
        first = failed[0] if failed else None
        out[s] = dict(property=prop, applies=True, exit=r.returncode, caught=(r.returncode == 1 and bool(viol)),
                      violations=len(viol), with_replayed_input=sum(1 for v in viol if not v[2]),
                      first_failed_obligation=first, distinct_failed=sorted(set(re.sub(r"/[^/]*(&|is-not|is )[^/]*$", "", f) for f in failed))[:6])
        print(s, prop, "exit", r.returncode, "CAUGHT" if out[s]["caught"] else "MISSED", first)
        json.dump(out, open(path, "w"), indent=1, sort_keys=True)
    missed = [s for s, v in out.items() if not v.get("caught")]
    print(f"{len(out) - len(missed)}/{len(out)} caught; missed: {missed}")
    return 0 if not missed else 1


if __name__ == "__main__":
    sys.exit(main())
