#!/bin/sh
# run every check of a tier on the current tree; print exit code and summary line
cd "$(dirname "$0")/.."
TIER=${1:-quick}
for i in 01 02 03 04 05 06 07 08 09 10 11 12 13 14 15 16 17; do
  s=$(date +%s)
  ./check C$i $TIER > out/run_all_C$i.log 2>&1; rc=$?
  e=$(date +%s)
  echo "C$i exit=$rc $((e-s))s $(tail -1 out/run_all_C$i.log | cut -c1-150)"
done
