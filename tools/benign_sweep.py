#!/usr/bin/env python3
"""tools/benign_sweep.py [dir ...] -- apply every stored BEHAVIOUR-PRESERVING refactoring
(/verif/seeded/benign_*/patch.diff) to /repo, run the quick check of EVERY property, revert;
every check must stay at exit 0 (no false alarm).  Writes /verif/seeded/BENIGN_SWEEP.json."""
import json
import os
import re
import subprocess
import sys
import tempfile

V = os.path.dirname(os.path.dirname(os.path.abspath(__file__)))
REPO = os.environ.get("VERIF_REPO", "/repo")
PROPS = [f"C{i:02d}" for i in range(1, 18)]


def main():
    dirs = sys.argv[1:] or sorted(os.path.join(V, "seeded", d) for d in os.listdir(os.path.join(V, "seeded")) if d.startswith("benign") and os.path.isdir(os.path.join(V, "seeded", d)))
    if subprocess.run(["git", "-C", REPO, "status", "--porcelain"], capture_output=True, text=True).stdout.strip():
        print("refusing: /repo working tree is not clean")
        return 2
    scratch = tempfile.mkdtemp(prefix="verif_benign_")
    env = dict(os.environ, VERIF_EVIDENCE_DIR=scratch)
    path = os.path.join(V, "seeded", "BENIGN_SWEEP.json")
    out = json.load(open(path)) if os.path.exists(path) else {}
    for d in dirs:
        name = os.path.basename(d.rstrip("/"))
        r = subprocess.run(["git", "-C", REPO, "apply", os.path.join(d, "patch.diff")], capture_output=True, text=True)
        if r.returncode != 0:
            out[name] = dict(applies=False, error=r.stderr.strip()[:200])
            print(name, "PATCH DOES NOT APPLY")
            continue
        res = {}
        try:
            for p in PROPS:
                r = subprocess.run([os.path.join(V, "check"), p, "quick"], capture_output=True, text=True, env=env, cwd=V)
                if r.returncode != 0:
                    lines = [l[:400] for l in r.stdout.splitlines() if l.startswith(("FAILED-OBLIGATION", "UNDECIDED", "CHECKER-ERROR"))]
                    res[p] = dict(exit=r.returncode, first=lines[:3], n=len(lines))
        finally:
            subprocess.run(["git", "-C", REPO, "checkout", "--", "."], check=True)
        out[name] = dict(applies=True, quiet=not res, alarms=res)
        print(name, "QUIET" if not res else f"NOT QUIET: { {p: v['exit'] for p, v in res.items()} }")
        for p, v in res.items():
            for l in v["first"][:2]:
                print("   ", p, l[:300])
        json.dump(out, open(path, "w"), indent=1, sort_keys=True)
    bad = [n for n, v in out.items() if not v.get("quiet")]
    print(f"{len(out) - len(bad)}/{len(out)} refactorings leave every check quiet; not quiet: {bad}")
    return 0 if not bad else 1


if __name__ == "__main__":
    sys.exit(main())
