#!/bin/sh
# usage: tools/try_seed.sh <seed-dir> <PROP> [more props]   -- applies patch to /repo, runs checks, reverts
D=$1; shift
cd /repo && git apply "$D/patch.diff" || { echo "PATCH DOES NOT APPLY"; exit 9; }
cd /verif
export VERIF_EVIDENCE_DIR=/tmp/verif_scratch_evidence; mkdir -p $VERIF_EVIDENCE_DIR
for P in "$@"; do
  ./check $P quick > /tmp/try_seed_$P.log 2>&1; rc=$?
  echo "== $P exit=$rc"; grep -E "^(FAILED|UNDEC|CHECKER|VIOL)" /tmp/try_seed_$P.log | cut -c1-${CUT:-330} | head -${HEAD:-4}; tail -1 /tmp/try_seed_$P.log
done
cd /repo && git checkout -- . && git status --short | head -3
