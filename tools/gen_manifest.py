#!/usr/bin/env python3
"""Regenerate MANIFEST.json from the suites that exist (claimed) and the NOT_APPLICABLE table."""
import importlib
import json
import os
import sys

VERIF = os.path.dirname(os.path.dirname(os.path.abspath(__file__)))
sys.path.insert(0, VERIF)
ALL = [f"C{i:02d}" for i in range(1, 18)]

NOT_YET = "check under construction (DESIGN.md section 5); not claimed yet"
NA_REASON = {}

CLAIMS = json.load(open(os.path.join(VERIF, "tools", "claims.json")))

checks, na = [], []
for pid in ALL:
    if pid in CLAIMS:
        c = CLAIMS[pid]
        checks.append(dict(
            property_id=pid,
            quick_cmd=f"./check {pid} quick",
            thorough_cmd=f"./check {pid} thorough",
            evidence_file=f"evidence/{pid}.json",
            replay_cmd_template="./check --replay {path}",
            engine="olvc",
            level_claimed=dict(category=c.get("category", "proof"), text=c["text"], design_ref=c.get("design_ref", "DESIGN.md section 5")),
            level_note=c["note"],
            technique=c["technique"],
        ))
    else:
        na.append(dict(property_id=pid, reason=NA_REASON.get(pid, NOT_YET)))

m = dict(
    version=1,
    setup_cmd="./setup.sh",
    hooks=dict(
        guard="ONELINER_VERIF",
        enable="no hooks are needed: the checks read, identity-check and import /repo's working tree as it is ($VERIF_REPO, default /repo)",
        baseline_off_cmd="cd /repo && /venv/bin/python -m pytest -ra -q -p no:cacheprovider --timeout=900 --continue-on-collection-errors",
        source_commits=[],
        add_only=True,
    ),
    engines=[dict(name="olvc", path="olvc/", serves_properties=sorted(CLAIMS),
                  kind_free_text="contract-based deductive verification: meta-circular symbolic interpreter over the AST of the real functions (re-extracted and byte-code-identity-checked every run), side-car contracts, obligations discharged by z3 / exhaustive finite enumeration / structural comparison")],
    checks=checks,
    not_applicable=na,
    notes="Exit codes of ./check: 0 held (KNOWN-FINDING lines allowed), 1 violation, 2 undecided, 3 checker error. Known findings: KNOWN_FINDINGS.txt.",
)
json.dump(m, open(os.path.join(VERIF, "MANIFEST.json"), "w"), indent=1)
print(f"claimed {len(checks)}, not applicable {len(na)}")
