#!/usr/bin/env python3
"""tools/seed_table.py -- markdown table of the stored seeded changes (seeded/*/meta.json +
seeded/SWEEP.json) -> seeded/README.md"""
import json
import os
import re

V = os.path.dirname(os.path.dirname(os.path.abspath(__file__)))
sw = json.load(open(os.path.join(V, "seeded", "SWEEP.json")))
rows = []
for s in sorted(d for d in os.listdir(os.path.join(V, "seeded")) if os.path.isdir(os.path.join(V, "seeded", d)) and not d.startswith("benign")):
    m = json.load(open(os.path.join(V, "seeded", s, "meta.json")))
    v = sw.get(s, {})
    summ = re.sub(r"\s+", " ", m["summary"]).replace("|", "/")
    summ = summ[:230] + ("…" if len(summ) > 230 else "")
    ob = (v.get("first_failed_obligation") or "").replace("|", "/")
    ob = re.sub(r"/[^/]*( & | is |==|<=)[^/]*$", "", ob)
    cb = m.get("caught_by", "")
    first = "missed at first → strengthened" if re.search(r"first (missed|UNDECIDED)|added after|after this seed|at first", cb) else "caught as built"
    rows.append(f"| {s} | {m['property']} | {summ} | `{ob[:150]}` | {'yes' if v.get('with_replayed_input') else 'no'} | {first} |")
out = ["# Seeded changes", "",
       "Each directory holds `patch.diff` (against /repo HEAD), `demo.py` (exits 1 with the patch, 0 without) and `meta.json`.",
       "All patches keep the repository's 3337 tests green. `tools/seed_sweep.py` applies each one to /repo, runs the quick check of",
       "its property, reverts, and records the outcome in `SWEEP.json`; `tools/try_seed.sh <dir> <ID…>` does the same for one seed.", "",
       "| seed | property | change | first failed obligation (quick check of that property) | replayed failing input | history |",
       "|---|---|---|---|---|---|"] + rows
open(os.path.join(V, "seeded", "README.md"), "w").write("\n".join(out) + "\n")
print(len(rows), "rows")
