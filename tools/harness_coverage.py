#!/usr/bin/env python3
"""tools/harness_coverage.py -- which statements of the repository's functions are NEVER
executed by any symbolic run of any suite (quick tier)?  An unexecuted statement is a branch no
harness reaches: a blind spot where a contract may have "encoded the code" by never exercising
it.  Runs every check with VERIF_COV set (scratch evidence), merges the per-group records and
prints the uncovered statements per function."""
import ast
import glob
import json
import os
import shutil
import subprocess
import sys
import tempfile

V = os.path.dirname(os.path.dirname(os.path.abspath(__file__)))
REPO = os.environ.get("VERIF_REPO", "/repo")


def main():
    cov = tempfile.mkdtemp(prefix="verif_cov_")
    scratch = tempfile.mkdtemp(prefix="verif_cov_ev_")
    env = dict(os.environ, VERIF_COV=cov, VERIF_EVIDENCE_DIR=scratch)
    props = sys.argv[1:] or [f"C{i:02d}" for i in range(1, 18)]
    for p in props:
        subprocess.run([os.path.join(V, "check"), p, "quick"], capture_output=True, text=True, env=env, cwd=V)
    seen = set()
    for f in glob.glob(os.path.join(cov, "*.json")):
        for mod, ln in json.load(open(f)):
            seen.add((mod, ln))
    shutil.rmtree(cov, ignore_errors=True)
    shutil.rmtree(scratch, ignore_errors=True)
    total = missed = 0
    out = {}
    for root, _, files in os.walk(os.path.join(REPO, "oneliner")):
        for fn in sorted(files):
            if not fn.endswith(".py"):
                continue
            path = os.path.join(root, fn)
            mod = "oneliner." + os.path.relpath(path, os.path.join(REPO, "oneliner"))[:-3].replace("/", ".")
            mod = mod.replace(".__init__", "")
            src = open(path, encoding="utf8").read()
            lines = src.splitlines()
            tree = ast.parse(src)

            def visit(node, qual):
                nonlocal total, missed
                for n in getattr(node, "body", []):
                    if isinstance(n, (ast.FunctionDef, ast.AsyncFunctionDef)):
                        stmts = [s for s in ast.walk(n) if isinstance(s, ast.stmt) and s is not n and not isinstance(s, (ast.FunctionDef, ast.ClassDef))
                                 and not (isinstance(s, ast.Expr) and isinstance(s.value, ast.Constant) and isinstance(s.value.value, str))]
                        for s in stmts:
                            total += 1
                            if (mod, s.lineno) not in seen and ("__main__", s.lineno) not in seen:
                                missed += 1
                                out.setdefault(f"{mod}:{qual}{n.name}", []).append((s.lineno, lines[s.lineno - 1].strip()[:110]))
                        visit(n, qual + n.name + ".")
                    elif isinstance(n, ast.ClassDef):
                        visit(n, qual + n.name + ".")
            visit(tree, "")
    # outcome coverage of if / conditional expressions / and-or operands (inside functions)
    outcomes = {}
    for mod, key in seen:
        if isinstance(key, str):
            ln, col, what = key.split(":", 2)
            outcomes.setdefault((mod, int(ln), int(col)), set()).add(what)
    part = []
    for root, _, files in os.walk(os.path.join(REPO, "oneliner")):
        for fn in sorted(files):
            if not fn.endswith(".py"):
                continue
            path = os.path.join(root, fn)
            mod = ("oneliner." + os.path.relpath(path, os.path.join(REPO, "oneliner"))[:-3].replace("/", ".")).replace(".__init__", "")
            src = open(path, encoding="utf8").read()
            lines = src.splitlines()
            tree = ast.parse(src)
            infunc = set()
            for f_ in ast.walk(tree):
                if isinstance(f_, (ast.FunctionDef, ast.AsyncFunctionDef, ast.Lambda)):
                    infunc |= {id(x) for x in ast.walk(f_)}
            for n in ast.walk(tree):
                if id(n) not in infunc:
                    continue
                got = outcomes.get((mod, getattr(n, "lineno", -1), getattr(n, "col_offset", -1)), set()) | outcomes.get(("__main__", getattr(n, "lineno", -1), getattr(n, "col_offset", -1)), set())
                if isinstance(n, ast.If):
                    need = {"if-true", "if-false"}
                elif isinstance(n, ast.IfExp):
                    need = {"ifexp-then", "ifexp-else"}
                elif isinstance(n, ast.BoolOp):
                    need = {f"boolop-operand{i}-{t}" for i in range(len(n.values) - 1) for t in ("true", "false")}
                else:
                    continue
                miss = need - got
                if miss and (mod, n.lineno) in seen:   # (statement itself reached)
                    part.append((mod, n.lineno, sorted(miss), lines[n.lineno - 1].strip()[:100]))
    print("---- conditions reached with only some outcomes ----")
    for mod, ln, miss, txt in sorted(part):
        print(f"{mod}:{ln}: never {miss}: {txt}")
    print("---- statements never executed ----")
    for k in sorted(out):
        print(k)
        for ln, txt in sorted(set(out[k])):
            print(f"   {ln}: {txt}")
    print(f"statements in functions: {total}; never executed by a symbolic run: {missed}")


if __name__ == "__main__":
    main()
