#!/bin/sh
# usage: tools/mut.sh <PROP> <file-rel> <python-expr-old> <python-expr-new>   (scratch copy under /tmp)
set -e
D=/tmp/mut_scratch_$$
rm -rf $D; cp -r /repo $D; rm -rf $D/.git
python3 - "$D/$2" "$3" "$4" <<'PY'
import sys
p, a, b = sys.argv[1:4]
s = open(p).read()
a = a.encode().decode('unicode_escape'); b = b.encode().decode('unicode_escape')
assert a in s, "pattern not found"
open(p, 'w').write(s.replace(a, b, 1))
PY
cd /verif
export VERIF_EVIDENCE_DIR=/tmp/verif_scratch_evidence; mkdir -p $VERIF_EVIDENCE_DIR
VERIF_REPO=$D ./check $1 quick 2>&1 | grep -E "^(FAILED|UNDEC|CHECKER|VIOL|C[0-9][0-9] )" | cut -c1-${CUT:-260} | head -${HEAD:-6}
rm -rf $D
