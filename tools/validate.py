#!/usr/bin/env python3
"""tools/validate.py -- MANIFEST.json and every evidence file against the given schemas; for
proof-level evidence additionally obligations == discharged and violations == 0."""
import json
import os
import sys

import jsonschema

V = os.path.dirname(os.path.dirname(os.path.abspath(__file__)))
bad = 0
man = json.load(open(os.path.join(V, "MANIFEST.json")))
jsonschema.validate(man, json.load(open("/root/.vp/MANIFEST.schema.json")))
es = json.load(open("/root/.vp/EVIDENCE.schema.json"))
props = man.get("properties", man.get("claims", []))
for f in sorted(os.listdir(os.path.join(V, "evidence"))):
    ev = json.load(open(os.path.join(V, "evidence", f)))
    try:
        jsonschema.validate(ev, es)
    except jsonschema.ValidationError as e:
        print(f, "INVALID", e.message[:200])
        bad += 1
        continue
    c = ev["coverage"]
    note = ""
    if ev["level"] == "proof" and c.get("obligations") != c.get("discharged"):
        note = f" obligations {c.get('obligations')} != discharged {c.get('discharged')}"
        bad += 1
    if ev.get("violations"):
        note += f" violations={ev['violations']}"
        bad += 1
    if c.get("undecided"):
        note += f" undecided={len(c['undecided'])}"
        bad += 1
    print(f, ev["tier"], ev["level"], c.get("obligations"), c.get("discharged"), "known", len(c.get("known_findings", [])), note or "ok")
sys.exit(1 if bad else 0)
