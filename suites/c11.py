"""C11 -- functions keep their signature, call binding, defaults and decorators.
Shares: C07 functiondef (argument copy, definition order), C05 function frame (return
protocol), C03 kind:Lambda (signature rendering), C12 methods (implicit classmethod)."""
from suites import c03, c05, c07, c12, c13

PROPERTY = "C11"
HOSTS = ["3.12", "3.11"]
LEVEL = "proof"
TRUSTED_BASE = list(c07.TRUSTED_BASE) + ["spec/pygrammar.py lambda production (lambda_params)", "CPython's call binding: equal `arguments` objects bind calls identically",
                                           "assumed contract of ast.unparse for the Lambda node (dependency)"]
ASSUMPTIONS = list(c07.ASSUMPTIONS)
EXPLANATION = "symbolic execution of PendingFunctionDef.__init__/get_result and of unparse_Lambda over fully symbolic parameter lists"
GROUPS = {
    "functiondef": c07.g_functiondef,
    "function_frame": c05.g_function_frame,
    "unparse_lambda": c03.GROUPS["kind:Lambda"],
    "bounded:lambda-signatures": c03.g_lambda_signatures_bounded,
    "methods": c12.g_methods,
    "return": c07.g_return,
    "canary": c13.g_canary,
}
REPLAY = dict(c07.REPLAY)
REPLAY.update(c03.REPLAY)
REPLAY.update(c05.REPLAY)
REPLAY.update(c12.REPLAY)
from suites import thorough as _th, progenum as _pg
GROUPS["thorough:enum-function-signatures"] = _th.only_thorough(_pg.g_f3)

# bounded stand-ins for undecided obligations (olvc/oblig.py::main_check)
STANDINS = {"*": [dict(kind="sig")]}
