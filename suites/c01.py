"""C01 -- the converted one-liner behaves like the source script (composition).

Own obligations: PendingModule (children in order, helper bindings first, nothing else
added), the two statement sequencers and their selector (Seq semantics: every element once,
in order), PendingExpr/Pass/Global/Nonlocal, PendingIf (both styles, shared C07 group), one
generic step of the convert() trampoline.  Everything else is the union of C05-C07 and
C11-C14: lemma A3 (spec/LEMMAS.md) composes the per-statement contracts into trace / final
namespace equality by induction over the statement tree.  The evidence of those
properties is listed by reference, not re-counted."""
from __future__ import annotations

import ast

import z3

from contracts import c_lowering as CL
from olvc import extract, sym
from olvc.evaluator import Machine
from olvc.interp import Frame, HFn, IGen, IRaise, IStop, ifunc_of
from olvc.oblig import fail_or_gap, paths_or_undecided
from olvc.runner import explore
from olvc.sym import Fold, Opaque, Seg, SInt, Unsupported, ctx, tagstr
from olvc.tmpl import Hole
from spec import control, target_lang as TL
from suites import c05, c07, c13

PROPERTY = "C01"
HOSTS = ["3.12"]
LEVEL = "proof"
TRUSTED_BASE = [
    "spec/LEMMAS.md A3: composition of the statement contracts (paper proof, induction over the statement tree)",
    "the obligations of C05, C06, C07, C11, C12, C13, C14 (their evidence files) and their listed findings",
    "reading of the chain-call runner `(lambda: (_ := (lambda __: _)))()`: a function that returns itself, so f(e1)(e2)...(en) evaluates e1..en once each, left to right",
    "spec/target_lang.py, spec/control.py",
]
ASSUMPTIONS = ["end-to-end Python semantics of the emitted expression is the trusted idiom reading; objects' metadata (__name__, __qualname__, __doc__, annotations) is out of scope (property text)"]
EXPLANATION = "composition obligations by symbolic execution of the real module/sequencer/trampoline code"

DEPENDS_ON = ["C05", "C06", "C07", "C11", "C12", "C13", "C14"]


def exec_order(c, tree_or_list):
    sem = control.Sem()
    sem.seq(tree_or_list if isinstance(tree_or_list, list) else [tree_or_list])
    return [(k, t) for k, t, cd in sem.execs if not z3.is_false(z3.simplify(cd))]


LATE_FILL_SRC = ("out = []\nfor i in range(4):\n    if i == 2:\n        out.append('two')\n        continue\n    out.append(i)\n"
                 "def f(x):\n    if x:\n        out.append('early')\n        return 1\n    out.append('late')\n    return 2\n"
                 "n = 0\nwhile True:\n    n += 1\n    if n > 2:\n        out.append('stop')\n        break\n    out.append(n)\nr = (out, f(1), f(0), n)\n")


def _holds(tree, obj, seen=None):
    """is `obj` (by identity) part of the emitted tree?"""
    from olvc.sym import Fold, Seg
    seen = seen if seen is not None else set()
    if tree is obj:
        return True
    if id(tree) in seen or isinstance(tree, (str, int, float, bytes, type(None))):
        return False
    seen.add(id(tree))
    if isinstance(tree, Opaque):
        sem = tree.props.get("sem")
        return any(_holds(x, obj, seen) for x in (sem[1:] if sem else ()))
    if isinstance(tree, Seg):
        return any(_holds(x, obj, seen) for x in tree.items)
    if isinstance(tree, Fold):
        return _holds(tree.init, obj, seen) or _holds(tree.step, obj, seen)
    if isinstance(tree, (list, tuple)):
        return any(_holds(x, obj, seen) for x in tree)
    if isinstance(tree, ast.AST):
        return any(_holds(getattr(tree, f, None), obj, seen) for f in tree._fields)
    return False


def g_wrappers(R, tier):
    ut = CL.utils()
    for fn_name in ("list_wrapper", "chain_call_wrapper"):
        def run(c):
            m = Machine()
            first = CL.absnode(("R", "first"), ("R", "first"))
            second = CL.absnode(("R", "second"), ("R", "second"))
            rest = c07.R_list("REST")
            nodes = [first, second] + rest
            return dict(res=m.call_value(getattr(ut, fn_name), nodes), nodes=nodes)
        paths = explore(run)
        nm = f"utils.{fn_name}"
        if not paths_or_undecided(R, nm + "/paths", paths):
            continue
        for p in paths:
            sig = p.ctx.signature()
            if p.kind != "ok":
                R.fail(f"{nm}/no-unexpected-raise/{sig}", repr(p.value))
                continue
            # the callers fill some of these nodes in AFTER wrapping (the list displays of
            # break/continue/return receive their flag assignment later): the result must
            # hold the given node objects themselves, not copies of their contents
            held = [_holds(p.value["res"], n_) for n_ in p.value["nodes"][:2]]
            R.check(f"{nm}/holds-the-given-nodes-by-reference/{sig}", all(held), f"first/second found by identity in the result: {held}",
                    replay=dict(kind="src", src=LATE_FILL_SRC, expect="same-globals"))
            sym.set_ctx(p.ctx)
            try:
                try:
                    got = exec_order(p.ctx, p.value["res"])
                except TL.NotInFragment as e:
                    R.undecided(f"{nm}/reading/{sig}", str(e))
                    continue
                want = [("stmt", "first"), ("stmt", "second")] + ([("stmts", "(REST j_REST)")] if not c13._provably_zero(p.ctx, p.value["nodes"][2].length) else [])
                norm = lambda xs: [(k, (t[1:].split(" ")[0] + "*") if t.startswith("(") else t) for k, t in xs]
                g, w = norm(got), norm(want)
                # coalesce peeled runs
                g2 = []
                for x in g:
                    if not (g2 and g2[-1] == x and x[1].endswith("*")):
                        g2.append(("stmts", x[1]) if x[1].endswith("*") else x)
                R.check(f"{nm}/every-element-evaluated-once-in-order/{sig}", g2 == [("stmts", t) if t.endswith("*") else (k, t) for k, t in w], f"{got} expected {want}",
                        replay=dict(kind="src", src="log = []\ndef m(n):\n    log.append(n)\nm(1)\nm(2)\nm(3)\nm(4)\n", expect="same-globals"))
            finally:
                sym.set_ctx(None)
    # the runner of the chain-call form contains no source code and binds only its own names
    def run_runner(c):
        m = Machine()
        a, b = CL.absnode(("R", "a"), ("R", "a")), CL.absnode(("R", "b"), ("R", "b"))
        return m.call_value(ut.chain_call_wrapper, [a, b])
    for p in explore(run_runner):
        if p.kind != "ok":
            continue
        res = p.value
        inner = res.func if isinstance(res, ast.Call) else None
        runner = inner.func if isinstance(inner, ast.Call) else None
        ok = isinstance(runner, ast.Call) and isinstance(runner.func, ast.Lambda) and not runner.args and not runner.keywords
        body = runner.func.body if ok else None
        ok = ok and isinstance(body, ast.NamedExpr) and isinstance(body.value, ast.Lambda) and len(body.value.args.args) == 1 \
            and isinstance(body.value.body, ast.Name) and body.value.body.id == body.target.id
        R.check("utils.chain_call_wrapper/runner-is-a-function-that-returns-itself", bool(ok), ast.dump(runner)[:300] if isinstance(runner, ast.AST) else repr(runner))


def g_selector(R, tier):
    ut = CL.utils()
    cfgm = extract.repo_module("oneliner.config")
    for style in ("list", "chain_call"):
        for n in (0, 1, 2):
            def run(c):
                calls = []
                st = {}
                for fn in ("list_wrapper", "chain_call_wrapper"):
                    def f(it, nodes, fn=fn):
                        calls.append((fn, nodes))
                        return Opaque(("wrapped", fn), ast.expr)
                    st[f"oneliner.utils:{fn}"] = f
                m = Machine(stubs=st)
                cfg = cfgm.Configs()
                cfg.expr_wrapper = style
                w = m.call_value(ut.get_expr_wrapper, cfg)
                nodes = [CL.absnode(("R", i), ("R", str(i))) for i in range(n)]
                if n == 2:
                    nodes = nodes + c07.R_list("MORE")
                return dict(res=m.call_value(w, nodes), calls=calls, nodes=nodes)
            for p in explore(run):
                nm = f"utils.get_expr_wrapper.wraper[{style},{n if n < 2 else '>=2'}]"
                if p.kind != "ok":
                    R.fail(nm + "/no-unexpected-raise", repr(p.value))
                    continue
                v = p.value
                if n == 0:
                    R.check(nm + "/empty-block-is-an-effect-free-constant", isinstance(v["res"], ast.Constant) and not v["calls"], repr(v["res"]))
                elif n == 1:
                    R.check(nm + "/single-statement-is-itself", v["res"] is v["nodes"][0] and not v["calls"], repr(v["res"]))
                else:
                    want = {"list": "list_wrapper", "chain_call": "chain_call_wrapper"}[style]
                    R.check(nm + "/sequencer-chosen-by-the-option", len(v["calls"]) == 1 and v["calls"][0][0] == want and v["calls"][0][1] is v["nodes"], repr(v["calls"]))


def g_module(R, tier):
    pn = CL.pn()
    base = "pending_nodes.PendingModule.get_result"
    # every valuation of the boolean state of the module namespace (whatever flags the class declares:
    # a flag added later is exercised too), C01: only reserved names and the two helper modules are added
    import itertools as _it
    NG = CL.nsmod().NamespaceGlobal
    flag_names = sorted(k for k, v_ in vars(NG).items() if isinstance(v_, bool))
    R.check(base + "/flags-of-the-module-namespace-found", {"use_itertools", "use_importlib", "use_preset_iter_wrapper"} <= set(flag_names), repr(flag_names))
    for valuation in _it.product((False, True), repeat=len(flag_names)):
        val = dict(zip(flag_names, valuation))
        flags = (val.get("use_itertools", False), val.get("use_importlib", False), val.get("use_preset_iter_wrapper", False))
        def run(c):
            m = Machine(stubs=c13.stubs())
            G = CL.mk_global()
            node = ast.Module(body=[], type_ignores=[])
            self_ = CL.mk_pending(pn.PendingModule, node, G, G, m=m)
            self_.converted_body = c07.R_list("BODY")
            for k_, b_ in val.items():
                setattr(G, k_, b_)
            return dict(res=m.call_value(pn.PendingModule.get_result, self_), G=G)
        for p in explore(run):
            nm = f"{base}[" + ",".join(f"{k_[4:] if k_.startswith('use_') else k_}={b_}" for k_, b_ in val.items()) + "]"
            if p.kind != "ok":
                R.fail(nm + "/no-unexpected-raise", repr(p.value))
                continue
            res = p.value["res"]
            body_idx = [i for i, x in enumerate(res) if isinstance(x, Seg)]
            helpers = [x for x in res if not isinstance(x, Seg)]
            R.check(nm + "/body-kept-once-after-all-helper-bindings", len(body_idx) == 1 and body_idx[0] == len(res) - 1, repr(res))
            names = []
            ok = True
            for h in helpers:
                if isinstance(h, ast.NamedExpr) and isinstance(h.target, ast.Name):
                    names.append(h.target.id)
                    if h.target.id in ("itertools", "importlib"):
                        ok = ok and isinstance(h.value, ast.Call) and isinstance(h.value.func, ast.Name) and h.value.func.id == "__import__" \
                            and len(h.value.args) == 1 and h.value.args[0].value == h.target.id
                else:
                    ok = False
            want = set()
            if flags[0]:
                want.add("itertools")
            if flags[1]:
                want.add("importlib")
            reserved = [n_ for n_ in names if n_ not in ("itertools", "importlib")]
            R.check(nm + "/adds-exactly-the-needed-helper-modules", ok and {n_ for n_ in names if n_ in ("itertools", "importlib")} == want, repr(names),
                    replay=dict(kind="src", src="i = 0\nwhile i < 2:\n    i += 1\nimport os\nfor k in range(3):\n    if k:\n        break\n", expect="same-globals"))
            R.check(nm + "/other-added-names-are-reserved", all(isinstance(n_, str) and n_.startswith("__ol_") for n_ in reserved) and (len(reserved) == 1) == flags[2], repr(reserved),
                    replay=dict(kind="src", src="class A:\n    y = 1\ntypes = ['mine']\nclass B(A):\n    z = 2\nr = (B.y, B.z, types)\n", expect="same-globals"))


def g_simple_statements(R, tier):
    pn = CL.pn()
    for cls_name, mk in (("PendingPass", lambda: ast.Pass()), ("PendingGlobal", lambda: ast.Global(names=["a"])), ("PendingNonlocal", lambda: ast.Nonlocal(names=["a"]))):
        def run(c):
            m = Machine(stubs=c13.stubs())
            self_ = CL.mk_pending(getattr(pn, cls_name), mk(), CL.mk_nsp(), CL.mk_global(), m=m)
            return m.call_value(getattr(pn, cls_name).get_result, self_)
        for p in explore(run):
            ok = p.kind == "ok" and isinstance(p.value, list) and all(isinstance(x, ast.Constant) for x in p.value)
            R.check(f"pending_nodes.{cls_name}.get_result/no-run-time-effect", ok, repr(p.value))


def g_convert_step(R, tier):
    """one generic step of the conversion trampoline"""
    conv = extract.repo_module("oneliner.convert")
    ifn = ifunc_of(conv.convert)
    outer = [s for s in ifn.node.body if isinstance(s, ast.While)]
    base = "convert.convert/step"
    if len(outer) != 1:
        R.undecided(base + "/shape", "expected one outer while loop")
        return
    loop = outer[0]
    pre = ifn.node.body[:ifn.node.body.index(loop)]
    for has_ns in (False, True):
        for arm in ("child-requests-another-node", "child-finished-parent-continues", "root-finished"):
            def run(c):
                made = []
                G = CL.mk_global()
                holder = {}

                def pass_stub(it, node, nsp=None, nsp_global=None):
                    ns_at_dispatch.append((node, nsp, nsp_global))
                    return holder["child"]
                ns_at_dispatch = []
                m = Machine(stubs={"oneliner.namespaces:generate_nsp": lambda it, s, cfg: G, "oneliner.pending_nodes:PendingPass": pass_stub})
                P_ROOT, P_SYMT, P_CFG = [a_.arg for a_ in ifn.node.args.args][:3]
                fr = Frame(ifn, {P_ROOT: Opaque("root", ast.Module), P_SYMT: Opaque("st", object), P_CFG: Opaque("cfg", object)}, ifn.globals, [], name="convert")
                m.run(m.exec_block(pre, fr))
                # arbitrary state: a parent is suspended, a new node is about to be converted
                events = []
                inner_ns = Opaque("inner-namespace", object)
                child_result = [Opaque("child-result", ast.expr)]

                def child_send(o, v):
                    events.append(("child.send", v))
                    if arm == "child-requests-another-node":
                        return Opaque("next-node", ast.stmt)
                    raise IRaise(IStop(None))

                def parent_send(o, v):
                    events.append(("parent.send", v))
                    return Opaque("parent-next-node", ast.stmt)
                child = Opaque("child-pending", object, fields=dict(has_internal_namespace=has_ns, iter_node=Opaque("child-gen", object, next=lambda o: child_send(o, None), methods=dict(send=child_send))),
                               methods=dict(get_internal_namespace=lambda o: inner_ns, get_result=lambda o: (events.append(("child.get_result",)), child_result)[1]))
                parent = Opaque("parent-pending", object, fields=dict(has_internal_namespace=False, iter_node=Opaque("parent-gen", object, methods=dict(send=parent_send))),
                                methods=dict(get_result=lambda o: (events.append(("parent.get_result",)), [Opaque("parent-result", ast.expr)])[1]))
                lowerP, lowerN = Opaque("lowerP", object), Opaque("lowerN", object)
                pstack = [lowerP, parent] if arm != "root-finished" else []
                nstack = [lowerN, Opaque("ns-of-parent", object)] if arm != "root-finished" else [G]
                holder["child"] = child
                # the REAL closures get_pending_node / pending_top (defined by the prefix) see
                # these stacks through the frame they close over
                # (the loop state is identified by ROLE in the locals the real prefix left: the
                #  namespace stack is the list holding the global namespace, the pending stack the
                #  empty list, the node to convert the local holding the root, the pending result
                #  the local holding None; the lists are changed IN PLACE so that every alias and
                #  closure of the real code sees the generic state)
                L = fr.locals
                ns_lists = [k for k, v_ in L.items() if isinstance(v_, list) and len(v_) == 1 and v_[0] is G]
                p_lists = [k for k, v_ in L.items() if isinstance(v_, list) and v_ == []]
                todo = [k for k, v_ in L.items() if v_ is L[P_ROOT] and k != P_ROOT]
                nones = [k for k, v_ in L.items() if v_ is None]
                if not (len(ns_lists) == 1 and len(p_lists) == 1 and len(todo) == 1 and len(nones) == 1):
                    raise Unsupported(f"loop state of convert() not identified: namespace stack {ns_lists}, pending stack {p_lists}, node {todo}, pending result {nones}")
                L[p_lists[0]][:] = pstack
                pstack = L[p_lists[0]]
                L[ns_lists[0]][:] = nstack
                nstack = L[ns_lists[0]]
                top_ns = nstack[-1]
                node = Opaque("node", ast.stmt, cands=frozenset([ast.Pass]))
                L[todo[0]] = node
                L[nones[0]] = None
                TODO_VAR = todo[0]
                sig = m.run(m.exec_block(loop.body, fr))
                return dict(events=events, pstack=pstack, nstack=nstack, fr=fr.locals, sig=sig, node=node, todo_var=TODO_VAR, ns_at_dispatch=ns_at_dispatch, child=child, parent=parent, top_ns=top_ns,
                            inner_ns=inner_ns, child_result=child_result, lowerP=lowerP, lowerN=lowerN, G=G)
            paths = explore(run)
            nm = f"{base}[{arm},{'own-namespace' if has_ns else 'no-namespace'}]"
            if not paths_or_undecided(R, nm + "/paths", paths):
                continue
            for p in paths:
                if p.kind != "ok":
                    fail_or_gap(R, f"{nm}/no-unexpected-raise", p)
                    continue
                v = p.value
                ev = v["events"]
                R.check(f"{nm}/node-dispatched-with-the-namespace-on-top", len(v["ns_at_dispatch"]) == 1 and v["ns_at_dispatch"][0][0] is v["node"]
                        and v["ns_at_dispatch"][0][1] is v["top_ns"] and v["ns_at_dispatch"][0][2] is v["G"], repr(v["ns_at_dispatch"]),
                        replay=dict(kind="src", src="def f():\n    x = 1\n    def g():\n        y = x + 1\n        return y\n    return g()\nr = f()\n", expect="same-globals"))
                if arm == "child-requests-another-node":
                    okp = v["pstack"][-1] is v["child"] and (v["nstack"][-1] is v["inner_ns"]) == has_ns and len(v["nstack"]) == (3 if has_ns else 2)
                    R.check(f"{nm}/child-pushed-with-its-namespace", okp, f"{v['pstack']} {v['nstack']}")
                    R.check(f"{nm}/requested-node-is-converted-next", isinstance(v["fr"][v["todo_var"]], Opaque) and v["fr"][v["todo_var"]].tag == "next-node" and v["sig"] is None, repr(v["fr"][v["todo_var"]]))
                elif arm == "child-finished-parent-continues":
                    R.check(f"{nm}/finished-child-popped-with-its-namespace", v["pstack"] == [v["lowerP"], v["parent"]] and len(v["nstack"]) == 2, f"{v['pstack']} {v['nstack']}")
                    gr = [e for e in ev if e[0] == "child.get_result"]
                    ps = [e for e in ev if e[0] == "parent.send"]
                    R.check(f"{nm}/get_result-once-and-its-value-sent-to-the-parent", len(gr) == 1 and len(ps) == 1 and ps[0][1] is v["child_result"], repr(ev))
                    R.check(f"{nm}/parent's-next-request-is-converted-next", isinstance(v["fr"][v["todo_var"]], Opaque) and v["fr"][v["todo_var"]].tag == "parent-next-node", repr(v["fr"][v["todo_var"]]))
                else:
                    ok = v["sig"] is not None and v["sig"][0] == "return"
                    R.check(f"{nm}/returns-the-sequenced-result-of-the-root", ok and isinstance(v["sig"][1], Opaque) and v["sig"][1].props.get("sem", (0,))[0] == "seq"
                            and v["sig"][1].props["sem"][1] == v["child_result"], repr(v["sig"]))


def g_dependencies(R, tier):
    """the composition stands on the statement suites: their groups must exist (their
    verdicts are their own evidence files)"""
    import importlib
    for d in DEPENDS_ON:
        try:
            mod = importlib.import_module(f"suites.{d.lower()}")
            R.check(f"composition/depends-on/{d}", len(mod.GROUPS) > 0, f"{len(mod.GROUPS)} obligation groups: see evidence/{d}.json")
        except ModuleNotFoundError:
            R.undecided(f"composition/depends-on/{d}", "suite not built")


def g_witness(R, tier):
    """see c06.native_finding"""
    from suites import c06
    c06.native_finding(R, "utils.list_wrapper/W1-objects-are-released-when-their-last-name-is-rebound",
                       "with expr_wrapper=list the value of every statement is an element of a list display that lives until the block ends: an object "
                       "whose last name is rebound is released later than in Python, so __del__ / weakref callbacks that print run after later output",
                       "class K:\n    def __del__(self):\n        print('released')\nx = K()\nx = None\nprint('after')\n")
    c06.native_finding(R, "pending_nodes.PendingAssign.get_result/W2-temporaries-do-not-keep-values-alive",
                       "the temporaries of chained, attribute, subscript and destructuring assignments (__ol_assign_*) and the iterator wrapper of a for loop keep their "
                       "last value until the scope ends, under every option combination: an object whose last user reference is dropped is finalized later than in Python",
                       "class K:\n    def __del__(self):\n        print('del')\nclass H:\n    pass\nh = H()\nh.x = K()\nh.x = None\nprint('mid')\na = b = K()\na = b = None\nprint('end')\n")
    c06.native_finding(R, "pending_nodes.PendingFor.get_result/W3-values-of-loop-body-statements-are-not-collected",
                       "a loop is a list comprehension over its body: the value of every iteration's body lives until the loop ends (finalizers run late, memory grows with the iteration count)",
                       "class K:\n    def __init__(self):\n        print('init')\n    def __del__(self):\n        print('del')\ndef make():\n    return K()\ndef run():\n    for i in range(2):\n        make()\nrun()\nprint('end')\n")


GROUPS = {"witness": g_witness, "wrappers": g_wrappers, "selector": g_selector, "module": g_module, "module_traversal": None, "simple_statements": g_simple_statements,
          "expr": c07.g_expr, "if": c07.g_if, "convert_step": g_convert_step, "dependencies": g_dependencies, "canary": c13.g_canary}


def _mt(R, tier):
    from suites import c08
    c08.g_module_traversal(R, tier)


GROUPS["module_traversal"] = _mt
from suites import thorough as _th
GROUPS["thorough:interpreter-vs-cpython"] = _th.g_crosscheck
NO_FRAME_GROUPS = ("dependencies",)

REPLAY = dict(c13.REPLAY)
REPLAY.update(c05.REPLAY)
from suites import progenum as _pg
for _n, _g in (("assignments", _pg.g_f1), ("augmented-assignments", _pg.g_f2), ("expressions-in-scopes", _pg.g_f8), ("binding-forms", _pg.g_f4),
               ("class-statements", _pg.g_f6), ("import-forms", _pg.g_f7), ("function-signatures", _pg.g_f3)):
    GROUPS[f"thorough:enum-{_n}"] = _th.only_thorough(_g)

# the last step of the pipeline: convert_code_string returns the unparser's text (shared C10/C02 group)
def _ccs(R, tier):
    from suites import c10
    c10.g_default_options(R, tier)


GROUPS["convert_code_string"] = _ccs
REPLAY.update({k: v for k, v in __import__("suites.c10", fromlist=["REPLAY"]).REPLAY.items() if k not in REPLAY})


def replay_long_blocks(rp):
    """blocks of n statements, n around every multiple of 16 up to 132 (and the small ones): every
    statement runs, in order, at module level, in a function and in a loop body"""
    from suites import replay_util as RU
    sizes = sorted(set(list(range(0, 9)) + [k + d for k in range(16, 133, 16) for d in (-1, 0, 1)] + [49, 50, 51, 99, 100, 101]))
    for n in sizes:
        body = [f"log.append({i})" for i in range(n)]
        src = ("log = []\n" + "\n".join(body) + "\ndef f():\n" + "\n".join("    " + b for b in body + ["return len(log)"])
               + "\nk = f()\nfor z in range(2):\n" + "\n".join("    " + b for b in body + ["log.append('z')"]) + "\nr = (log, k)\n")
        rep = RU.replay_source(src, "same-globals", names=["r"])
        if rep.get("reproduced"):
            return rep
    return dict(reproduced=False, sizes=sizes)


REPLAY["long-blocks"] = replay_long_blocks
GROUPS["thorough:long-blocks"] = _th.bounded_from_replay("bounded/blocks-of-up-to-132-statements", replay_long_blocks)
# bounded stand-ins for undecided obligations (olvc/oblig.py::main_check)
STANDINS = {"*": [dict(kind="long-blocks"), dict(kind="skeleton")]}

# C01 is the composition of the statement lowerings: "the converted program behaves like the
# source" fails as soon as one statement form evaluates something else, or in another order, than
# Python does.  The statement-level obligations of C07 (assignment in all its forms, augmented
# assignment, return, def, class, the loop headers) are therefore REQUIRED here as well, not only
# pointed to (added after seed k_c01_1: `box()[0] = val()` evaluated the target object first when
# the index is a constant; C07 failed, this check stayed green).  Their frames are C07's.
_STATEMENT_GROUPS = ("assign:statement", "assign:get_result", "assign:leaf_targets", "assign:tuple_list", "augassign",
                     "return", "functiondef", "classdef",
                     "loops:while-test-evaluated-as-often-as-python", "loops:for-iterable-evaluated-once")
for _k in _STATEMENT_GROUPS:
    GROUPS[f"statements/{_k}"] = c07.GROUPS[_k]
REPLAY.update({k: v for k, v in c07.REPLAY.items() if k not in REPLAY})
NO_FRAME_GROUPS = NO_FRAME_GROUPS + tuple(f"statements/{_k}" for _k in _STATEMENT_GROUPS)
STANDINS = {"*": STANDINS["*"] + list(c07.STANDINS.get("*", []))}
