"""Replay of counterexamples against the REAL converter: convert a source program with
every option combination, run original and converted, compare observables."""
from __future__ import annotations

import contextlib
import io
import itertools
import random
import types

from olvc import extract

OPTS = list(itertools.product(["ast.unparse", "oneliner"], ["list", "chain_call"], ["if_expr", "short_circuit"]))


def _configs(u, w, i):
    cfgm = extract.repo_module("oneliner.config")
    c = cfgm.Configs()
    c.unparser, c.expr_wrapper, c.if_style = u, w, i
    return c


def canon(v, depth=0, seen=None):
    seen = seen if seen is not None else {}
    if depth > 6:
        return "<deep>"
    if isinstance(v, (int, float, complex, str, bytes, bool, type(None))):
        return (type(v).__name__, v)
    if isinstance(v, (list, tuple)):
        return (type(v).__name__, tuple(canon(x, depth + 1, seen) for x in v))
    if isinstance(v, (set, frozenset)):
        return (type(v).__name__, tuple(sorted((canon(x, depth + 1, seen) for x in v), key=repr)))
    if isinstance(v, dict):
        return ("dict", tuple((canon(k, depth + 1, seen), canon(x, depth + 1, seen)) for k, x in v.items()))
    if isinstance(v, types.ModuleType):
        return ("module", v.__name__)
    if isinstance(v, (types.FunctionType, types.LambdaType, types.BuiltinFunctionType, types.MethodType, classmethod, staticmethod, property)):
        return ("callable",)
    if isinstance(v, type):
        if id(v) in seen:
            return ("class-ref", v.__name__)
        seen[id(v)] = True
        members = {k: x for k, x in vars(v).items() if not (k.startswith("__") and k.endswith("__"))}
        return ("class", v.__name__, tuple(b.__name__ for b in v.__mro__), type(v).__name__,
                tuple(sorted((k, canon(x, depth + 1, seen)) for k, x in members.items())))
    if id(v) in seen:
        return ("ref", type(v).__name__)
    seen[id(v)] = True
    d = getattr(v, "__dict__", None)
    if isinstance(d, dict):
        return ("obj", type(v).__name__, tuple(sorted((k, canon(x, depth + 1, seen)) for k, x in d.items())))
    return ("obj", type(v).__name__)


def run(code, mode, prelude=None):
    g = {"__name__": "__replay__"}
    buf = io.StringIO()
    err = None
    try:
        with contextlib.redirect_stdout(buf):
            if prelude:
                exec(compile(prelude, "<prelude>", "exec"), g)  # noqa: S102  (never converted)
            if mode == "exec":
                exec(compile(code, "<original>", "exec"), g)  # noqa: S102
            else:
                eval(compile(code, "<converted>", "eval"), g)  # noqa: S307
    except BaseException as e:  # noqa: BLE001
        err = f"{type(e).__name__}: {e}"
    return g, buf.getvalue(), err


def user_globals(g, names=None):
    out = {}
    for k, v in g.items():
        if k.startswith("__ol_") or k in ("__builtins__", "__name__", "itertools", "importlib"):
            continue
        if names is not None and k not in names:
            continue
        out[k] = canon(v)
    return out


def replay_source(src, expect="same-globals", names=None, opts=None, prelude=None):
    """-> dict(reproduced=bool, ...).  expect: 'same-globals' | 'SyntaxError' | 'raises' | 'compiles'"""
    ol = extract.repo_module("oneliner")
    results = []
    for (u, w, i) in (opts or OPTS):
        random.seed(12345)
        try:
            out = ol.convert_code_string(src, configs=_configs(u, w, i))
            cerr = None
        except BaseException as e:  # noqa: BLE001
            out, cerr = None, e
        tag = f"{u}/{w}/{i}"
        if expect in ("SyntaxError", "raises"):
            ok = cerr is not None and (expect == "raises" or isinstance(cerr, SyntaxError))
            if not ok:
                return dict(reproduced=True, source=src, options=tag, expected=f"conversion raises {expect}",
                            observed=("returned " + repr(out)[:300]) if cerr is None else repr(cerr))
            continue
        if cerr is not None:
            return dict(reproduced=True, source=src, options=tag, expected="conversion succeeds", observed=f"{type(cerr).__name__}: {cerr}")
        if "\n" in out:
            return dict(reproduced=True, source=src, options=tag, expected="single line", observed="output contains a line break", output=out[:500])
        try:
            compile(out, "<converted>", "eval")
        except SyntaxError as e:
            return dict(reproduced=True, source=src, options=tag, expected="output compiles in eval mode", observed=f"SyntaxError: {e.msg}", output=out[:800])
        if expect == "compiles":
            continue
        g0, o0, e0 = run(src, "exec", prelude)
        g1, o1, e1 = run(out, "eval", prelude)
        if e0 is not None:
            return dict(reproduced=False, note=f"original program itself fails: {e0}", source=src)
        a, b = user_globals(g0, names), user_globals(g1, names)
        if e1 is not None or o0 != o1 or a != b:
            diff = {k: (a.get(k), b.get(k)) for k in set(a) | set(b) if a.get(k) != b.get(k)}
            return dict(reproduced=True, source=src, options=tag, expected=dict(stdout=o0), observed=dict(error=e1, stdout=o1),
                        differing_globals={k: repr(v)[:300] for k, v in list(diff.items())[:6]}, output=out[:1500])
        results.append(tag)
    return dict(reproduced=False, source=src, options_tried=results)
