"""C12 -- classes keep their members, bases, metaclass, method kinds and super().

PendingClassDef.get_result against the class-creation idiom (DESIGN 4.2): the class object
is created by calling the metaclass (the `metaclass` keyword, else `type`) with the name,
the bases and the remaining keywords in source order and an EMPTY namespace; the name is
bound through the namespace BEFORE the body runs (the body's `__class__` needs it); the body
runs once, in order, inside the loader lambda with stores routed to the member dict
(namespace contract, C06); every entry of the member dict is installed with setattr in
insertion order; decorators are applied last (C07 group, shared); zero-argument super():
the method's lambda mentions __class__ and __init_subclass__ is wrapped in classmethod."""
from __future__ import annotations

import ast

import z3

from contracts import c_lowering as CL
from olvc import sym
from olvc.evaluator import Machine
from olvc.oblig import paths_or_undecided
from olvc.runner import explore
from olvc.sym import Opaque, Seg, ctx, tagstr
from olvc.tmpl import Hole
from spec import target_lang as TL
from suites import c06, c07, c13

PROPERTY = "C12"
HOSTS = ["3.12"]
LEVEL = "proof"
TRUSTED_BASE = [
    "reading of the class idiom: M(name, bases, {}, **kw) creates the class; setattr(C, k, v) for (k, v) in the member dict installs members in insertion order; `__class__ := C` in the loader lambda makes the cell methods capture",
    "contracts of Namespace.get_assign/get_load_name for class scopes (C06) and of expr_transf",
    "Language Reference 8.8 (class definitions), data model 3.3.3 (metaclasses)",
]
ASSUMPTIONS = ["class-creation hooks that observe the namespace at creation time (__prepare__, __set_name__, the namespace argument of the metaclass / __init_subclass__) see an EMPTY namespace: consequence of the idiom, excluded by the property text ('not inspecting ... class-creation hooks'), listed in DESIGN"]
EXPLANATION = "symbolic execution of the real class lowering; structure and traces against the class-creation protocol"


def stubs():
    return c13.stubs()


def g_class_shape(R, tier):
    pn = CL.pn()
    base = "pending_nodes.PendingClassDef.get_result"
    for meta in ("type", "metaclass"):
        def run(c):
            m = Machine(stubs=stubs())
            kw = lambda t: ast.keyword(arg=Hole((t, "arg"), "ident", **{"not_in": {"metaclass"}}), value=CL.src((t, "value")))
            K1, K2 = CL.seg("K1", kw), CL.seg("K2", kw)
            kws = [K1, K2] if meta == "type" else [K1, ast.keyword(arg="metaclass", value=CL.src("META")), K2]
            node = ast.ClassDef(name="C", bases=[CL.seg("BASE", lambda t: CL.src(t))], keywords=kws, body=[], decorator_list=[], lineno=3, col_offset=0)
            symt = Opaque(("cls", "symt"), object, methods=dict(get_lineno=lambda o: 3, get_name=lambda o: "C"))
            inner = CL.mk_nsp("cls", kinds=("class",), symt=symt, class_member_dict_expr=ast.Name(id=Hole("clsdict", "ident", fresh=True)))
            outer = CL.mk_nsp("outer", inner_nsp=[inner])
            self_ = CL.mk_pending(pn.PendingClassDef, node, outer, CL.mk_global(), m=m)
            self_.converted_body = c07.R_list("BODY")
            return dict(res=m.call_value(pn.PendingClassDef.get_result, self_), node=node, inner=inner, self_=self_)
        paths = explore(run)
        nm = f"{base}[{meta}]"
        if not paths_or_undecided(R, nm + "/paths", paths):
            continue
        for p in paths:
            sig = p.ctx.signature()
            if p.kind != "ok":
                R.fail(f"{nm}/no-unexpected-raise/{sig}", repr(p.value))
                continue
            c, v = p.ctx, p.value
            res, node, inner = v["res"], v["node"], v["inner"]
            sym.set_ctx(c)
            try:
                # ---- 1. creation ---------------------------------------------------------
                first = res[0] if res else None
                sem = first.props.get("sem") if isinstance(first, Opaque) else None
                okb = sem is not None and sem[0] == "store" and sem[1] == "outer" and sem[2] == "C"
                R.check(f"{nm}/class-name-bound-in-the-defining-scope-first/{sig}", okb, repr(first), replay=dict(kind="classes"))
                if not okb:
                    continue
                call = sem[3]
                okc = isinstance(call, ast.Call) and len(call.args) == 3 and isinstance(call.args[0], ast.Constant) and call.args[0].value == "C" \
                    and isinstance(call.args[1], ast.Tuple) and isinstance(call.args[2], ast.Dict) and not call.args[2].keys and not call.args[2].values
                R.check(f"{nm}/created-by-calling-the-metaclass-with-name-bases-empty-namespace/{sig}", bool(okc), ast.dump(call)[:200] if isinstance(call, ast.AST) else repr(call))
                if not okc:
                    continue
                if meta == "type":
                    okm = isinstance(call.func, ast.Name) and call.func.id == "type"
                else:
                    okm = isinstance(call.func, Opaque) and call.func.props.get("sem", (0,))[0] == "T" and tagstr(call.func.props["sem"][2].tag) == "META"
                R.check(f"{nm}/metaclass-is-the-keyword-or-type/{sig}", bool(okm), repr(call.func), replay=dict(kind="classes"))
                BASE = node.bases[0]
                bases = call.args[1].elts
                okbases = len(bases) == 1 and isinstance(bases[0], Seg) and TL.term_eq(c, bases[0].length, BASE.length) and not bases[0].rev \
                    and bases[0].items[0].props.get("sem", (0, 0, 0))[2] is BASE.items[0] if not c13._provably_zero(c, BASE.length) else True
                R.check(f"{nm}/bases-in-source-order/{sig}", bool(okbases), repr(bases), replay=dict(kind="classes"))
                src_kws = [k for k in node.keywords if isinstance(k, Seg) and not c13._provably_zero(c, k.length)]
                out_kws = [k for k in call.keywords if not (isinstance(k, Seg) and c13._provably_zero(c, k.length))]
                okk = len(src_kws) == len(out_kws)
                for a, b in zip(src_kws, out_kws):
                    okk = okk and isinstance(b, Seg) and TL.term_eq(c, a.length, b.length) and b.items[0].arg is a.items[0].arg \
                        and b.items[0].value.props.get("sem", (0, 0, 0))[2] is a.items[0].value
                R.check(f"{nm}/remaining-keywords-in-source-order-without-metaclass/{sig}", bool(okk), repr(call.keywords), replay=dict(kind="classes"))
                # ---- 2. loader -------------------------------------------------------------------
                loaders = [(i, x) for i, x in enumerate(res) if isinstance(x, ast.NamedExpr) and isinstance(x.value, ast.Lambda)]
                okl = len(loaders) == 1 and loaders[0][0] == 1
                R.check(f"{nm}/one-loader-lambda-after-the-binding/{sig}", okl, repr(res))
                if not okl:
                    continue
                lam = loaders[0][1].value
                a = lam.args
                noparams = not (a.posonlyargs or a.args or a.kwonlyargs or a.vararg or a.kwarg)
                lb = lam.body
                shape = isinstance(lb, ast.Subscript) and isinstance(lb.value, ast.List)
                R.check(f"{nm}/loader-takes-no-arguments-and-evaluates-a-list/{sig}", noparams and shape, repr(lb))
                if not shape:
                    continue
                elts = lb.value.elts
                dkey = TL.nk(inner.fields["class_member_dict_expr"].id)
                e0, e1, elast = elts[0], elts[1], elts[-1]
                ok0 = isinstance(e0, ast.NamedExpr) and e0.target.id == "__class__" and isinstance(e0.value, Opaque) and e0.value.props.get("sem", (0,))[0] == "load" \
                    and e0.value.props["sem"][1] == "outer" and e0.value.props["sem"][2] == "C"
                R.check(f"{nm}/__class__-cell-is-the-class-read-back-through-the-namespace/{sig}", bool(ok0), repr(e0), replay=dict(kind="classes"))
                ok1 = isinstance(e1, ast.NamedExpr) and TL.nk(e1.target.id) == dkey and isinstance(e1.value, ast.Dict) and not e1.value.keys
                okl_ = isinstance(elast, ast.Name) and TL.nk(elast.id) == dkey
                R.check(f"{nm}/member-dict-created-empty-before-the-body-and-returned-last/{sig}", bool(ok1 and okl_), f"{e1!r} ... {elast!r}")
                body = elts[2:-1]
                BODY = v["self_"].converted_body[0]
                okbody = (len(body) == 1 and body[0] is BODY) if not c13._provably_zero(c, BODY.length) else all(isinstance(x, Seg) for x in body)
                R.check(f"{nm}/body-statements-once-in-order-inside-the-loader/{sig}", bool(okbody), repr(body))
                # ---- 3. installation -------------------------------------------------------------
                comps = [(i, x) for i, x in enumerate(res) if isinstance(x, ast.ListComp)]
                oki = len(comps) == 1 and comps[0][0] == 2
                R.check(f"{nm}/members-installed-right-after-the-loader-ran/{sig}", oki, repr(res))
                if not oki:
                    continue
                lc = comps[0][1]
                g = lc.generators[0] if len(lc.generators) == 1 else None
                tgt = g.target if g is not None else None
                names = [t.id for t in tgt.elts] if isinstance(tgt, (ast.Tuple, ast.List)) and all(isinstance(t, ast.Name) for t in tgt.elts) else None
                it = g.iter if g is not None else None
                okit = isinstance(it, ast.Call) and isinstance(it.func, ast.Attribute) and it.func.attr == "items" and not it.args and isinstance(it.func.value, ast.Call) \
                    and isinstance(it.func.value.func, ast.Name) and TL.nk(it.func.value.func.id) == TL.nk(loaders[0][1].target.id) and not it.func.value.args and not g.ifs
                R.check(f"{nm}/iterates-the-items-of-the-dict-the-loader-returns-once/{sig}", bool(okit) and names is not None and len(names) == 2, repr(it))
                e = lc.elt
                okset = names is not None and isinstance(e, ast.Call) and isinstance(e.func, ast.Name) and e.func.id == "setattr" and len(e.args) == 3 \
                    and isinstance(e.args[0], Opaque) and e.args[0].props.get("sem", (0,))[0] == "load" and e.args[0].props["sem"][2] == "C" \
                    and isinstance(e.args[1], ast.Name) and isinstance(e.args[2], ast.Name) and [e.args[1].id, e.args[2].id] == names
                R.check(f"{nm}/every-member-set-on-the-class-under-its-own-key/{sig}", bool(okset), repr(e), replay=dict(kind="classes"))
            finally:
                sym.set_ctx(None)


def g_methods(R, tier):
    """method lambdas: __class__ mentioned iff zero-argument super() is used; __init_subclass__
    implicitly a classmethod (data model 3.3.3.1), applied after the decorators"""
    pn = CL.pn()
    base = "pending_nodes.PendingFunctionDef.get_result"
    # data model 3.3.3: __init_subclass__ and __class_getitem__ are class methods without a decorator
    for name in ("m", "__init_subclass__", "__class_getitem__"):
        for is_method in (False, True):
            for uses_super in (False, True):
                def run(c):
                    m = Machine(stubs=stubs())
                    node = ast.FunctionDef(name=name, args=ast.arguments(posonlyargs=[], args=[], kwonlyargs=[], kw_defaults=[], defaults=[]),
                                           body=[], decorator_list=[CL.seg("DEC", lambda t: CL.src(t))], returns=None, lineno=7, col_offset=0)
                    inner = c07.mk_function_nsp(node, is_method=is_method, zero_arg_super_used=uses_super)
                    outer = CL.mk_nsp("outer", inner_nsp=[inner])
                    self_ = CL.mk_pending(pn.PendingFunctionDef, node, outer, CL.mk_global(), m=m)
                    self_.converted_body = c07.R_list("BODY")
                    return dict(res=m.call_value(pn.PendingFunctionDef.get_result, self_), node=node)
                paths = explore(run)
                nm = f"{base}[{name},{'method' if is_method else 'function'},{'super' if uses_super else 'no-super'}]"
                if not paths_or_undecided(R, nm + "/paths", paths):
                    continue
                for p in paths:
                    sig = p.ctx.signature()
                    if p.kind != "ok":
                        R.fail(f"{nm}/no-unexpected-raise/{sig}", repr(p.value))
                        continue
                    c = p.ctx
                    res = p.value["res"]
                    sem = res[0].props.get("sem") if len(res) == 1 and isinstance(res[0], Opaque) else None
                    val = sem[3] if sem and sem[0] == "store" else None
                    # peel classmethod(...) and the decorator fold
                    wrapped = isinstance(val, ast.Call) and isinstance(val.func, ast.Name) and val.func.id == "classmethod" and len(val.args) == 1
                    want_wrap = is_method and name in ("__init_subclass__", "__class_getitem__")
                    R.check(f"{nm}/implicit-classmethod-iff-method-named-__init_subclass__/{sig}", wrapped == want_wrap, repr(val),
                            replay=dict(kind="classes"))
                    inner_val = val.args[0] if wrapped else val
                    from olvc.sym import Fold
                    lam = inner_val.init if isinstance(inner_val, Fold) else inner_val
                    if wrapped and want_wrap:
                        R.check(f"{nm}/classmethod-applied-after-the-decorators/{sig}", isinstance(inner_val, (Fold, ast.Lambda)), repr(inner_val))
                    if isinstance(lam, ast.Lambda) and isinstance(lam.body, ast.Subscript) and isinstance(lam.body.value, ast.List):
                        mentions = any(isinstance(e, ast.Name) and e.id == "__class__" for e in lam.body.value.elts)
                        R.check(f"{nm}/lambda-mentions-__class__-iff-zero-argument-super-is-used/{sig}", mentions == uses_super, repr(lam.body.value.elts),
                                replay=dict(kind="classes"))
                    else:
                        R.undecided(f"{nm}/lambda-shape/{sig}", repr(lam))


GROUPS = {"class_shape": g_class_shape, "methods": g_methods, "class_header_order_and_decorators": c07.g_classdef, "method_super_free_names": c06.g_method_super,
          "canary": c13.g_canary}

CLASS_PROGRAMS = [
    "class A:\n    def __class_getitem__(cls, item):\n        return (cls is A, item * 2)\nclass B(A):\n    pass\nr = (A[3], B['x'])\n",
    "seen = []\ndef traced(fn):\n    def w(*a, **k):\n        seen.append('hook')\n        return fn(*a, **k)\n    return w\n"
    "class Base:\n    @traced\n    def __init_subclass__(cls, **kw):\n        cls.tag = sorted(kw)\nclass Sub(Base, flag=1):\n    pass\n"
    "class B2:\n    @classmethod\n    def __init_subclass__(cls):\n        cls.hooked = True\nclass S2(B2):\n    pass\n"
    "r = (Sub.tag, seen, S2.hooked, type(vars(Base)['__init_subclass__']).__name__, type(vars(B2)['__init_subclass__']).__name__)\n",
    "class A:\n    x = 1\n    def m(self):\n        return self.x\nr = (A().m(), sorted(k for k in vars(A) if not k.startswith('__')))\n",
    "class P:\n    def m(self):\n        return 1\nclass A(P):\n    def m(self):\n        return super().m() + 1\n    @staticmethod\n    def s(v):\n        return v\n    @classmethod\n    def c(cls):\n        return cls.__name__\n    @property\n    def p(self):\n        return 7\nr = (A().m(), A.s(2), A.c(), A().p, [k.__name__ for k in A.__mro__])\n",
    "class M(type):\n    def __new__(m, n, b, d, **k):\n        c = super().__new__(m, n, b, d)\n        c.kw = k\n        return c\n    def __init__(c, n, b, d, **k):\n        pass\nclass B: pass\nclass A(B, metaclass=M, flag=1):\n    y = 2\nr = (type(A).__name__, A.kw, A.y, [k.__name__ for k in A.__mro__])\n",
    "log = []\nclass Base:\n    def __init_subclass__(cls, tag=None, **kw):\n        log.append((cls.__name__, tag))\nclass C(Base, tag='t'):\n    pass\nr = log\n",
    "def deco(c):\n    c.tag = 1\n    return c\n@deco\nclass C:\n    pass\ndef outer():\n    x = 5\n    class A:\n        def m(self):\n            return x\n    class B(A):\n        def m(self):\n            return super().m() + x\n    return B().m()\nr = (C.tag, outer())\n",
    "class A:\n    n = 0\n    while n < 6:\n        n += 2\n    if n > 5:\n        big = True\n    class Inner:\n        z = 9\nr = (A.n, A.big, A.Inner.z)\n",
]


def replay_classes(rp):
    from suites import replay_util as RU
    for src in CLASS_PROGRAMS:
        rep = RU.replay_source(src, "same-globals", names=["r"])
        if rep.get("reproduced"):
            return rep
    return dict(reproduced=False, programs=len(CLASS_PROGRAMS))


REPLAY = dict(c13.REPLAY)
REPLAY["classes"] = replay_classes

from suites import thorough as _th
GROUPS["thorough:class-programs"] = _th.bounded_from_replay("bounded/class-programs", replay_classes)
from suites import progenum as _pg
GROUPS["thorough:enum-class-statements"] = _th.only_thorough(_pg.g_f6)
