"""C12 -- classes keep their members, bases, metaclass, method kinds and super().

PendingClassDef.get_result against the class-creation idiom (DESIGN 4.2): the class object
is created by types.new_class (data model 3.3.3: MRO entries, metaclass, __prepare__) with the
name, the bases and ALL keywords in source order and an EMPTY body, and kept in a fresh
reserved name; the class name is bound through the namespace LAST (Language Reference 8.8),
to what the decorators return; the body
runs once, in order, inside the loader lambda with stores routed to the member dict
(namespace contract, C06); every entry of the member dict is installed with setattr in
insertion order; decorators are applied last (C07 group, shared); zero-argument super():
the method's lambda mentions __class__ and __init_subclass__ is wrapped in classmethod."""
from __future__ import annotations

import ast

import z3

from contracts import c_lowering as CL
from olvc import sym
from olvc.evaluator import Machine
from olvc.oblig import paths_or_undecided
from olvc.runner import explore
from olvc.sym import Opaque, Seg, ctx, tagstr
from olvc.tmpl import Hole
from spec import target_lang as TL
from suites import c06, c07, c13

PROPERTY = "C12"
HOSTS = ["3.12"]
LEVEL = "proof"
TRUSTED_BASE = [
    "reading of the class idiom: types.new_class(name, bases, kwds) creates the class as the class statement does with an empty body (stdlib, documented equivalent of data model 3.3.3.1-3.3.3.3 and 3.3.3.6); setattr(C, k, v) for (k, v) in the member dict installs members in insertion order; `__class__ := C` in the loader lambda makes the cell methods capture",
    "contracts of Namespace.get_assign/get_load_name for class scopes (C06) and of expr_transf",
    "Language Reference 8.8 (class definitions), data model 3.3.3 (metaclasses)",
]
ASSUMPTIONS = ["class-creation hooks that observe the namespace at creation time (__prepare__, __set_name__, the namespace argument of the metaclass / __init_subclass__) see an EMPTY namespace: consequence of the idiom, excluded by the property text ('not inspecting ... class-creation hooks'), listed in DESIGN"]
EXPLANATION = "symbolic execution of the real class lowering; structure and traces against the class-creation protocol"


def stubs():
    return c13.stubs()


def g_class_shape(R, tier):
    pn = CL.pn()
    base = "pending_nodes.PendingClassDef.get_result"
    for meta in ("type", "metaclass"):
        def run(c):
            m = Machine(stubs=stubs())
            kw = lambda t: ast.keyword(arg=Hole((t, "arg"), "ident", **{"not_in": {"metaclass"}}), value=CL.src((t, "value")))
            star = lambda t: ast.keyword(arg=None, value=CL.src((t, "value")))
            # named keywords, a run of **mappings, named keywords; the metaclass keyword between them
            K1, KS, K2 = CL.seg("K1", kw), CL.seg("KS", star), CL.seg("K2", kw)
            kws = [K1, KS, K2] if meta == "type" else [K1, ast.keyword(arg="metaclass", value=CL.src("META")), KS, K2]
            node = ast.ClassDef(name="C", bases=[CL.seg("BASE", lambda t: CL.src(t))], keywords=kws, body=CL.fn_body(), decorator_list=[], lineno=3, col_offset=0)
            symt = Opaque(("cls", "symt"), object, methods=dict(get_lineno=lambda o: 3, get_name=lambda o: "C"))
            inner = CL.mk_nsp("cls", kinds=("class",), symt=symt, class_member_dict_expr=ast.Name(id=Hole("clsdict", "ident", fresh=True)))
            outer = CL.mk_nsp("outer", inner_nsp=[inner])
            self_ = CL.mk_pending(pn.PendingClassDef, node, outer, CL.mk_global(), m=m)
            self_.converted_body = c07.R_list("BODY")
            return dict(res=m.call_value(pn.PendingClassDef.get_result, self_), node=node, inner=inner, self_=self_)
        paths = explore(run)
        nm = f"{base}[{meta}]"
        if not paths_or_undecided(R, nm + "/paths", paths):
            continue
        for p in paths:
            sig = p.ctx.signature()
            if p.kind != "ok":
                R.fail(f"{nm}/no-unexpected-raise/{sig}", repr(p.value))
                continue
            c, v = p.ctx, p.value
            res, node, inner = v["res"], v["node"], v["inner"]
            sym.set_ctx(c)
            try:
                # ---- 1. creation (data model 3.3.3: MRO entries, metaclass of the keywords or
                # of the bases, __prepare__, the metaclass called with name, bases, namespace and
                # the remaining keywords -- what types.new_class(name, bases, kwds) does) ----------
                first = res[0] if res else None
                created = getattr(c, "ol_created", ())
                okt = isinstance(first, ast.NamedExpr) and isinstance(first.target, ast.Name) and any(first.target.id is h for h in created)
                R.check(f"{nm}/class-object-kept-in-a-fresh-reserved-name-first/{sig}", bool(okt), repr(first), replay=dict(kind="classes"))
                if not okt:
                    continue
                CLS = first.target.id
                is_cls = lambda e: isinstance(e, ast.Name) and e.id is CLS
                call = first.value
                f = call.func if isinstance(call, ast.Call) else None
                okf = isinstance(f, ast.Attribute) and f.attr == "new_class" and isinstance(f.value, ast.Call) and isinstance(f.value.func, ast.Name) \
                    and f.value.func.id == "__import__" and len(f.value.args) == 1 and not f.value.keywords \
                    and isinstance(f.value.args[0], ast.Constant) and f.value.args[0].value == "types"
                okc = okf and not call.keywords and len(call.args) in (3, 4) and isinstance(call.args[0], ast.Constant) and call.args[0].value == "C" \
                    and isinstance(call.args[1], ast.Tuple) and isinstance(call.args[2], ast.Dict)
                R.check(f"{nm}/created-by-types.new_class-with-name-bases-keywords/{sig}", bool(okc), ast.dump(call)[:200] if isinstance(call, ast.AST) else repr(call),
                        replay=dict(kind="classes"))
                if not okc:
                    continue
                BASE = node.bases[0]
                bases = call.args[1].elts
                okbases = len(bases) == 1 and isinstance(bases[0], Seg) and TL.term_eq(c, bases[0].length, BASE.length) and not bases[0].rev \
                    and bases[0].items[0].props.get("sem", (0, 0, 0))[2] is BASE.items[0] if not c13._provably_zero(c, BASE.length) else True
                R.check(f"{nm}/bases-in-source-order/{sig}", bool(okbases), repr(bases), replay=dict(kind="classes"))
                # every keyword of the statement, the metaclass keyword among them, is an entry
                # of the keyword dict, in source order; **mappings are unpacked in place
                live = lambda xs: [k for k in xs if not (isinstance(k, Seg) and c13._provably_zero(c, k.length))]
                src_kws, keys, vals = live(node.keywords), live(call.args[2].keys), live(call.args[2].values)
                okk = len(src_kws) == len(keys) == len(vals)
                is_T = lambda e, srcnode: isinstance(e, Opaque) and e.props.get("sem", (0, 0, 0))[0] == "T" and e.props["sem"][1] == "outer" and e.props["sem"][2] is srcnode
                for a, k, b in zip(src_kws, keys, vals) if okk else ():
                    if isinstance(a, Seg):
                        okk = okk and isinstance(k, Seg) and isinstance(b, Seg) and not k.rev and not b.rev \
                            and TL.term_eq(c, a.length, k.length) and TL.term_eq(c, a.length, b.length) and is_T(b.items[0], a.items[0].value)
                        if a.items[0].arg is None:
                            okk = okk and k.items[0] is None
                        else:
                            okk = okk and isinstance(k.items[0], ast.Constant) and k.items[0].value is a.items[0].arg
                    else:
                        okk = okk and isinstance(k, ast.Constant) and k.value == "metaclass" and is_T(b, a.value)
                R.check(f"{nm}/all-keywords-metaclass-included-in-source-order/{sig}", bool(okk), f"{call.args[2].keys!r} {call.args[2].values!r}", replay=dict(kind="classes"))
                # the only thing the creation-time body does: __module__ = __name__ (data model
                # 3.3.3.4 / Language Reference 8.8: the namespace of a class starts with __module__)
                if len(call.args) == 4:
                    xb = call.args[3]
                    a4 = xb.args if isinstance(xb, ast.Lambda) else None
                    one = a4 is not None and len(a4.args) == 1 and not (a4.posonlyargs or a4.kwonlyargs or a4.vararg or a4.kwarg or a4.defaults)
                    pnm = a4.args[0].arg if one else None
                    bd = xb.body if one else None
                    okx = one and isinstance(bd, ast.Call) and isinstance(bd.func, ast.Attribute) and bd.func.attr == "__setitem__" \
                        and isinstance(bd.func.value, ast.Name) and bd.func.value.id == pnm and pnm != "__name__" and len(bd.args) == 2 and not bd.keywords \
                        and isinstance(bd.args[0], ast.Constant) and bd.args[0].value == "__module__" and isinstance(bd.args[1], ast.Name) and bd.args[1].id == "__name__"
                    R.check(f"{nm}/creation-time-body-only-sets-__module__-from-__name__/{sig}", bool(okx), ast.dump(xb)[:200] if isinstance(xb, ast.AST) else repr(xb))
                # ---- 2. loader -------------------------------------------------------------------
                loaders = [(i, x) for i, x in enumerate(res) if isinstance(x, ast.NamedExpr) and isinstance(x.value, ast.Lambda)]
                okl = len(loaders) == 1 and loaders[0][0] == 1
                R.check(f"{nm}/one-loader-lambda-after-the-creation/{sig}", okl, repr(res))
                if not okl:
                    continue
                lam = loaders[0][1].value
                a = lam.args
                noparams = not (a.posonlyargs or a.args or a.kwonlyargs or a.vararg or a.kwarg)
                lb = lam.body
                shape = isinstance(lb, ast.Subscript) and isinstance(lb.value, ast.List)
                R.check(f"{nm}/loader-takes-no-arguments-and-evaluates-a-list/{sig}", noparams and shape, repr(lb))
                if not shape:
                    continue
                elts = lb.value.elts
                dkey = TL.nk(inner.fields["class_member_dict_expr"].id)
                e0, e1, elast = elts[0], elts[1], elts[-1]
                # data model 3.3.3.6: __class__ is the class object itself, whatever the name is bound to
                ok0 = isinstance(e0, ast.NamedExpr) and e0.target.id == "__class__" and is_cls(e0.value)
                R.check(f"{nm}/__class__-cell-is-the-created-class-object/{sig}", bool(ok0), repr(e0), replay=dict(kind="classes"))
                ok1 = isinstance(e1, ast.NamedExpr) and TL.nk(e1.target.id) == dkey and isinstance(e1.value, ast.Dict) and not e1.value.keys
                okl_ = isinstance(elast, ast.Name) and TL.nk(elast.id) == dkey
                R.check(f"{nm}/member-dict-created-empty-before-the-body-and-returned-last/{sig}", bool(ok1 and okl_), f"{e1!r} ... {elast!r}")
                body = elts[2:-1]
                BODY = v["self_"].converted_body[0]
                okbody = (len(body) == 1 and body[0] is BODY) if not c13._provably_zero(c, BODY.length) else all(isinstance(x, Seg) for x in body)
                R.check(f"{nm}/body-statements-once-in-order-inside-the-loader/{sig}", bool(okbody), repr(body))
                # ---- 3. installation -------------------------------------------------------------
                comps = [(i, x) for i, x in enumerate(res) if isinstance(x, ast.ListComp)]
                oki = len(comps) == 1 and comps[0][0] == 2
                R.check(f"{nm}/members-installed-right-after-the-loader-ran/{sig}", oki, repr(res))
                if not oki:
                    continue
                lc = comps[0][1]
                g = lc.generators[0] if len(lc.generators) == 1 else None
                tgt = g.target if g is not None else None
                names = [t.id for t in tgt.elts] if isinstance(tgt, (ast.Tuple, ast.List)) and all(isinstance(t, ast.Name) for t in tgt.elts) else None
                it = g.iter if g is not None else None
                okit = isinstance(it, ast.Call) and isinstance(it.func, ast.Attribute) and it.func.attr == "items" and not it.args and isinstance(it.func.value, ast.Call) \
                    and isinstance(it.func.value.func, ast.Name) and TL.nk(it.func.value.func.id) == TL.nk(loaders[0][1].target.id) and not it.func.value.args and not g.ifs
                R.check(f"{nm}/iterates-the-items-of-the-dict-the-loader-returns-once/{sig}", bool(okit) and names is not None and len(names) == 2, repr(it))
                e = lc.elt
                okset = names is not None and isinstance(e, ast.Call) and isinstance(e.func, ast.Name) and e.func.id == "setattr" and len(e.args) == 3 \
                    and is_cls(e.args[0]) \
                    and isinstance(e.args[1], ast.Name) and isinstance(e.args[2], ast.Name) and [e.args[1].id, e.args[2].id] == names
                R.check(f"{nm}/every-member-set-on-the-class-under-its-own-key/{sig}", bool(okset), repr(e), replay=dict(kind="classes"))
                # ---- 4. binding (Language Reference 8.8: "the class name is bound to this class
                # object in the original local namespace", after the body and the decorators) ----
                last = res[-1]
                sem = last.props.get("sem") if isinstance(last, Opaque) else None
                okb = len(res) == 4 and sem is not None and sem[0] == "store" and sem[1] == "outer" and sem[2] == "C" and is_cls(sem[3])
                R.check(f"{nm}/class-name-bound-in-the-defining-scope-last-to-the-class/{sig}", bool(okb), repr(res), replay=dict(kind="classes"))
                others = [x for x in res[:-1] if isinstance(x, Opaque) and (x.props.get("sem") or (0,))[0] == "store"]
                R.check(f"{nm}/nothing-else-bound-in-the-defining-scope/{sig}", not others, repr(others), replay=dict(kind="classes"))
            finally:
                sym.set_ctx(None)


def g_methods(R, tier):
    """method lambdas: __class__ mentioned iff zero-argument super() is used; __init_subclass__
    implicitly a classmethod (data model 3.3.3.1), applied after the decorators"""
    pn = CL.pn()
    base = "pending_nodes.PendingFunctionDef.get_result"
    # data model 3.3.3: __init_subclass__ and __class_getitem__ are class methods without a decorator
    for name in ("m", "__init_subclass__", "__class_getitem__"):
        for is_method in (False, True):
            for uses_super in (False, True):
                def run(c):
                    m = Machine(stubs=stubs())
                    node = ast.FunctionDef(name=name, args=ast.arguments(posonlyargs=[], args=[], kwonlyargs=[], kw_defaults=[], defaults=[]),
                                           body=CL.fn_body(), decorator_list=[CL.seg("DEC", lambda t: CL.src(t))], returns=None, lineno=7, col_offset=0)
                    inner = c07.mk_function_nsp(node, is_method=is_method, zero_arg_super_used=uses_super)
                    outer = CL.mk_nsp("outer", inner_nsp=[inner])
                    self_ = CL.mk_pending(pn.PendingFunctionDef, node, outer, CL.mk_global(), m=m)
                    self_.converted_body = c07.R_list("BODY")
                    return dict(res=m.call_value(pn.PendingFunctionDef.get_result, self_), node=node)
                paths = explore(run)
                nm = f"{base}[{name},{'method' if is_method else 'function'},{'super' if uses_super else 'no-super'}]"
                if not paths_or_undecided(R, nm + "/paths", paths):
                    continue
                for p in paths:
                    sig = p.ctx.signature()
                    if p.kind != "ok":
                        R.fail(f"{nm}/no-unexpected-raise/{sig}", repr(p.value))
                        continue
                    c = p.ctx
                    res = p.value["res"]
                    sem = res[0].props.get("sem") if len(res) == 1 and isinstance(res[0], Opaque) else None
                    val = sem[3] if sem and sem[0] == "store" else None
                    # peel classmethod(...) and the decorator fold
                    wrapped = isinstance(val, ast.Call) and isinstance(val.func, ast.Name) and val.func.id == "classmethod" and len(val.args) == 1
                    want_wrap = is_method and name in ("__init_subclass__", "__class_getitem__")
                    R.check(f"{nm}/implicit-classmethod-iff-method-named-__init_subclass__/{sig}", wrapped == want_wrap, repr(val),
                            replay=dict(kind="classes"))
                    inner_val = val.args[0] if wrapped else val
                    from olvc.sym import Fold
                    lam = inner_val.init if isinstance(inner_val, Fold) else inner_val
                    if wrapped and want_wrap:
                        R.check(f"{nm}/classmethod-applied-after-the-decorators/{sig}", isinstance(inner_val, (Fold, ast.Lambda)), repr(inner_val))
                    if isinstance(lam, ast.Lambda) and isinstance(lam.body, ast.Subscript) and isinstance(lam.body.value, ast.List):
                        mentions = any(isinstance(e, ast.Name) and e.id == "__class__" for e in lam.body.value.elts)
                        R.check(f"{nm}/lambda-mentions-__class__-iff-zero-argument-super-is-used/{sig}", mentions == uses_super, repr(lam.body.value.elts),
                                replay=dict(kind="classes"))
                    else:
                        R.undecided(f"{nm}/lambda-shape/{sig}", repr(lam))


def g_witness(R, tier):
    """what the class idiom has no place for (see c06.native_finding): each clause is decided by
    its witness program against the real converter"""
    c06.native_finding(R, "pending_nodes.PendingClassDef.get_result/W1-members-are-present-when-the-class-object-is-created",
                       "the class is created with an empty body and filled with setattr: what type.__new__ derives from the namespace is lost "
                       "(data model 3.3.1 object.__hash__: a class that defines __eq__ without __hash__ gets __hash__ = None; also __slots__, "
                       "ABCMeta.__abstractmethods__, descriptors' __set_name__)",
                       "class A:\n    def __eq__(self, other):\n        return True\nr = A.__hash__ is None\n")
    c06.native_finding(R, "expr_transform+pending_nodes.PendingAssign.assign_attribute/W2-private-names-are-mangled-with-the-class-name",
                       "Language Reference 6.2.1: an identifier __v inside a class statement means _Class__v; the converted text is not inside a "
                       "class statement and nothing re-applies the mangling (`self.__v` of A and of its subclass B become one attribute)",
                       "class A:\n    def __init__(self):\n        self.__v = 'A'\n    def get(self):\n        return self.__v\n"
                       "class B(A):\n    def __init__(self):\n        super().__init__()\n        self.__v = 'B'\nr = (B().get(), sorted(vars(B())))\n")
    c06.native_finding(R, "pending_nodes.PendingWhile.get_result/W3-zero-argument-super-stays-in-the-function-of-the-method",
                       "zero-argument super() takes the first parameter of the function it is evaluated in (data model 3.3.3.6 / PEP 3135); the while "
                       "idiom moves the loop test into a helper lambda with a parameter of its own, so super() in a while test gets the loop counter",
                       "class A:\n    def more(self):\n        return False\nclass B(A):\n    def run(self):\n        while super().more():\n            pass\n        return 'ok'\nr = B().run()\n")


def g_zero_arg_super(R, tier):
    """PEP 3135 / data model 3.3.3.6: `super()` without arguments means super(__class__, <first
    positional parameter of the function the call is written in>).  The converted text evaluates
    source expressions inside helper lambdas that have parameters of their own (the test of a
    while loop), so the transformer must spell the two arguments out wherever the call belongs to
    the method itself; inside a lambda of the script (its own function) and under a comprehension
    target that hides the parameter the call is left as written."""
    E = c06.et()
    ns = c06.NS()
    base = "expr_transform.expr_transf[super()]"
    for kind in ("function", "class", "global"):
        for uses_super in (True, False):
            for first in ("me", None):
                for stack in ("plain", "in-comprehension", "under-a-target-named-like-the-parameter", "in-lambda"):
                    if kind != "function" and (not uses_super or first is None or stack != "plain"):
                        continue
                    def run(c):
                        m = Machine(stubs={"oneliner.reserved_identifiers:ol_name": CL.stub_ol_name()})  # the REAL transformer
                        fields = dict(zero_arg_super_used=uses_super, first_parameter=first, is_method=uses_super) if kind == "function" else {}
                        nsp = CL.mk_nsp("nsp", kinds=(kind,), **fields)
                        if stack == "in-comprehension":
                            nsp.fields["comp_stack"].append(Opaque("comp", None, cands=frozenset([E.PendingComp]), fields=dict(target_names={"other"})))
                        elif stack == "under-a-target-named-like-the-parameter":
                            nsp.fields["comp_stack"].append(Opaque("comp", None, cands=frozenset([E.PendingComp]), fields=dict(target_names={"other", "me"})))
                        elif stack == "in-lambda":
                            nsp.fields["comp_stack"].append(Opaque("lam", None, cands=frozenset([E.PendingLambda]), fields=dict(target_names={"x"})))
                        node = ast.Call(func=ast.Name(id="super", ctx=ast.Load()), args=[], keywords=[])
                        return dict(res=m.call_value(E.expr_transf, nsp, node), node=node)
                    paths = explore(run)
                    nm = f"{base}[{kind},{'uses-super' if uses_super else 'no-super'},first={first},{stack}]"
                    if not paths_or_undecided(R, nm + "/paths", paths):
                        continue
                    own = kind == "function" and uses_super and first is not None and stack in ("plain", "in-comprehension")
                    for p in paths:
                        sig = p.ctx.signature()
                        if p.kind != "ok":
                            R.fail(f"{nm}/no-unexpected-raise/{sig}", repr(p.value))
                            continue
                        res = p.value["res"]
                        is_load = lambda e, name: isinstance(e, Opaque) and (e.props.get("sem") or (0,))[0] == "load" and e.props["sem"][1] == "nsp" and e.props["sem"][2] == name
                        okcall = isinstance(res, ast.Call) and res is not p.value["node"] and is_load(res.func, "super") and not res.keywords
                        if own:
                            ok = okcall and len(res.args) == 2 and isinstance(res.args[0], ast.Name) and res.args[0].id == "__class__" and is_load(res.args[1], first)
                            R.check(f"{nm}/the-two-arguments-are-spelled-out/{sig}", bool(ok), ast.dump(res) if isinstance(res, ast.AST) else repr(res),
                                    replay=dict(kind="src", src=c07._SUPER_SRC, expect="same-globals"))
                        else:
                            R.check(f"{nm}/left-as-written/{sig}", bool(okcall and not res.args), ast.dump(res) if isinstance(res, ast.AST) else repr(res), replay=dict(kind="classes"))


GROUPS = {"zero_argument_super": g_zero_arg_super, "method_first_parameter": (lambda R, tier: c07.g_functiondef(R, tier, only="first-parameter")), "witness": g_witness, "class_shape": g_class_shape, "methods": g_methods, "class_header_order_and_decorators": c07.g_classdef, "method_super_free_names": c06.g_method_super,
          "canary": c13.g_canary}

CLASS_PROGRAMS = [
    "class A:\n    def __class_getitem__(cls, item):\n        return (cls is A, item * 2)\nclass B(A):\n    pass\nr = (A[3], B['x'])\n",
    "seen = []\ndef traced(fn):\n    def w(*a, **k):\n        seen.append('hook')\n        return fn(*a, **k)\n    return w\n"
    "class Base:\n    @traced\n    def __init_subclass__(cls, **kw):\n        cls.tag = sorted(kw)\nclass Sub(Base, flag=1):\n    pass\n"
    "class B2:\n    @classmethod\n    def __init_subclass__(cls):\n        cls.hooked = True\nclass S2(B2):\n    pass\n"
    "r = (Sub.tag, seen, S2.hooked, type(vars(Base)['__init_subclass__']).__name__, type(vars(B2)['__init_subclass__']).__name__)\n",
    "class A:\n    x = 1\n    def m(self):\n        return self.x\nr = (A().m(), sorted(k for k in vars(A) if not k.startswith('__')))\n",
    "class P:\n    def m(self):\n        return 1\nclass A(P):\n    def m(self):\n        return super().m() + 1\n    @staticmethod\n    def s(v):\n        return v\n    @classmethod\n    def c(cls):\n        return cls.__name__\n    @property\n    def p(self):\n        return 7\nr = (A().m(), A.s(2), A.c(), A().p, [k.__name__ for k in A.__mro__])\n",
    "class M(type):\n    def __new__(m, n, b, d, **k):\n        c = super().__new__(m, n, b, d)\n        c.kw = k\n        return c\n    def __init__(c, n, b, d, **k):\n        pass\nclass B: pass\nclass A(B, metaclass=M, flag=1):\n    y = 2\nr = (type(A).__name__, A.kw, A.y, [k.__name__ for k in A.__mro__])\n",
    "log = []\nclass Base:\n    def __init_subclass__(cls, tag=None, **kw):\n        log.append((cls.__name__, tag))\nclass C(Base, tag='t'):\n    pass\nr = log\n",
    "def deco(c):\n    c.tag = 1\n    return c\n@deco\nclass C:\n    pass\ndef outer():\n    x = 5\n    class A:\n        def m(self):\n            return x\n    class B(A):\n        def m(self):\n            return super().m() + x\n    return B().m()\nr = (C.tag, outer())\n",
    # data model 3.3.3.1 (__mro_entries__), 3.3.3.2 (metaclass found among **keywords / inherited), 3.3.3.3 (__prepare__ is called)
    "class G:\n    def __mro_entries__(self, bases):\n        return (dict,)\nclass A(G()):\n    pass\nr = ([k.__name__ for k in A.__mro__], type(A.__orig_bases__[0]).__name__)\n",
    "log = []\nclass M(type):\n    def __new__(m, n, b, d, **k):\n        log.append(sorted(k))\n        return super().__new__(m, n, b, d)\n    def __init__(c, n, b, d, **k):\n        pass\n"
    "kw = {'metaclass': M, 'z': 1}\nclass A(**kw):\n    x = 1\nclass B(A, w=2):\n    pass\nr = (type(A).__name__, type(B).__name__, A.x, log)\n",
    "log = []\nclass M(type):\n    @classmethod\n    def __prepare__(m, n, b, **k):\n        log.append(('prepare', n, sorted(k)))\n        return {}\n    def __new__(m, n, b, d, **k):\n        return super().__new__(m, n, b, d)\n    def __init__(c, n, b, d, **k):\n        pass\nclass A(metaclass=M, q=1):\n    v = 3\nr = (log, A.v)\n",
    # Language Reference 8.8: the name is bound after the body ran and the decorators were applied
    "A = 5\nclass A:\n    y = A\nlog = []\ndef d(c):\n    log.append(X)\n    return 7\nX = 1\n@d\nclass X:\n    z = X\nr = (A.y, log, X)\n",
    "class A:\n    def me(self):\n        return __class__\n    def name(self):\n        return A\nB = A\nA = None\nr = (B().me() is B, B().name())\n",
    "class A:\n    pass\nr = (A.__module__ == __name__, A.__name__)\n",
    # zero-argument super() takes the FIRST positional parameter, positional-only ones included; inside a lambda of the script, that lambda's
    "class P:\n    def label(self):\n        return 'P:' + self.tag\nclass Q(P):\n    tag = 'q'\n    def m(self, /, other):\n        return super().label() + other.tag\n"
    "    def n(me, other, /, *rest):\n        k = 0\n        while super().label() and k < 1:\n            k += 1\n        return super().label()\n"
    "class O(Q):\n    tag = 'o'\nr = (Q().m(O()), O().n(Q()))\n",
    "class A:\n    n = 0\n    while n < 6:\n        n += 2\n    if n > 5:\n        big = True\n    class Inner:\n        z = 9\nr = (A.n, A.big, A.Inner.z)\n",
]


def replay_classes(rp):
    from suites import replay_util as RU
    for src in CLASS_PROGRAMS:
        rep = RU.replay_source(src, "same-globals", names=["r"])
        if rep.get("reproduced"):
            return rep
    return dict(reproduced=False, programs=len(CLASS_PROGRAMS))


REPLAY = dict(c13.REPLAY)
REPLAY["classes"] = replay_classes

from suites import thorough as _th
GROUPS["thorough:class-programs"] = _th.bounded_from_replay("bounded/class-programs", replay_classes)
from suites import progenum as _pg
GROUPS["thorough:enum-class-statements"] = _th.only_thorough(_pg.g_f6)

# bounded stand-ins for undecided obligations (olvc/oblig.py::main_check)
STANDINS = {"*": [dict(kind="classes")]}
