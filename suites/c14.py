"""C14 -- imports bind the same objects to the same names.

PendingImport / PendingImportFrom get_result against the import statement's binding rules
(Language Reference 7.11): per alias, which name is bound in which scope to the result of
which import-machinery call, once, in source order; star import rejected; the helper module
is requested from the module level."""
from __future__ import annotations

import ast

import z3

from contracts import c_lowering as CL
from olvc import sym
from olvc.evaluator import Machine
from olvc.oblig import paths_or_undecided
from olvc.runner import explore
from olvc.sym import Opaque, Seg, ctx, tagstr
from olvc.tmpl import Hole
from spec import pysem, target_lang as TL
from suites import c07, c13

PROPERTY = "C14"
HOSTS = ["3.12"]
LEVEL = "proof"
TRUSTED_BASE = [
    "Language Reference 7.11: `import a.b` binds `a` to the top-level package after importing a.b; `import a.b as c` binds c to the module a.b; `from m import n as k` imports m, takes attribute n (importing the submodule m.n if needed) and binds k",
    "assumed contracts of the import machinery: importlib.import_module(name) imports and returns the named module; __import__(name) returns the TOP-LEVEL package; __import__(name, globals(), locals(), fromlist, level) imports the module (relative to the caller's package for level > 0), imports submodules named in fromlist, and returns the module itself",
    "contract of Namespace.get_assign (C06); spec/target_lang.py",
]
ASSUMPTIONS = ["sys.modules effects and import side effects are those of the assumed machinery calls"]
EXPLANATION = "symbolic execution of the real import lowering; traces compared with the binding rules of the import statement"


def stubs():
    return c13.stubs()


def alias(tag, asname, dotted=None, star=False):
    # star: the name of a from-import alias may also be "*"
    # the name of an `import` alias is a dotted name
    name = Hole((tag, "name"), "ident", star=True) if star else Hole((tag, "name"), "ident", dotted=True)
    return ast.alias(name=name, asname=Hole((tag, "asname"), "ident") if asname else None)


def g_import(R, tier):
    pn = CL.pn()
    base = "pending_nodes.PendingImport"

    def run(c):
        m = Machine(stubs=stubs())
        # two adjacent runs (with / without `as`), so that their relative order is covered
        A1 = CL.seg("A1", lambda t: alias(t, not c.branch(z3.Bool("A1.no_asname"))))
        A2 = CL.seg("A2", lambda t: alias(t, not c.branch(z3.Bool("A2.no_asname"))))
        node = ast.Import(names=[A1, A2])
        G = CL.mk_global()
        self_ = CL.mk_pending(pn.PendingImport, node, CL.mk_nsp(), G, m=m)
        res = m.call_value(pn.PendingImport.get_result, self_)
        return dict(res=res, node=node, G=G)
    paths = explore(run)
    if not paths_or_undecided(R, base + "/paths", paths):
        return
    for p in paths:
        sig = p.ctx.signature()
        if p.kind != "ok":
            R.fail(f"{base}/no-unexpected-raise/{sig}", repr(p.value))
            continue
        c, v = p.ctx, p.value
        sym.set_ctx(c)
        try:
            R.check(f"{base}.__init__/helper-module-requested/{sig}", getattr(v["G"], "use_importlib", True) is True, "")
            ev = c13.EvalA()
            try:
                ev.seq(v["res"])
            except TL.NotInFragment as e:
                R.undecided(f"{base}.get_result/reading/{sig}", str(e))
                continue
            got = c07.prune_zero(c, TL.observable(ev.tr))
            want = []
            for A, tag in ((v["node"].names[0], "A1"), (v["node"].names[1], "A2")):
                if c13._provably_zero(c, A.length):
                    continue
                al = A.items[0]
                name = ("id", tagstr(al.name.tag))
                has_as = al.asname is not None
                dotted = c.valid(al.name.fact("contains:'.'") if False else z3.BoolVal(False))[0]
                facts = " ".join(c.facts)
                dotted = f"contains:'.':" in facts and any(("contains:'.'" in f and not f.startswith("Not(") and tagstr(al.name.tag)[:4] in f) for f in c.facts)
                mod = ("const", ("str", name))
                if has_as:
                    ev_ = [("call", ("attr", ("name", "importlib"), "import_module"), (mod,), ()),
                           ("store", "nsp", ("id", tagstr(al.asname.tag)), ("app", ("attr", ("name", "importlib"), "import_module"), (mod,), ()))]
                else:
                    ev_ = None
                want.append((A, al, has_as, ev_))
            # compare run by run
            runs = [g for g in got if g[0] == "rep"]
            ok_all = len(runs) == len(want)
            detail = TL.show(got)
            for g, (A, al, has_as, ev_) in zip(runs, want):
                inner = [e for e in g[4] if e[0] != "getattr"]
                stores = [e for e in inner if e[0] == "store"]
                calls = [e for e in inner if e[0] == "call"]
                ok = TL.term_eq(c, g[1], A.length) and g[3] is False and len(stores) == 1 and len(calls) == 1 and stores[0][1] == "nsp"
                if ok:
                    bound, val = stores[0][2], stores[0][3]
                    modarg = ("const", ("str", ("id", tagstr(al.name.tag))))
                    is_import_module = TL.term_eq(c, calls[0][1], ("attr", ("name", "importlib"), "import_module")) and TL.term_eq(c, calls[0][2], (modarg,))
                    is_dunder = calls[0][1] == ("builtin", "__import__") and TL.term_eq(c, calls[0][2], (modarg,))
                    if has_as:
                        ok = is_import_module and bound == ("id", tagstr(al.asname.tag)) and val[0] == "app"
                    else:
                        # no alias: plain name -> that module; dotted name -> the TOP package bound to the first component
                        plain = is_import_module and bound == ("id", tagstr(al.name.tag))
                        top = is_dunder and bound == ("id", tagstr((al.name.tag, "piece", 0)))
                        dotted_path = any("contains:'.'" in f and not f.startswith("Not(") for f in c.facts)
                        undotted_path = any("contains:'.'" in f and f.startswith("Not(") for f in c.facts)
                        ok = (top and dotted_path) or (plain and undotted_path) or (plain and not dotted_path and not undotted_path and False)
                ok_all = ok_all and ok
            R.check(f"{base}.get_result/each-alias-binds-the-right-name-to-the-right-module-once-in-order/{sig}", ok_all, detail,
                    replay=dict(kind="imports"))
        finally:
            sym.set_ctx(None)


def g_import_from(R, tier):
    pn = CL.pn()
    base = "pending_nodes.PendingImportFrom"
    for has_module in (True, False):
        def run(c):
            m = Machine(stubs=stubs())
            A1 = CL.seg("A1", lambda t: alias(t, not c.branch(z3.Bool("A1.no_asname")), star=True))
            A2 = CL.seg("A2", lambda t: alias(t, not c.branch(z3.Bool("A2.no_asname")), star=True))
            level = z3.Int("level")
            c.assume(level >= 0)
            from olvc.sym import SInt
            node = ast.ImportFrom(module=Hole("module", "ident", dotted=True) if has_module else None, names=[A1, A2], level=SInt(level))
            self_ = CL.mk_pending(pn.PendingImportFrom, node, CL.mk_nsp(), CL.mk_global(), m=m)
            return dict(res=m.call_value(pn.PendingImportFrom.get_result, self_), node=node)
        paths = explore(run)
        nm = f"{base}.get_result[{'module' if has_module else 'relative-only'}]"
        if not paths_or_undecided(R, nm + "/paths", paths):
            continue
        for p in paths:
            sig = p.ctx.signature()
            star = any("=='*'" in f and not f.startswith("Not(") for f in p.ctx.facts)
            if p.kind == "raise":
                R.check(f"{nm}/star-import-is-rejected/{sig}", star and isinstance(p.value, RuntimeError), repr(p.value))
                continue
            if p.kind != "ok":
                continue
            c, v = p.ctx, p.value
            sym.set_ctx(c)
            try:
                node = v["node"]
                # 0. a result is produced only after every imported name was found not to be "*"
                for A in node.names:
                    if c13._provably_zero(c, A.length):
                        continue
                    okstar, _ = c.valid(z3.Not(A.items[0].name.fact("=='*'")))
                    R.check(f"{nm}/accepted-only-when-no-imported-name-is-a-star[{A.tag}]/{sig}", okstar,
                            f"path facts {p.ctx.facts}: a result is returned although the name of run {A.tag} may be '*'", replay=dict(kind="star-import"))
                ev = c13.EvalA()
                try:
                    ev.seq(v["res"])
                except TL.NotInFragment as e:
                    R.undecided(f"{nm}/reading/{sig}", str(e))
                    continue
                tr = c07.prune_zero(c, TL.observable(ev.tr, keep_tmp=True))
                # 1. one machinery call, first: __import__(module or '', globals(), locals(), [names...], level)
                calls = [e for e in tr if e[0] == "call"]
                first = tr[0] if tr else None
                modarg = ("const", ("str", ("id", "module"))) if has_module else ("const", "")
                okc = first is not None and first[0] == "call" and first[1] == ("builtin", "__import__") and len(calls) == 1 and len(first[2]) == 5 \
                    and TL.term_eq(c, first[2][0], modarg) and first[2][1] == ("globals",) and first[2][2] == ("locals",) \
                    and TL.term_eq(c, first[2][4], ("const", z3.Int("level")))
                R.check(f"{nm}/one-import-call-with-module-globals-fromlist-level/{sig}", bool(okc), TL.show(tr[:2]), replay=dict(kind="imports"))
                if not okc:
                    continue
                fromlist = first[2][3]
                exp_from = []
                for A in node.names:
                    if not c13._provably_zero(c, A.length):
                        exp_from.append(("segvals", A.length, A.jvar, False, (("const", ("str", ("id", tagstr(A.items[0].name.tag)))),)))
                R.check(f"{nm}/fromlist-names-every-imported-name-in-order/{sig}", fromlist[0] == "listdisp" and TL.term_eq(c, c07_prune_vals(c, fromlist[1]), tuple(exp_from)),
                        f"{fromlist!r} expected {exp_from!r}", replay=dict(kind="imports"))
                # 2. then, per alias in order: bind (asname or name) to <module>.<name>
                binds = [e for e in tr[1:] if e[0] == "rep"]
                want = [A for A in node.names if not c13._provably_zero(c, A.length)]
                ok = len(binds) == len(want) and tr[1][0] == "tmpbind"
                modval = tr[1][2] if ok else None
                for g, A in zip(binds, want):
                    al = A.items[0]
                    st = [e for e in g[4] if e[0] == "store"]
                    bound = ("id", tagstr((al.asname if al.asname is not None else al.name).tag))
                    ok = ok and TL.term_eq(c, g[1], A.length) and g[3] is False and len(st) == 1 and st[0][1] == "nsp" and st[0][2] == bound \
                        and TL.term_eq(c, st[0][3], ("attr", modval, ("id", tagstr(al.name.tag))))
                R.check(f"{nm}/each-alias-binds-the-attribute-of-the-imported-module-in-order/{sig}", bool(ok), TL.show(tr), replay=dict(kind="imports"))
            finally:
                sym.set_ctx(None)


def c07_prune_vals(c, vals):
    return tuple(v for v in vals if not (isinstance(v, tuple) and v and v[0] == "segvals" and c13._provably_zero(c, v[1])))


def g_witness(R, tier):
    from suites import c06
    c06.native_finding(R, "pending_nodes.PendingImport.get_result/W1-import-a.b-as-c-binds-the-attribute-of-the-package",
                       "`import a.b as c` binds what `a.b` is after the import -- the ATTRIBUTE b of package a (IMPORT_FROM, since 3.7) -- not sys.modules['a.b']; "
                       "importlib.import_module('a.b') returns the latter. They differ when the package rebinds the name (unittest/__init__.py binds unittest.main to a class)",
                       "import unittest.main as m\nimport unittest\nr = (m is unittest.main, type(m).__name__)\n")


GROUPS = {"witness": g_witness, "import": g_import, "import_from": g_import_from, "canary": c13.g_canary}


def replay_imports(rp):
    """vendored package tree whose modules log their own import"""
    import os
    import shutil
    import sys
    import tempfile
    from suites import replay_util as RU
    d = tempfile.mkdtemp(prefix="olimp_")
    try:
        pk = os.path.join(d, "olpkg_v")
        os.makedirs(os.path.join(pk, "sub"))
        log = "import builtins\nbuiltins.__dict__.setdefault('_ol_import_log', []).append(__name__)\n"
        open(os.path.join(pk, "__init__.py"), "w").write(log + "top = 1\n__all__ = ['top', 'mod']\n")
        open(os.path.join(pk, "mod.py"), "w").write(log + "value = 2\n")
        open(os.path.join(pk, "sub", "__init__.py"), "w").write(log + "subv = 3\n__all__ = ['leaf']\n")
        open(os.path.join(pk, "sub", "leaf.py"), "w").write(log + "leafv = 4\n")
        sys.path.insert(0, d)
        progs = [
            "import olpkg_v\nr = olpkg_v.top\n",
            "import olpkg_v.mod\nr = (olpkg_v.top, olpkg_v.mod.value)\n",
            "import olpkg_v.sub.leaf as L\nr = L.leafv\n",
            "import olpkg_v.mod, olpkg_v.sub.leaf as L2, olpkg_v.sub\nr = (olpkg_v.mod.value, L2.leafv, olpkg_v.sub.subv)\n",
            "from olpkg_v import mod as M, top\nr = (M.value, top)\n",
            "from olpkg_v.sub import leaf, subv as s\nr = (leaf.leafv, s)\n",
            "def f():\n    import olpkg_v.sub.leaf\n    from olpkg_v.mod import value as v\n    return olpkg_v.sub.leaf.leafv, v\nr = f()\n",
            "class K:\n    import olpkg_v.mod as m\n    from olpkg_v import top\nr = (K.m.value, K.top)\n",
            "from olpkg_v import mod as M2\nr = M2.value\n",
            "from olpkg_v.sub import leaf as LF\nr = LF.leafv\n",
            "class K2:\n    import olpkg_v.sub.leaf\nr = K2.olpkg_v.sub.leaf.leafv\n",
            "def f2():\n    global olpkg_v\n    import olpkg_v.mod\nf2()\nr = olpkg_v.mod.value\n",
            "def f3():\n    import olpkg_v.sub\n    def g():\n        return olpkg_v.sub.subv\n    return g()\nr = f3()\n",
            "from .leaf import leafv as rv\nr = rv\n", "from ..mod import value as rv2\nfrom .. import top as rt\nr = (rv2, rt)\n", "from . import leaf as rl\nr = rl.leafv\n",
            "import olpkg_v.sub as S\nr = S.subv\n", "import olpkg_v as P\nr = P.top\n",
            # the same package imported from twice in one scope: every statement imports (a submodule not loaded yet, a statement on a path not taken)
            "from olpkg_v import top as t1\nfrom olpkg_v import mod as m2\nr = (t1, m2.value)\n",
            "def f4(flag):\n    if flag:\n        from olpkg_v import top as a\n    else:\n        a = 0\n    from olpkg_v import mod as b\n    return a, b.value\nr = (f4(False), f4(True))\n",
            "from olpkg_v.sub import subv as s1\nfrom olpkg_v.sub import leaf as l2\nr = (s1, l2.leafv)\n",
            # a package that rebinds the name of its submodule: `import p.m as x` takes the ATTRIBUTE
            "from olpkg_v.sub import leaf as first\nimport olpkg_v.sub\nolpkg_v.sub.leaf = 'rebound'\nfrom olpkg_v.sub import leaf as second\nr = (first.leafv, second)\n",
        ]
        import builtins
        for src in progs:
            for k in [k for k in sys.modules if k.startswith("olpkg_v")]:
                del sys.modules[k]
            pre = "import builtins, sys\nbuiltins._ol_import_log = []\n[sys.modules.pop(k) for k in [k for k in sys.modules if k.startswith('olpkg_v')]]\n__package__ = 'olpkg_v.sub'\n"
            post_names = ["r", "ilog"]
            rep = RU.replay_source(src + "ilog = list(__import__('builtins')._ol_import_log)\n", "same-globals", names=post_names, prelude=pre,
                                   opts=[("ast.unparse", "chain_call", "if_expr"), ("oneliner", "list", "short_circuit")])
            if rep.get("reproduced"):
                rep["program"] = src
                return rep
        return dict(reproduced=False, programs=len(progs))
    finally:
        if d in sys.path:
            sys.path.remove(d)
        for k in [k for k in sys.modules if k.startswith("olpkg_v")]:
            del sys.modules[k]
        shutil.rmtree(d, ignore_errors=True)


def replay_star_import(rp):
    from suites import replay_util as RU
    for src in ("from os.path import *\n", "from os.path import join, *\n" if False else "if 1:\n    from os.path import *\n"):
        rep = RU.replay_source(src, "raises", opts=[("ast.unparse", "chain_call", "if_expr")])
        if rep.get("reproduced"):
            return rep
    return dict(reproduced=False)


REPLAY = {"imports": replay_imports, "src": c13.replay_src, "star-import": replay_star_import}

from suites import thorough as _th
GROUPS["thorough:import-programs"] = _th.bounded_from_replay("bounded/vendored-package-imports", replay_imports)
from suites import progenum as _pg
GROUPS["thorough:enum-import-forms"] = _th.only_thorough(_pg.g_f7)

# bounded stand-ins for undecided obligations (olvc/oblig.py::main_check)
STANDINS = {"*": [dict(kind="imports")]}
