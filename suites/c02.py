"""C02 -- accepted input always yields one well-formed single-line expression.

  wf/*        well-formedness postcondition on every tree emitted in the symbolic runs of the
              real lowering functions: walrus targets are identifiers (W1), no yield/await/
              async comprehension is built (W4-W6), Starred/Slice nodes built by the lowering
              stand where the grammar allows them (W7)
  newline/*   every literal piece of every template the REAL unparser generators return (all
              paths of the C03 runs) is free of CR/LF; string contents: the exhaustive
              per-character obligation (C04 group, shared); the trampoline adds only "(" ")"
  replace/*   the ast.unparse branch: convert_code_string returns ast.unparse(e) with the line
              feeds deleted -- correct iff ast.unparse emits no line feed that carries meaning
              (assumed contract of the dependency, with its one known exception as a witness)
  witness/*   constructs for which no output shape can be well-formed (walrus rebinding a
              loop variable, walrus in a while test): the converter must reject or avoid them
"""
from __future__ import annotations

import ast
import importlib
import sys

from olvc import extract, machine
from olvc.oblig import Results
from olvc.sym import Fold, Opaque, Seg
from olvc.tmpl import Fn, Hole, Join, Tmpl, as_tmpl
from suites import c03, c04, c06, c09, c10, c13

PROPERTY = "C02"
HOSTS = ["3.12", "3.11"]
LEVEL = "proof"
TRUSTED_BASE = [
    "assumed contract of ast.unparse (dependency): its text parses back to the same expression and contains a line feed only where deleting it does not change the parse",
    "the symbolic runs of the lowering suites cover every function that builds output (as in C09)",
    "C03 (the unparser's text parses to the tree) and C04 (literals single-line) by reference",
    "compile-time rules for expressions that parsing does not enforce, from CPython's symtable.c / compile.c error list",
]
ASSUMPTIONS = ["nesting-depth limits (too many nested parentheses) are C17"]
EXPLANATION = "well-formedness postcondition scanned on every emitted tree; newline-freedom of every unparser template"

UNPARSER_KINDS = [k for k in c03.GROUPS if k.startswith("kind:") and k not in ("kind:Constant", "kind:JoinedStr", "kind:FormattedValue")]


def wf_scan(x, out, ctxt="top", seen=None):
    seen = seen if seen is not None else set()
    if id(x) in seen:
        return
    seen.add(id(x))
    if isinstance(x, Opaque):
        sem = x.props.get("sem")
        if sem:
            for part in sem[1:]:
                if not isinstance(part, (str, Hole)):
                    wf_scan(part, out, "abstract", seen)
        return
    if isinstance(x, Seg):
        for i in x.items:
            wf_scan(i, out, ctxt, seen)
        return
    if isinstance(x, Fold):
        wf_scan(x.init, out, "fold", seen)
        wf_scan(x.step, out, "fold", seen)
        return
    if isinstance(x, (list, tuple)):
        for i in x:
            wf_scan(i, out, ctxt, seen)
        return
    if not isinstance(x, ast.AST):
        return
    if isinstance(x, ast.NamedExpr):
        t = x.target
        ok = isinstance(t, ast.Name) and ((isinstance(t.id, str) and t.id.isidentifier()) or (isinstance(t.id, Hole) and t.id.kind == "ident"))
        out.append(("W1-walrus-target-is-an-identifier", ok, repr(getattr(t, "id", t))))
    if isinstance(x, (ast.Yield, ast.YieldFrom, ast.Await)):
        out.append(("W4-no-yield-or-await-is-built", False, type(x).__name__))
    if isinstance(x, ast.comprehension):
        out.append(("W6-no-async-comprehension-is-built", not x.is_async, repr(x.is_async)))
    for f in x._fields:
        v = getattr(x, f, None)
        sub = f"{type(x).__name__}.{f}"
        for item in (v if isinstance(v, list) else [v]):
            for it in (item.items if isinstance(item, Seg) else [item]):
                if isinstance(it, ast.Starred):
                    legal = sub in ("List.elts", "Tuple.elts", "Set.elts", "Call.args")
                    out.append(("W7-starred-only-where-the-grammar-allows", legal, sub))
                if isinstance(it, ast.Slice):
                    legal = sub in ("Subscript.slice",) or (sub == "Tuple.elts" and ctxt == "Subscript.slice")
                    out.append(("W7-slice-only-inside-a-subscript", legal, sub))
        wf_scan(v, out, sub, seen)


WF_SRC = ("import os.path\nimport xml.dom.minidom as m\nimport xml.etree.ElementTree\nfrom os import path as p, sep\n"
          "class G:\n    def __init__(self):\n        self.log = []\n    def __setitem__(self, k, v):\n        self.log.append((k, v))\n    def __getitem__(self, k):\n        return 1\n"
          "g = G()\ng[1:2, 3] = 5\ng[::2, 0] += 1\ng[4:] = 6\n"
          "r = (os.path.sep, m.Node, xml.etree.ElementTree.Element, p, sep, g.log)\n")


def g_wf(R, tier):
    machine.EMITTED = []
    try:
        for modname, groups in c09.EMITTERS.items():
            mod = importlib.import_module(modname)
            for g in groups:
                sub = Results("C02", f"run:{modname}.{g}")
                try:
                    mod.GROUPS[g](sub, tier)
                except BaseException as e:  # noqa: BLE001
                    R.undecided(f"emitters/{modname}.{g}", f"group crashed: {e!r}")
                # W1 at the call sites: names handed to the namespace contract (they become
                # walrus targets / Name ids) are identifiers -- the callee precondition
                for it in sub.items:
                    if it["name"].endswith("/callee-preconditions"):
                        nm = it["name"].split("/", 2)[2]
                        R.check(f"W1-names-passed-to-the-namespace-are-identifiers/{nm}", it["status"] == "discharged", it["detail"],
                                replay=dict(kind="src", src=WF_SRC, expect="compiles"))
        emitted = list(machine.EMITTED)
    finally:
        machine.EMITTED = None
    per = {}
    for fn, res, c in emitted:
        if not any(k in fn for k in ("get_result", "wrapper", "get_assign", "get_load_name", "convert_slice", "assign_")):
            continue
        out = []
        wf_scan(res, out)
        d = per.setdefault(fn, {})
        for clause, ok, detail in out:
            o, dts = d.get(clause, (True, []))
            d[clause] = (o and ok, dts + ([detail] if not ok else []))
    R.check("coverage/emitting-functions-scanned", len(per) >= 15, f"{len(per)} functions")
    for fn in sorted(per):
        if not per[fn]:
            R.ok(f"{fn}/builds-no-node-with-a-compile-time-rule", "structural")
        for clause, (ok, dts) in sorted(per[fn].items()):
            R.check(f"{fn}/{clause}", ok, "; ".join(sorted(set(dts)))[:300],
                    replay=dict(kind="src", src=WF_SRC, expect="compiles"))


def literals_of(t, out):
    for p in as_tmpl(t).parts if not isinstance(t, str) else [t]:
        if isinstance(p, str):
            out.append(p)
        elif isinstance(p, Join):
            literals_of(p.sep, out)
            for x in p.items:
                for i in (x.items if isinstance(x, Seg) else [x]):
                    literals_of(i, out)
        elif isinstance(p, Fn):
            literals_of(p.base, out)
            out.extend(a for a in p.args if isinstance(a, str))


def g_newline(R, tier, kinds=None):
    c03.TEMPLATE_SINK = []
    try:
        for k in (kinds if kinds is not None else UNPARSER_KINDS):
            sub = Results("C02", f"run:{k}")
            try:
                c03.GROUPS[k](sub, tier)
            except BaseException as e:  # noqa: BLE001
                R.undecided(f"templates/{k}", f"group crashed: {e!r}")
            # "compiles as exactly one expression": the text of every path is the grammar
            # production of the node (the C03 obligations of this kind, required here too)
            n_ok = 0
            for it in sub.items:
                clause = "is-an-expression/" + it["name"].split("/", 2)[2]
                if it["status"] == "discharged":
                    n_ok += it.get("count", 1)
                elif it["status"] == "undecided":
                    R.undecided(clause, it["detail"])
                else:
                    R.fail(clause, it["detail"], it.get("replay"), backend=it.get("backend", "structural"))
            R.ok_many(f"is-an-expression/{k}/template-glue-slot-obligations", n_ok, backend="z3+structural")
        sink = list(c03.TEMPLATE_SINK)
    finally:
        c03.TEMPLATE_SINK = None
    per = {}
    for base, tm in sink:
        lits = []
        if isinstance(tm, (str, Tmpl, Hole, Join, Fn)):
            literals_of(tm, lits)
        ok, n = per.get(base, (True, 0))
        per[base] = (ok and not any(("\n" in s or "\r" in s) for s in lits), n + 1)
    R.check("coverage/unparser-generators-scanned", len(per) >= 1, f"{len(per)} generator shapes")
    for base in sorted(per):
        ok, n = per[base]
        R.check(f"{base}/no-line-break-in-any-literal-piece", ok, f"{n} paths", replay=dict(kind="kind", kindname=base.split("unparse_")[-1].split("[")[0].split("<")[0]))
    # the trampoline wraps with "(" and ")" only: C03 trampoline group (template equality) -- by reference
    eu = extract.repo_module("oneliner.expr_unparse")
    tabs = [eu.operator_map, eu.boolop_map, eu.unaryop_map, eu.cmpop_map]
    R.check("expr_unparse.tables/no-line-break-in-any-operator-spelling", not any("\n" in v or "\r" in v for t in tabs for v in t.values()), "", backend="exhaustive-finite")


def g_replace(R, tier):
    """convert_code_string: the returned text is ast.unparse(out) with line feeds deleted"""
    # (structure of the function: C10 default_options group, shared) + the dependency witness
    src = ("class F:\n    def __format__(self, spec):\n        return repr(spec)\nr = f'''{F():\n}'''\n")
    from suites import replay_util as RU
    rep = RU.replay_source(src, "same-globals", names=["r"], opts=[("ast.unparse", "chain_call", "if_expr"), ("ast.unparse", "list", "short_circuit")])
    if rep.get("reproduced"):
        R.fail("__init__.convert_code_string/deleting-line-feeds-of-ast.unparse-keeps-the-meaning",
               f"ast.unparse on this host writes a format spec containing a line break as a raw line break in a triple-quoted f-string; deleting it changes the spec: {str(rep.get('differing_globals') or rep.get('observed'))[:200]}",
               replay=dict(kind="src", src=src, expect="same-globals"), backend="witness")
    else:
        R.bounded("__init__.convert_code_string/deleting-line-feeds-of-ast.unparse-keeps-the-meaning", True, "witness converts correctly on this host")


def g_witness(R, tier):
    c06.native_finding(R, "pending_nodes.PendingFor.get_result/W2-no-walrus-rebinds-the-loop-variable",
                       "a loop target becomes a comprehension variable and an assignment in the body becomes a walrus: `for i in r: i = 1` gives text that does not compile (assignment expression cannot rebind comprehension iteration variable)",
                       "s = 0\nfor i in range(3):\n    i = i + 1\n    s += i\n")
    c06.native_finding(R, "pending_nodes.PendingWhile.get_result/W3-no-walrus-inside-the-loop-iterable",
                       "the while test is placed inside the iterable of a comprehension: `while (n := f()):` gives text that does not compile (assignment expression cannot be used in a comprehension iterable expression)",
                       "vals = [3, 2, 0]\nseen = []\nwhile (n := vals.pop(0)):\n    seen.append(n)\n")
    c06.native_finding(R, "pending_nodes.PendingFor.get_result/W4-no-walrus-inside-the-iterable-of-a-for-loop",
                       "a for loop without break/return puts its iterable into the `in` clause of a comprehension: `for x in (y := [1, 2]):` gives text "
                       "that does not compile (assignment expression cannot be used in a comprehension iterable expression); loops with a break evaluate it outside",
                       "seen = []\nfor x in (y := [1, 2]):\n    seen.append(x)\n")
    c06.native_finding(R, "__init__.convert_code_string/W5-ast.unparse-writes-format-specs-that-parse",
                       "with the default unparser (ast.unparse) the literal part of an f-string format spec is written verbatim and the quote is chosen "
                       "without looking at it: a quote character in a spec gives text that does not compile (a stdlib defect the default option inherits; the own unparser escapes it)",
                       "name = 'ab'\nr = f\"{name:'^10}\"\n")


def _dflt(R, tier):
    c10.g_default_options(R, tier)


def _chunk(i, n):
    def g(R, tier):
        order = sorted(UNPARSER_KINDS, key=lambda k: (k not in ("kind:Lambda", "kind:Compare", "kind:Call", "kind:Dict"), k))
        g_newline(R, tier, kinds=order[i::n])
    return g


GROUPS = {"bounded:lambda-signatures": c03.g_lambda_signatures_bounded, "wf": g_wf, "replace": g_replace, "witness": g_witness, "convert_code_string": _dflt,
          "string_contents_per_char": c04.g_escaper_per_char, "trampoline": c03.g_trampoline, "canary": c13.g_canary}
# a yield/await let through by the transformer ends up inside a comprehension or a lambda of the
# converter, where it does not compile: the dispatch obligations of C06/C08 are required here too
GROUPS["expressions:dispatch"] = c06.g_transform_dispatch
for _i in range(8):
    GROUPS[f"newline:{_i}"] = _chunk(_i, 8)
NO_FRAME_GROUPS = ("wf",) + tuple(f"newline:{_i}" for _i in range(8))
REPLAY = dict(c13.REPLAY)
REPLAY.update(c03.REPLAY)
REPLAY.update(c04.REPLAY)
REPLAY.update({k: v for k, v in c10.REPLAY.items() if k not in REPLAY})
