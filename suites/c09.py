"""C09 -- helper names never capture or clobber user identifiers.

Hygiene postcondition on every function that builds output (DESIGN section 5, C09): every
identifier occurrence of an emitted tree is SOURCE (copied from an input node), RESERVED
(from ol_name() or literally `__ol_*`, or Python's own `__class__` cell) or INTRODUCED (a
literal spelling chosen by the lowering).  An introduced BINDER (walrus target,
comprehension target, lambda parameter) is allowed only if the scope it binds in contains no
source code; an introduced free REFERENCE (a name the output reads) is never safe from a
user who rebinds that name.  The emitted trees are those of the symbolic runs of the other
suites (recorded while their groups run)."""
from __future__ import annotations

import ast
import importlib

from olvc import extract, machine
from olvc.oblig import Results
from olvc.sym import Fold, Opaque, Seg, tagstr
from olvc.tmpl import Hole, Tmpl
from suites import c10, c13

PROPERTY = "C09"
HOSTS = ["3.12"]
LEVEL = "proof"
TRUSTED_BASE = ["classification rule above; contract of ol_name (fresh, reserved prefix: unique_id distinctness is the shared C10 group)",
                "the symbolic runs of suites c01, c05, c06, c07, c12, c13, c14 cover every function that builds output"]
ASSUMPTIONS = ["attribute names chosen by the lowering on its own objects (`_break`, `it` of the iterator wrapper) are not user-visible bindings"]
EXPLANATION = "hygiene scan of every tree emitted in the symbolic runs of the real lowering functions"

EMITTERS = {
    "suites.c01": ["wrappers", "module", "simple_statements"],
    "suites.c05": ["interrupts", "while", "for", "function_frame"],
    "suites.c06": ["access_function", "access_class", "access_global", "transform_names", "declared_global_under_a_shadow"],
    "suites.c07": ["functiondef", "classdef", "if", "return", "assign:statement"],
    "suites.c12": ["class_shape", "methods"],
    "suites.c13": ["assign_tuple_list", "leaf_targets", "augassign", "convert_slice", "get_result"],
    "suites.c14": ["import", "import_from"],
}
LANGUAGE_RESERVED = {"__class__"}


def is_reserved(x):
    if isinstance(x, Hole):
        return bool(x.props.get("fresh"))
    return isinstance(x, str) and (x.startswith("__ol_") or x in LANGUAGE_RESERVED)


def has_source(x, seen=None):
    """does the subtree contain source code (abstract nodes / source identifiers)?"""
    seen = seen if seen is not None else set()
    if id(x) in seen:
        return False
    seen.add(id(x))
    if isinstance(x, Opaque):
        return True
    if isinstance(x, Hole):
        return not x.props.get("fresh")
    if isinstance(x, Seg):
        return any(has_source(i, seen) for i in x.items)
    if isinstance(x, Fold):
        return has_source(x.init, seen) or has_source(x.step, seen)
    if isinstance(x, (list, tuple)):
        return any(has_source(i, seen) for i in x)
    if isinstance(x, ast.AST):
        return any(has_source(getattr(x, f, None), seen) for f in x._fields)
    return False


def _walrus_targets(x, acc, seen=None):
    """names bound by walrus inside x, not descending into nested lambdas"""
    seen = seen if seen is not None else set()
    if id(x) in seen:
        return
    seen.add(id(x))
    if isinstance(x, Opaque):
        sem = x.props.get("sem")
        if sem:
            for part in sem[1:]:
                if not isinstance(part, (str, Hole)):
                    _walrus_targets(part, acc, seen)
        return
    if isinstance(x, Seg):
        for i in x.items:
            _walrus_targets(i, acc, seen)
    elif isinstance(x, Fold):
        _walrus_targets(x.init, acc, seen)
        _walrus_targets(x.step, acc, seen)
    elif isinstance(x, (list, tuple)):
        for i in x:
            _walrus_targets(i, acc, seen)
    elif isinstance(x, ast.Lambda):
        return
    elif isinstance(x, ast.AST):
        if isinstance(x, ast.NamedExpr) and isinstance(x.target, ast.Name) and isinstance(x.target.id, str):
            acc.add(x.target.id)
        for f in x._fields:
            _walrus_targets(getattr(x, f, None), acc, seen)


def scan(x, out, bound=frozenset(), top=True):
    """out: list of (kind, identifier, scope_has_source); `bound`: identifiers bound by an
    enclosing introduced binder of the same tree"""
    if isinstance(x, Opaque):
        sem = x.props.get("sem")
        if sem:
            for part in sem[1:]:
                if not isinstance(part, (str, Hole)):
                    scan(part, out, bound, False)
        return
    if isinstance(x, Seg):
        for i in x.items:
            scan(i, out, bound, False)
        return
    if isinstance(x, Fold):
        scan(x.init, out, bound, False)
        scan(x.step, out, bound, False)
        return
    if isinstance(x, (list, tuple)):
        if top:
            w = set()
            _walrus_targets(x, w)
            bound = bound | {n for n in w if is_reserved(n)}
        for i in x:
            scan(i, out, bound, False)
        return
    if not isinstance(x, ast.AST):
        return
    if isinstance(x, ast.Lambda):
        a = x.args
        params = set()
        for p in list(a.posonlyargs) + list(a.args) + list(a.kwonlyargs) + [a.vararg, a.kwarg]:
            for q in (p.items if isinstance(p, Seg) else [p]):
                if isinstance(q, ast.arg) and isinstance(q.arg, str):
                    params.add(q.arg)
                    if not is_reserved(q.arg):
                        out.append(("binder:lambda-parameter", q.arg, has_source(x.body)))
        for d in list(a.defaults) + [d for d in a.kw_defaults if d is not None]:
            scan(d, out, bound, False)
        w = set()
        _walrus_targets(x.body, w)
        for n in w:
            if not is_reserved(n):
                out.append(("binder:walrus-in-lambda", n, has_source(x.body)))
        scan(x.body, out, bound | params | w, False)
        return
    if isinstance(x, (ast.ListComp, ast.SetComp, ast.GeneratorExp, ast.DictComp)):
        inner = set(bound)
        gens = [g for g in x.generators if isinstance(g, ast.comprehension)]
        for gi, g in enumerate(gens):
            scan(g.iter, out, frozenset(inner) if gi else bound, False)
            tnames = {t.id for t in ast.walk(g.target) if isinstance(t, ast.Name) and isinstance(t.id, str)} if isinstance(g.target, ast.AST) else set()
            scope = [getattr(x, "elt", None), getattr(x, "key", None), getattr(x, "value", None)] + [gg.iter for gg in gens[gi + 1:]] + [i for gg in gens for i in gg.ifs]
            for n in tnames:
                if not is_reserved(n):
                    out.append(("binder:comprehension-target", n, has_source(scope)))
            inner |= tnames
            for i in g.ifs:
                scan(i, out, frozenset(inner), False)
        for f in ("elt", "key", "value"):
            if hasattr(x, f):
                scan(getattr(x, f), out, frozenset(inner), False)
        return
    if isinstance(x, ast.NamedExpr) and isinstance(x.target, ast.Name) and isinstance(x.target.id, str) and not is_reserved(x.target.id) and x.target.id not in bound:
        out.append(("binder:walrus", x.target.id, None))
    if isinstance(x, ast.Name) and isinstance(x.id, str) and isinstance(getattr(x, "ctx", None), ast.Load) and not is_reserved(x.id) and x.id not in bound:
        out.append(("reference", x.id, None))
    for f in x._fields:
        scan(getattr(x, f, None), out, bound, False)


def temp_binders(x, out, runs=(), seen=None):
    """binding sites of RESERVED names in an emitted tree: (name object, site id, enclosing
    run variables).  Sites: walrus targets, comprehension targets, lambda parameters."""
    seen = seen if seen is not None else set()
    if isinstance(x, (Opaque, Seg, Fold, list, ast.AST)):
        if (id(x), runs) in seen:
            return
        seen.add((id(x), runs))
    if isinstance(x, Opaque):
        sem = x.props.get("sem")
        if sem:
            for part in sem[1:]:
                if not isinstance(part, (str, Hole)):
                    temp_binders(part, out, runs, seen)
        return
    if isinstance(x, Seg):
        for i in x.items:
            temp_binders(i, out, runs + ((id(x), str(x.jvar)),), seen)
        return
    if isinstance(x, Fold):
        temp_binders(x.init, out, runs, seen)
        temp_binders(x.step, out, runs + ((id(x), str(x.jvar)),), seen)
        return
    if isinstance(x, (list, tuple)):
        for i in x:
            temp_binders(i, out, runs, seen)
        return
    if not isinstance(x, ast.AST):
        return
    def site(nameobj, node, kind="bind"):
        if is_reserved(nameobj) or (isinstance(nameobj, Tmpl) and repr(nameobj).startswith("__ol_")):
            out.append((nameobj, id(node), runs, kind))
    if isinstance(x, ast.Name) and isinstance(getattr(x, "ctx", None), (ast.Load, type(None))):
        site(x.id, x, "read")  # (the lowering builds many Name nodes without a ctx)
    if isinstance(x, ast.NamedExpr) and isinstance(x.target, ast.Name):
        site(x.target.id, x)
    if isinstance(x, ast.comprehension) and isinstance(x.target, ast.AST):
        for t in ast.walk(x.target):
            if isinstance(t, ast.Name):
                site(t.id, t)
    if isinstance(x, ast.arg):
        site(x.arg, x)
    if isinstance(x, ast.Lambda) and not has_source(x.body):
        # parameters of a helper lambda whose body holds nothing of the source: a closed scope
        a = x.args
        for p_ in list(a.posonlyargs) + list(a.args) + list(a.kwonlyargs) + [a.vararg, a.kwarg]:
            for q_ in (p_.items if isinstance(p_, Seg) else [p_]):
                if isinstance(q_, ast.arg):
                    site(q_.arg, q_, "bind-closed")
        for d_ in list(a.defaults) + [d for d in a.kw_defaults if d is not None]:
            temp_binders(d_, out, runs, seen)
        temp_binders(x.body, out, runs, seen)
        return
    for f in x._fields:
        if isinstance(x, ast.NamedExpr) and f == "target" and isinstance(x.target, ast.Name):
            continue
        temp_binders(getattr(x, f, None), out, runs, seen)


def name_key(n):
    return n if isinstance(n, str) else (tagstr(n.tag) if isinstance(n, Hole) else repr(n))


def varies_with(n, jvars):
    """does the name depend on every enclosing run variable (a new name per round)?"""
    k = name_key(n)
    return all(j in k for _, j in jvars)


HARNESS_SOURCE_NAMES = {"x"}  # the variable name the C06 access harness passes in as SOURCE


def g_hygiene(R, tier):
    machine.EMITTED = []
    try:
        for modname, groups in EMITTERS.items():
            mod = importlib.import_module(modname)
            for g in groups:
                sub = Results("C09", f"run:{modname}.{g}")
                try:
                    mod.GROUPS[g](sub, tier)
                except BaseException as e:  # noqa: BLE001
                    R.undecided(f"emitters/{modname}.{g}", f"group crashed: {e!r}")
        emitted = list(machine.EMITTED)
    finally:
        machine.EMITTED = None
    # --- temporaries: "distinct temporaries introduced in one output never share a name"
    per_t = {}
    for em in emitted:
        fn, res, c = em
        if not any(k in fn for k in ("get_result", "wrapper", "get_assign", "get_load_name", "convert_slice", "assign_")):
            continue
        own = {name_key(h) for h in getattr(em, "own_names", ())}
        sites = []
        temp_binders(res, sites)
        d = per_t.setdefault(fn, dict(n=0, t1=[], t2=[], t3=[], t4=[]))
        d["n"] += 1
        reads = {}
        for nm_, sid, runs, kind in sites:
            if kind == "read":
                reads.setdefault(name_key(nm_), []).append(runs)
        for nm_, sid, runs, kind in sites:
            if kind != "bind":
                continue
            k_ = name_key(nm_)
            if runs and not varies_with(nm_, runs):
                # the same name is bound again in every round: harmless only if nothing
                # outside the repeated part reads it
                stale = [j for cid, j in runs if j not in k_ and any(cid not in [c_ for c_, _ in rr] for rr in reads.get(k_, []))]
                if stale:
                    d["t2"].append(f"{k_} is bound in every round of the run over {stale[0]} and read outside it")
            if "get_result" not in fn and k_ not in own:
                d["t3"].append(f"{k_} was not created by this call")
            # a temporary bound where source code runs must be a name made by ol_name() -- by this call
            # or by the constructor of the object it is state of (state_names_are_fresh) -- never a
            # constant or a text derived from the program: nested instances of the construct would share it
            # (`__class__` is the language's own name for the class cell: one per class scope, PEP 3135)
            if not (isinstance(nm_, Hole) and nm_.props.get("fresh")) and "PendingModule.get_result" not in fn and k_ != "__class__":
                d["t4"].append(f"{k_} is a fixed or derived name")
    for fn in sorted(per_t):
        d = per_t[fn]
        R.check(f"{fn}/temporaries/a-binder-in-a-repeated-part-gets-a-new-name-per-round", not d["t2"], "; ".join(sorted(set(d["t2"])))[:400], replay=dict(kind="temps"))
        R.check(f"{fn}/temporaries/names-bound-around-source-code-are-made-by-ol_name", not d["t4"], "; ".join(sorted(set(d["t4"])))[:400], replay=dict(kind="temps"))
        if "get_result" not in fn:
            # functions that run several times per statement (once per target, per name):
            # what they bind must be created by the call itself
            R.check(f"{fn}/temporaries/binds-only-names-created-by-this-call", not d["t3"], "; ".join(sorted(set(d["t3"])))[:400], replay=dict(kind="temps"))
    per_fn = {}
    for fn, res, c in emitted:
        if "get_result" not in fn and "wrapper" not in fn and "get_assign" not in fn and "get_load_name" not in fn and "convert_slice" not in fn and "assign_" not in fn:
            continue
        out = []
        scan(res, out)
        if "get_assign" in fn or "get_load_name" in fn:
            out = [o for o in out if o[1] not in HARNESS_SOURCE_NAMES]
        per_fn.setdefault(fn, set()).update(out)
    R.check("coverage/emitting-functions-scanned", len(per_fn) >= 15, f"{len(per_fn)} functions: {sorted(per_fn)}")
    # walrus binders: whether the scope has source cannot be told from the fragment (a
    # walrus binds in the enclosing function/module, which always contains user code),
    # except for the runner of the chain-call form, proved closed in C01
    for fn in sorted(per_fn):
        names = sorted(per_fn[fn])
        n_ok = 0
        for kind, ident, src_in_scope in names:
            clause = f"{fn}/{kind}/{ident}"
            if kind == "reference":
                R.fail(clause, f"the output of {fn} reads the name {ident!r}; a script that rebinds {ident!r} changes what the converted program does",
                       replay=dict(kind="capture", name=ident, fn=fn))
            elif kind == "binder:walrus":
                if False:
                    pass
                else:
                    R.fail(clause, f"{fn} binds the unreserved name {ident!r} in the enclosing scope of user code", replay=dict(kind="capture", name=ident, fn=fn))
            else:
                if src_in_scope:
                    R.fail(clause, f"{fn} binds {ident!r} in a scope that contains user code: a user variable {ident!r} is captured",
                           replay=dict(kind="capture", name=ident, fn=fn))
                else:
                    R.ok(clause, "structural", "the scope it binds in contains no source code")
        if not names:
            R.ok(f"{fn}/introduces-no-unreserved-identifier", "structural")


def g_reserved_formats(R, tier):
    ri = extract.repo_module("oneliner.reserved_identifiers")
    fmts = {k: v for k, v in vars(ri).items() if k.startswith("OL_") and isinstance(v, str)}
    for k, v in sorted(fmts.items()):
        R.check(f"reserved_identifiers.{k}/reserved-prefix", v.startswith("__ol_"), v, backend="exhaustive-finite")
    with_slot = {k: v for k, v in fmts.items() if "{}" in v}
    R.check("reserved_identifiers/formats-are-pairwise-distinct", len(set(with_slot.values())) == len(with_slot), repr(with_slot), backend="exhaustive-finite")
    fixed = {k: v for k, v in fmts.items() if "{}" not in v}
    R.check("reserved_identifiers/fixed-names-cannot-collide-with-generated-ones", all(not any(v.startswith(w.split("{}")[0]) for w in with_slot.values()) for v in fixed.values()),
            repr(fixed), backend="exhaustive-finite")


def g_state_names_are_fresh(R, tier):
    """the reserved names that live as long as a namespace or a loop (return slot, return flag,
    cell dict, class dict, break/interrupt flags, wrapped iterator) are created by ol_name() in
    the constructor of that very object: one name per object, never derived from user text (a
    function's name, a line number ...) and never shared between objects.  REAL constructors."""
    from suites import c06 as _c06
    from contracts import c_lowering as CL
    from olvc.evaluator import Machine
    from olvc.runner import explore
    ns = _c06.NS()
    pn = CL.pn()
    cases = []
    for kind, cls in (("function", ns.NamespaceFunction), ("class", ns.NamespaceClass)):
        def mk(m, kind=kind, cls=cls):
            symt = _c06.mk_symt("T", name="userchosen", symbols={}, frees=[], nonlocals=[], kind=kind)
            return m.call_value(cls, symt, [_c06.mk_scope("G", "global")])
        cases.append((f"namespaces.Namespace{kind.capitalize()}.__init__", mk))
    for lname, lcls, node in (("PendingWhile", pn.PendingWhile, lambda: ast.While(test=CL.src("t"), body=[], orelse=[], lineno=3, col_offset=0)),
                              ("PendingFor", pn.PendingFor, lambda: ast.For(target=ast.Name(id="i", ctx=ast.Store()), iter=CL.src("it"), body=[], orelse=[], lineno=3, col_offset=0))):
        def mk(m, first=None, lcls=lcls, node=node):
            # the second loop is created INSIDE the first one (the first is on the loop stack)
            return CL.mk_pending(lcls, node(), CL.mk_nsp(loop_stack=[first] if first is not None else []), CL.mk_global(), m=m)
        mk.nested = True
        cases.append((f"pending_nodes.{lname}.__init__", mk))
    for nm, mk in cases:
        def run(c, mk=mk):
            m = Machine(stubs={"oneliner.reserved_identifiers:ol_name": CL.stub_ol_name(), "oneliner.expr_transform:expr_transf": CL.stub_expr_transf()})
            lo = len(getattr(c, "ol_created", ()))
            a = mk(m)
            mid = len(getattr(c, "ol_created", ()))
            b = mk(m, a) if getattr(mk, "nested", False) else mk(m)
            return dict(a=a, b=b, own_a=list(getattr(c, "ol_created", ())[lo:mid]), own_b=list(getattr(c, "ol_created", ())[mid:]))
        for p in explore(run):
            if p.kind != "ok":
                R.undecided(f"{nm}/state-names", repr(p.value))
                continue
            v = p.value
            bad = []
            names_a = {}
            for obj, own, tag_ in ((v["a"], v["own_a"], "first"), (v["b"], v["own_b"], "second")):
                for k_, x_ in vars(obj).items() if not isinstance(obj, Opaque) else obj.fields.items():
                    if isinstance(x_, ast.Name):
                        ok_ = isinstance(x_.id, Hole) and any(x_.id is h for h in own)
                        if not ok_:
                            bad.append(f"{tag_}.{k_} = {x_.id!r} was not created by ol_name() in this constructor")
                        if tag_ == "first":
                            names_a[k_] = x_.id
                        elif k_ in names_a and name_key(names_a[k_]) == name_key(x_.id):
                            bad.append(f"{k_}: two objects share the name {name_key(x_.id)}")
            for obj, tag_ in ((v["a"], "first"), (v["b"], "second")):
                seen_ = {}
                for k_, x_ in vars(obj).items() if not isinstance(obj, Opaque) else obj.fields.items():
                    if isinstance(x_, ast.Name):
                        if name_key(x_.id) in seen_:
                            bad.append(f"{tag_}: {seen_[name_key(x_.id)]} and {k_} are the same name {name_key(x_.id)} (two pieces of state in one variable)")
                        seen_[name_key(x_.id)] = k_
            R.check(f"{nm}/every-state-name-is-a-fresh-name-of-this-object", not bad, "; ".join(bad)[:500], replay=dict(kind="temps"))


def g_ol_name_call_sites(R, tier):
    """precondition of the freshness contract of ol_name(fmt): fmt has a slot for the unique
    id (a constant format gives the same name on every call).  Every call site in the package
    passes one of the reserved format constants that has exactly one slot; and the real
    ol_name returns different names for two calls with each such format."""
    import os
    ri = extract.repo_module("oneliner.reserved_identifiers")
    fmts = {k: v for k, v in vars(ri).items() if k.startswith("OL_") and isinstance(v, str)}
    pkg = os.path.join(extract.REPO, "oneliner")
    sites = []
    for root, _, files in os.walk(pkg):
        for f in sorted(files):
            if not f.endswith(".py"):
                continue
            tree = ast.parse(open(os.path.join(root, f), encoding="utf8").read())
            for n in ast.walk(tree):
                if isinstance(n, ast.Call) and ((isinstance(n.func, ast.Name) and n.func.id == "ol_name") or (isinstance(n.func, ast.Attribute) and n.func.attr == "ol_name")):
                    a = n.args[0] if n.args else None
                    nm = a.id if isinstance(a, ast.Name) else (a.attr if isinstance(a, ast.Attribute) else None)
                    sites.append((f, n.lineno, nm))
    R.check("reserved_identifiers.ol_name/call-sites-found", len(sites) >= 10, f"{len(sites)} call sites")
    used = sorted({nm for _, _, nm in sites if nm})
    dyn = [(f, ln) for f, ln, nm in sites if nm is None or nm not in fmts]
    R.check("reserved_identifiers.ol_name/every-call-site-passes-a-reserved-format-constant", not dyn, f"call sites with another argument: {dyn}")
    for nm in used:
        if nm not in fmts:
            continue
        v = fmts[nm]
        ok = v.count("{}") == 1 and v.format("A") != v.format("B")
        R.check(f"reserved_identifiers.{nm}/format-passed-to-ol_name-has-a-slot-for-the-unique-id", ok, repr(v), backend="exhaustive-finite", replay=dict(kind="temps"))
        a, b = ri.ol_name(v), ri.ol_name(v)
        R.check(f"reserved_identifiers.ol_name[{nm}]/two-calls-give-two-names", a != b and a.startswith("__ol_") and b.startswith("__ol_"), f"{a!r} {b!r}", backend="ground", replay=dict(kind="temps"))


GROUPS = {"state_names_are_fresh": g_state_names_are_fresh, "ol_name_call_sites": g_ol_name_call_sites, "hygiene": g_hygiene, "reserved_formats": g_reserved_formats, "fresh_names": c10.g_fresh_names, "canary": c13.g_canary}
NO_FRAME_GROUPS = ("hygiene",)

CAPTURE_PROGRAMS = {
    "_": "_ = 5\nn = 0\nwhile n < 2:\n    n += 1\n    seen = _\nwhile _ > 3:\n    _ -= 1\ndef f(_):\n    k = 0\n    while _:\n        _ -= 1\n        k += 1\n    return k\nr = (_, n, f(2))\n",
    "k": "class k:\n    a = 1\n    b = 2\nr = (k.a, k.b)\n",
    "v": "v = 'keep'\nclass A:\n    x = v\n    y = 2\nr = (A.x, A.y, v)\n",
    "itertools": "itertools = 'mine'\ni = 0\nwhile i < 1:\n    i += 1\nr = itertools\n",
    "importlib": "importlib = 'mine'\nimport os\nr = importlib\n",
    "tuple": "tuple = 5\na, b = 1, 2\nr = (a, b)\n",
    "list": "list = 5\na, *b = 1, 2, 3\nr = (a, b)\n",
    "slice": "slice = 5\nx = [1, 2, 3]\nx[0:1] = [9]\nr = x\n",
    "setattr": "setattr = 5\nclass A:\n    pass\na = A()\na.x = 1\nr = a.x\n",
    "hasattr": "hasattr = 5\nx = 1\nx += 1\nr = x\n",
    "type": "type = 5\nclass A:\n    y = 1\nr = A.y\n",
    "globals": "def f():\n    global g\n    globals = 5\n    g = 1\nf()\nr = g\n",
    "__import__": "__import__ = 5\nfrom os import sep\nr = sep\n",
    "classmethod": "classmethod = 5\nclass B:\n    def __init_subclass__(cls):\n        cls.t = 1\nclass C(B):\n    pass\nr = C.t\n",
    "locals": "locals = 5\nfrom os import sep\nr = sep\n",
    "PendingClassDef.get_result/__import__": "__import__ = 5\nclass A:\n    y = 1\nr = A.y\n",
    # the class statement reads the GLOBAL __name__ for __module__; the idiom reads it through the enclosing scopes
    "PendingClassDef.get_result/__name__": "def f():\n    __name__ = 'local'\n    class A:\n        pass\n    return A.__module__\nr = (f() == 'local')\n",
}


def replay_capture(rp):
    from suites import replay_util as RU
    src = CAPTURE_PROGRAMS.get(f"{rp.get('fn', '').split('.', 1)[-1] if rp.get('fn', '').startswith('pending_nodes.') else rp.get('fn', '')}/{rp['name']}") or CAPTURE_PROGRAMS.get(rp["name"])
    if src is None:
        return dict(reproduced=False, note=f"no stored program for {rp['name']!r}")
    return RU.replay_source(src, "same-globals", names=["r"])


TEMP_PROGRAMS = [
    "def f():\n    a = 1\n    def f():\n        b = 2\n        def g():\n            return a, b\n        return g()\n    return f()\nr = f()\n",
    "def a():\n    x = 1\n    def b():\n        y = 'b'\n        def c():\n            nonlocal x\n            x = 2\n            return x, y\n        return c()\n    return b(), x\nr = a()\n",
    "(k, v), it = (1, 2), 3\n_, __ = self = [10, 20]\na, (b, (c, d)), e = 1, (2, (3, 4)), 5\nr = (k, v, it, _, __, self, a, b, c, d, e)\n",
    "def outer(c):\n    c.tags = getattr(c, 'tags', ()) + ('outer',)\n    return c\ndef inner(c):\n    c.tags = getattr(c, 'tags', ()) + ('inner',)\n    return c\n"
    "def third(c):\n    c.tags = getattr(c, 'tags', ()) + ('third',)\n    return c\n@outer\n@inner\n@third\nclass K:\n    pass\nr = K.tags\n",
    "d = {'a': [1, 2]}\nd['a'][0] += 5\nclass H:\n    pass\nh = H()\nh.x = [1]\nh.x += [2]\nx = y = z = [0]\nr = (d, h.x, x, y, z)\n",
    "class A:\n    class A:\n        z = 1\n    y = 2\nr = (A.y, A.A.z)\n",
    "rows = []\nfor r_ in range(3):\n    for c_ in range(3):\n        if c_ == 1:\n            break\n        rows.append((r_, c_))\n    if r_ == 1:\n        continue\n    rows.append(r_)\nr = rows\n",
    "out = []\nn = 0\nwhile n < 6:\n    n += 1\n    if n % 2:\n        continue\n    if n > 4:\n        break\n    out.append(n)\nelse:\n    out.append('else')\nr = (out, n)\n",
    "import os.path\nfrom os import sep, path as p\nr = (os.path.sep, sep, p.sep)\n",
    "out = []\nfor i in range(3):\n    for j in range(2):\n        if j == 1:\n            break\n        out.append((i, j))\nn = 0\nwhile n < 3:\n    n += 1\n    m = 0\n    while m < 2:\n        m += 1\nr = (out, n, m)\n",
]


def replay_temps(rp):
    from suites import replay_util as RU
    for src in TEMP_PROGRAMS:
        rep = RU.replay_source(src, "same-globals", names=["r"])
        if rep.get("reproduced"):
            return rep
    return dict(reproduced=False)


REPLAY = {"capture": replay_capture, "rng": c10.replay_rng, "temps": replay_temps}

# bounded stand-ins for undecided obligations (olvc/oblig.py::main_check)
STANDINS = {"*": [dict(kind="temps")]}
