"""C15 -- the generated expression runs identically on every Python 3.8+ runtime (PARTIAL).

Decidable here, by contracts on the real code: the syntax choices of the project's own
unparser against the 3.8 column of the expression grammar --
  walrus/*   an unparenthesised walrus is emitted only where Python 3.8 allows one (positional
             call arguments): ground obligations on the real PREC_* ladder and on the generators
             that use the two slots above PREC_NAMEDEXPR
  params/*   positional-only `/` (3.8 ok), no parenthesised context managers, no match, no
             except* -- nothing but expressions is emitted (C02)
  fstring/*  no backslash and no re-used quote inside a replacement field: witnesses unparsed
             on THIS host and parsed by the oldest interpreter present (3.11, whose f-string
             grammar is the 3.8 one)
Not decidable here, by any contract or check: what ast.unparse of 3.10-3.13 emits, run-time
behaviour under six interpreters (only 3.11 and 3.12 exist in this sandbox), library
differences.  The claim is restricted accordingly (level `other`)."""
from __future__ import annotations

import ast
import subprocess
import sys

from olvc import extract
from suites import c13

PROPERTY = "C15"
HOSTS = ["3.12", "3.11"]
LEVEL = "other"
TRUSTED_BASE = ["3.8 column of the expression grammar (PEP 572 placement rules of :=, PEP 570, pre-PEP-701 f-string rules)", "python3-vt (3.11) as the oldest parser present"]
ASSUMPTIONS = ["interpreters 3.8, 3.9, 3.10 and 3.13 are not present in the sandbox: evaluation on them is not checked by anything",
               "the default unparser (ast.unparse of the host) is a dependency: its version-specific syntax choices are not decided here"]
EXPLANATION = ("Partial: only the version-sensitive SYNTAX choices of the project's own unparser are decided (ground obligations on the real precedence ladder and "
               "witness f-strings parsed by the oldest interpreter present). Evaluation on 3.8-3.10/3.13, ast.unparse output and library differences cannot be decided in this sandbox.")


def g_walrus(R, tier):
    eu = extract.repo_module("oneliner.expr_unparse")
    slots = {k: v for k, v in vars(eu).items() if k.startswith("PREC_") and k.endswith(("_SLOT", "_SLOT_LEFT", "_SLOT_RIGHT", "_SLOT_ARG", "_SLOT_KWARG", "_SLOT_ONLYARG", "_SLOT_ITER"))}
    bare = sorted(k for k, v in slots.items() if eu.PREC_NAMEDEXPR <= v)
    R.check("expr_unparse.PREC ladder/bare-walrus-only-in-positional-call-argument-slots", set(bare) <= {"PREC_CALL_SLOT_ARG", "PREC_CALL_SLOT_ONLYARG"},
            f"slots that admit an unparenthesised walrus: {bare}; Python 3.8 allows it only as a positional call argument", backend="ground")
    # which generators use those slots
    import os
    tree = ast.parse(open(os.path.join(extract.REPO, "oneliner", "expr_unparse.py"), encoding="utf8").read())
    users = set()
    for fn in [n for n in ast.walk(tree) if isinstance(n, ast.FunctionDef)]:
        for n in ast.walk(fn):
            if isinstance(n, ast.Name) and n.id in bare:
                users.add(fn.name)
    R.check("expr_unparse/only-the-call-generator-uses-those-slots-for-positional-arguments", users <= {"unparse_Call"}, repr(sorted(users)), backend="structural")
    # keyword values and every other slot parenthesise a walrus
    R.check("expr_unparse.PREC ladder/keyword-argument-values-parenthesise-a-walrus", eu.PREC_CALL_SLOT_KWARG < eu.PREC_NAMEDEXPR, "", backend="ground")
    R.check("expr_unparse.PREC ladder/root-parenthesises-a-walrus", eu.PREC_EXPR_SLOT < eu.PREC_NAMEDEXPR, "", backend="ground")


WITNESSES = ["f'{d[\"k\"]}'", "f'{f\"{x}\"}'", "f'{f\"{f'{x}'}\"}'" if sys.version_info >= (3, 12) else "f'{x}'", "f'{\"a\\nb\"}'" if sys.version_info >= (3, 12) else "f'{x}'",
             "f'a\\n{x}'", "f'{x!r:>{w}}'", "f'{x:{\"^\"}{w}}'"]


def g_fstring(R, tier):
    eu = extract.repo_module("oneliner.expr_unparse")
    for src in sorted(set(WITNESSES)):
        try:
            node = ast.parse(src, mode="eval").body
        except SyntaxError:
            continue
        try:
            text = eu.expr_unparse(node)
        except SyntaxError as e:
            # refusing is portable (the 3.11 host refuses backslashes): counted as held here (C04 lists it)
            R.bounded(f"expr_unparse/fstring-text-parses-on-the-oldest-interpreter-present/{src}", True, f"refused on this host: {e}")
            continue
        p = subprocess.run(["python3-vt", "-c", "import ast,sys; ast.parse(sys.argv[1], mode='eval')", text], capture_output=True, text=True)
        ok = p.returncode == 0
        if ok:
            R.bounded(f"expr_unparse/fstring-text-parses-on-the-oldest-interpreter-present/{src}", True, text)
        else:
            R.fail(f"expr_unparse/fstring-text-parses-on-the-oldest-interpreter-present/{src}",
                   f"text {text!r} produced on host {sys.version_info[:2]} is not valid before Python 3.12: {p.stderr.strip().splitlines()[-1] if p.stderr.strip() else ''}",
                   replay=dict(kind="fstr38", src=src), backend="witness")


GROUPS = {"walrus": g_walrus, "fstring": g_fstring, "canary": c13.g_canary}
NO_FRAME_GROUPS = ("walrus", "fstring")


def replay_fstr38(rp):
    eu = extract.repo_module("oneliner.expr_unparse")
    node = ast.parse(rp["src"], mode="eval").body
    text = eu.expr_unparse(node)
    p = subprocess.run(["python3-vt", "-c", "import ast,sys; ast.parse(sys.argv[1], mode='eval')", text], capture_output=True, text=True)
    return dict(reproduced=p.returncode != 0, source=rp["src"], output=text, parser="python3-vt (3.11)", error=p.stderr.strip().splitlines()[-1:] )


REPLAY = {"fstr38": replay_fstr38}
