"""C07 -- each source sub-expression is evaluated once, in Python's order.

For every statement class the REAL get_result (and the constructor that copies argument
lists) is executed with opaque sub-expressions; the emitted tree is read with
spec/target_lang.py and its event trace compared with the Language-Reference trace of the
statement: same events, same multiplicity, same order, same evaluation scope.
Assignment and augmented assignment are the C13 groups (shared)."""
from __future__ import annotations

import ast

import z3

from contracts import c_lowering as CL
from olvc import ops, sym
from olvc.evaluator import Machine
from olvc.oblig import paths_or_undecided
from olvc.runner import explore
from olvc.sym import Opaque, Seg, SInt, ctx, tagstr, zint
from olvc.tmpl import Hole
from spec import pysem, target_lang as TL
from suites import c13

PROPERTY = "C07"
HOSTS = ["3.12"]
LEVEL = "proof"
TRUSTED_BASE = list(c13.TRUSTED_BASE) + ["Language Reference 7.2/7.2.1 (assignment), 8.7 (function definitions), 8.8 (class definitions), 6.12/6.11 (conditional, boolean operations)"]
ASSUMPTIONS = list(c13.ASSUMPTIONS) + ["evaluation order inside one source sub-expression is the contract of expr_transf (generic copy preserves field order; suites/c06)"]
EXPLANATION = "symbolic execution of the real statement lowering; traces of the emitted idioms compared with Language-Reference traces"


def stubs(extra=None):
    return c13.stubs(extra)


class EvalS(c13.EvalA):
    pass


def R_list(tag):
    """converted child statements: contract 'executes the child'"""
    return [CL.seg(tag, lambda t: CL.absnode(("R", t), ("R", tagstr(t))))]


def prune_zero(c, tr):
    """drop repetitions whose count is provably zero on this path (recursively)"""
    out = []
    for e in tr:
        if e[0] == "rep":
            if c13._provably_zero(c, e[1]):
                continue
            out.append(("rep", e[1], e[2], e[3], prune_zero(c, e[4])))
        elif e[0] == "choice":
            out.append(("choice", e[1], prune_zero(c, e[2]), prune_zero(c, e[3])))
        elif e[0] == "loop":
            out.append(("loop", e[1], e[2], e[3], prune_zero(c, e[4])))
        else:
            out.append(e)
    return out


def compare(R, name, p, res, want, guarded=False, replay=None, env=None):
    c = p.ctx
    sym.set_ctx(c)
    try:
        ev = EvalS(env)
        try:
            ev.seq(res if isinstance(res, list) else [res])
        except TL.NotInFragment as e:
            R.undecided(name, str(e))
            return None
        got = prune_zero(c, c13.drop_pure(TL.observable(ev.tr), ev.pure))
        want = prune_zero(c, c13.drop_pure(want, ev.pure))
        why = []
        ok = pysem.guarded_eq(c, got, want, why) if guarded else pysem.trace_eq(c, got, want, why)
        R.check(name, ok, "; ".join(why)[:500] + "\nlowered:\n" + TL.show(got) + "\nPython:\n" + TL.show(want), replay=replay)
        return ev
    finally:
        sym.set_ctx(None)


# ----------------------------------------------------------------------------------------
def g_expr(R, tier):
    pn = CL.pn()

    def run(c):
        m = Machine(stubs=stubs())
        node = ast.Expr(value=CL.src("V"))
        self_ = CL.mk_pending(pn.PendingExpr, node, CL.mk_nsp(), CL.mk_global(), m=m)
        return dict(res=m.call_value(pn.PendingExpr.get_result, self_))
    paths = explore(run)
    base = "pending_nodes.PendingExpr.get_result"
    if paths_or_undecided(R, base + "/paths", paths):
        for p in paths:
            if p.kind != "ok":
                R.fail(f"{base}/no-unexpected-raise", repr(p.value))
                continue
            compare(R, f"{base}/evaluates-the-expression-once", p, p.value["res"], [("ev", "nsp", "V")])


def g_if(R, tier):
    pn = CL.pn()
    for style in ("if_expr", "short_circuit"):
        def run(c):
            m = Machine(stubs=stubs())
            node = ast.If(test=CL.src("test"), body=[], orelse=[])
            G = CL.mk_global(if_style=style)
            B, E = R_list("B"), R_list("E")
            self_ = CL.mk_pending(pn.PendingIf, node, CL.mk_nsp(), G, m=m, converted_body=B, converted_orelse=E)
            return dict(res=m.call_value(pn.PendingIf.get_result, self_), B=B[0], E=E[0])
        paths = explore(run)
        base = f"pending_nodes.PendingIf.get_result[{style}]"
        if not paths_or_undecided(R, base + "/paths", paths):
            continue
        for p in paths:
            sig = p.ctx.signature()
            if p.kind != "ok":
                R.fail(f"{base}/no-unexpected-raise/{sig}", repr(p.value))
                continue
            B, E = p.value["B"], p.value["E"]
            want = [("ev", "nsp", "test"),
                    ("choice", ("val", "test"),
                     [("rep", B.length, B.jvar, False, [("stmt", tagstr(B.items[0].tag[0][1]))])],
                     [("rep", E.length, E.jvar, False, [("stmt", tagstr(E.items[0].tag[0][1]))])])]
            compare(R, f"{base}/test-once-then-exactly-one-branch/{sig}", p, p.value["res"], want, guarded=True,
                    replay=dict(kind="src", src="log = []\ndef t(v):\n    log.append(v)\n    return v\nif t(0):\n    log.append('a')\nelse:\n    log.append('b')\nif t([]):\n    log.append('c')\nif t(1):\n    x = 0\nelse:\n    log.append('d')\n"
                                             "def lp():\n    for i in range(3):\n        if t(i == 1):\n            continue\n        else:\n            log.append(('i', i))\nlp()\n"
                                             "def g(x):\n    if t(x):\n        return\n    else:\n        log.append('g')\ng(1)\ng(0)\n"
                                             # the test object is asked for its truth value once
                                             "class L:\n    def __init__(self, n):\n        self.n = n\n    def __len__(self):\n        log.append(('len', self.n))\n        return self.n\n"
                                             "def h(x):\n    if x:\n        return 't'\n    else:\n        return 'f'\nr = (h(L(0)), h(L(2)))\nif L(0):\n    pass\nelif L(0):\n    pass\nelse:\n    log.append('end')\n", expect="same-globals"))


def g_return(R, tier):
    pn = CL.pn()
    for has_value in (True, False):
        def run(c):
            m = Machine(stubs=stubs())
            node = ast.Return(value=CL.src("V") if has_value else None, lineno=1, col_offset=0)
            nsp = CL.mk_nsp("fn", kinds=("function",), return_cnt=0, return_value_expr=ast.Name(id=Hole("retv", "ident", fresh=True)),
                            return_node_bodies=[])
            self_ = CL.mk_pending(pn.PendingReturn, node, nsp, CL.mk_global(), m=m)
            return dict(res=m.call_value(pn.PendingReturn.get_result, self_))
        paths = explore(run)
        base = f"pending_nodes.PendingReturn.get_result[{'value' if has_value else 'bare'}]"
        if not paths_or_undecided(R, base + "/paths", paths):
            continue
        for p in paths:
            if p.kind != "ok":
                R.fail(f"{base}/no-unexpected-raise", repr(p.value))
                continue
            compare(R, f"{base}/value-evaluated-once-in-the-function-scope", p, p.value["res"], [("ev", "fn", "V")] if has_value else [])


# ----------------------------------------------------------------------------------------
def mk_function_nsp(node, tag="inner", **over):
    symt = Opaque((tag, "symt"), object, methods=dict(get_lineno=lambda o: node.lineno, get_name=lambda o: node.name))
    f = dict(symt=symt, return_cnt=0, return_value_expr=ast.Name(id=Hole("retv", "ident", fresh=True)),
             flow_ctrl_return_expr=ast.Name(id=Hole("retflag", "ident", fresh=True)),
             zero_arg_super_used=False, flow_ctrl_return_used=False, return_node_bodies=[],
             inner_nonlocal_names=set(), nonlocal_parameters=set(), nonlocal_dict_expr=ast.Name(id=Hole("nld", "ident", fresh=True)),
             is_method=False, first_parameter=None)
    f.update(over)
    return CL.mk_nsp(tag, kinds=("function",), **f)


def symbolic_arguments():
    a = lambda t: ast.arg(arg=Hole((t, "arg"), "ident"), annotation=CL.src((t, "ann")))
    KW, KW2 = CL.seg("KW", a), CL.seg("KW2", a)
    return ast.arguments(
        posonlyargs=[CL.seg("PO", a)], args=[CL.seg("AR", a)],
        vararg=a("VA") if not ctx().branch(z3.Bool("vararg.is_none")) else None,
        kwonlyargs=[KW, KW2],
        # two adjacent runs: with / without a default (their relative order must survive)
        kw_defaults=[CL.seg("KD", lambda t: Opaque(t, ast.expr, cands=CL.EXPR_LEAVES, none=z3.Bool("KD.is_none")), like=KW),
                     CL.seg("KD2", lambda t: Opaque(t, ast.expr, cands=CL.EXPR_LEAVES, none=z3.Bool("KD2.is_none")), like=KW2)],
        kwarg=a("KA") if not ctx().branch(z3.Bool("kwarg.is_none")) else None,
        defaults=[CL.seg("DF", lambda t: CL.src(t))])


_SUPER_SRC = ("class A:\n    def v(self):\n        return 1\nclass B(A):\n    def run(self):\n        n = 0\n        while super().v() > n:\n            n += 1\n        return n\n"
              "    def po(me, /, k=2):\n        while super().v() > k:\n            pass\n        return super().v() * k\nr = (B().run(), B().po())\n")


def g_functiondef(R, tier, only=None):
    """only='first-parameter': just the clause zero-argument super() depends on (C12)"""
    pn = CL.pn()
    base = "pending_nodes.PendingFunctionDef"

    def run(c):
        m = Machine(stubs=stubs())
        args = symbolic_arguments()
        # which run holds the first positional parameter is decided per path
        c.branch(sym.zint(args.posonlyargs[0].length) > 0)
        c.branch(sym.zint(args.args[0].length) > 0)
        node = ast.FunctionDef(name="f", args=args, body=CL.fn_body(), decorator_list=[CL.seg("DEC", lambda t: CL.src(t))],
                               returns=CL.src("returns"), lineno=7, col_offset=0)
        inner = mk_function_nsp(node)
        outer = CL.mk_nsp("outer", inner_nsp=[inner])
        G = CL.mk_global()
        self_ = CL.mk_pending(pn.PendingFunctionDef, node, outer, G, m=m)
        ca = self_.converted_args
        self_.converted_body = R_list("BODY")
        res = m.call_value(pn.PendingFunctionDef.get_result, self_)
        return dict(res=res, node=node, ca=ca, self_=self_, inner=inner)
    paths = explore(run)
    if not paths_or_undecided(R, base + "/paths", paths):
        return
    for p in paths:
        sig = p.ctx.signature()
        if p.kind != "ok":
            R.fail(f"{base}/no-unexpected-raise/{sig}", repr(p.value))
            continue
        v = p.value
        node, ca = v["node"], v["ca"]
        c = p.ctx
        sym.set_ctx(c)
        try:
            a = node.args
            # --- argument copy: names in place, annotations gone, structure kept (C11 shares this)
            from suites.c13 import _provably_zero as _pz
            def names(lst):
                out = []
                for x in lst:
                    if isinstance(x, Seg) and _pz(c, x.length):
                        continue  # an empty run is no parameter
                    out.append(("seg", str(x.length), tagstr(x.items[0].arg.tag), getattr(x.items[0], "annotation", None) is None) if isinstance(x, Seg)
                               else ("one", tagstr(x.arg.tag), getattr(x, "annotation", None) is None))
                return out
            def src_names(lst):
                return [("seg", str(x.length), tagstr(x.items[0].arg.tag), True) if isinstance(x, Seg) else ("one", tagstr(x.arg.tag), True) for x in lst
                        if not (isinstance(x, Seg) and _pz(c, x.length))]
            okn = (names(ca.posonlyargs) == src_names(a.posonlyargs) and names(ca.args) == src_names(a.args)
                   and names(ca.kwonlyargs) == src_names(a.kwonlyargs))
            okv = (ca.vararg is None) == (a.vararg is None) and (ca.kwarg is None) == (a.kwarg is None)
            if a.vararg is not None:
                okv = okv and ca.vararg.arg is a.vararg.arg and getattr(ca.vararg, "annotation", None) is None
            if a.kwarg is not None:
                okv = okv and ca.kwarg.arg is a.kwarg.arg and getattr(ca.kwarg, "annotation", None) is None
            if only is None:
                R.check(f"{base}.__init__/parameters-copied-in-place-without-annotations/{sig}", okn and okv,
                        f"posonly {names(ca.posonlyargs)} args {names(ca.args)} kwonly {names(ca.kwonlyargs)} vararg {ca.vararg!r} kwarg {ca.kwarg!r}",
                        replay=dict(kind="sig"))
            # data model 3.3.3.6 / PEP 3135: zero-argument super() takes the FIRST POSITIONAL parameter
            # (positional-only ones first) of the function as the instance; none: nothing to take
            live = [x for x in list(a.posonlyargs) + list(a.args) if not (isinstance(x, Seg) and _pz(c, x.length))]
            got_fp = v["inner"].fields.get("first_parameter")
            if not live:
                okfp = got_fp is None
                want_fp = None
            else:
                from olvc import ops as _ops
                first = live[0]
                want_fp = (_ops.subst_j(first.items[0], first.jvar, z3.IntVal(0)) if isinstance(first, Seg) else first).arg
                okfp = isinstance(got_fp, Hole) and TL.term_eq(c, tagstr(got_fp.tag), tagstr(want_fp.tag)) if isinstance(want_fp, Hole) else got_fp == want_fp
                if isinstance(first, Seg) and not c.valid(sym.zint(first.length) > 0)[0]:
                    okfp = None  # the first run may be empty on this path: not decided here
            if only != "first-parameter":
                pass
            elif okfp is None:
                R.undecided(f"{base}.__init__/namespace-told-the-first-positional-parameter/{sig}", "the first run of parameters may be empty on this path")
            else:
                R.check(f"{base}.__init__/namespace-told-the-first-positional-parameter/{sig}", bool(okfp), f"first_parameter={got_fp!r}, Python: {want_fp!r}",
                        replay=dict(kind="src", src=_SUPER_SRC, expect="same-globals"))
        finally:
            sym.set_ctx(None)
        if only is not None:
            continue
        # --- evaluation order of the definition (Language Reference 8.7)
        DEC, DF = node.decorator_list[0], a.defaults[0]
        want = [("rep", DEC.length, DEC.jvar, False, [("ev", "outer", tagstr(DEC.items[0].tag))]),
                ("rep", DF.length, DF.jvar, False, [("ev", "outer", tagstr(DF.items[0].tag))])]
        for KD, flag in zip(a.kw_defaults, ("KD.is_none", "KD2.is_none")):
            kd_none, _ = c.valid(z3.Bool(flag))
            if not kd_none:
                want.append(("rep", KD.length, KD.jvar, False, [("ev", "outer", tagstr(KD.items[0].tag))]))
        # None holes of kw_defaults stay None holes, in place
        okh = True
        from suites.c13 import _provably_zero
        sym.set_ctx(c)
        try:
            from olvc.sym import zint
            def norm(runs):
                """[(what, length)] with empty runs dropped and adjacent None runs merged"""
                out = []
                for what, n in runs:
                    if _provably_zero(c, n):
                        continue
                    if what == "none" and out and out[-1][0] == "none":
                        out[-1] = ("none", out[-1][1] + zint(n))
                    else:
                        out.append((what, zint(n)))
                return out
            src_runs = norm([("none" if c.valid(z3.Bool(fl))[0] else ("T", tagstr(ops.subst_j(K.items[0], K.jvar, z3.Int("J")).tag)), K.length)
                             for K, fl in zip(a.kw_defaults, ("KD.is_none", "KD2.is_none"))])
            got = []
            for K in ca.kw_defaults:
                if K is None:
                    got.append(("none", 1))
                elif isinstance(K, Seg) and len(K.items) == 1 and K.items[0] is None:
                    got.append(("none", K.length))
                elif isinstance(K, Seg) and len(K.items) == 1 and isinstance(K.items[0], Opaque) and K.items[0].props.get("sem", (None,))[0] == "T" and not K.rev:
                    got.append((("T", tagstr(ops.subst_j(K.items[0].props["sem"][2], K.jvar, z3.Int("J")).tag)), K.length))
                else:
                    got.append((("other", repr(K)), 1))
            got_runs = norm(got)
            okh = len(got_runs) == len(src_runs) and all(g[0] == s_[0] and c.valid(g[1] == s_[1])[0] for g, s_ in zip(got_runs, src_runs))
        finally:
            sym.set_ctx(None)
        R.check(f"{base}.__init__/kw-default-holes-preserved-in-place/{sig}", okh and len(got_runs) == len(src_runs), repr(ca.kw_defaults), replay=dict(kind="sig"))
        want.append(("rep", DEC.length, DEC.jvar, True, [("call", ("val", tagstr(DEC.items[0].tag)), "*", ())]))
        want.append(("store", "outer", "f", "*"))
        ev = compare_def(R, f"{base}.get_result/decorators-top-down-defaults-left-to-right-apply-bottom-up-then-bind/{sig}", p, v["res"], want)


class EvalDef(EvalS):
    """lambda defaults over segments: evaluated in list order (positional, then kw-only)"""

    def x_Lambda(self, e):
        self._lam += 1
        a = e.args
        self.seq(a.defaults)
        for d in a.kw_defaults:
            if isinstance(d, Seg):
                items = [i for i in d.items if i is not None]
                evs, _ = self.sub(lambda: [self.expr(i) for i in items])
                if evs:
                    self.emit("rep", d.length, d.jvar, d.rev, evs)
            elif d is not None:
                self.expr(d)
        self.lambdas[self._lam] = e
        return ("lambda", self._lam)


def _wild_eq(c, g, w):
    """term equality where '*' in the expected term matches anything"""
    if w == "*":
        return True
    if isinstance(g, (tuple, list)) and isinstance(w, (tuple, list)):
        return len(g) == len(w) and all(_wild_eq(c, x, y) for x, y in zip(g, w))
    return TL.term_eq(c, g, w)


def compare_def(R, name, p, res, want):
    c = p.ctx
    sym.set_ctx(c)
    try:
        ev = EvalDef()
        try:
            ev.seq(res)
        except TL.NotInFragment as e:
            R.undecided(name, str(e))
            return None
        got = [g for g in TL.observable(ev.tr) if not (g[0] == "rep" and c13._provably_zero(c, g[1]))]
        want = [w for w in want if not (w[0] == "rep" and c13._provably_zero(c, w[1]))]
        ok = len(got) == len(want)
        why = "" if ok else f"{len(got)} events vs {len(want)}"
        if ok:
            for g, w in zip(got, want):
                if g[0] == "rep" and w[0] == "rep":
                    good = TL.term_eq(c, g[1], w[1]) and g[3] == w[3] and len(g[4]) == len(w[4]) and all(_wild_eq(c, a, b) for a, b in zip(g[4], w[4]))
                else:
                    good = _wild_eq(c, g, w)
                if not good:
                    ok, why = False, f"{g!r} vs {w!r}"
                    break
        R.check(name, ok, why[:500] + "\nlowered:\n" + TL.show(got) + "\nPython:\n" + TL.show(want),
                replay=dict(kind="src", src="log = []\ndef d(n):\n    log.append(('dec', n))\n    def w(f):\n        log.append(('apply', n))\n        return f\n    return w\ndef v(n):\n    log.append(('default', n))\n    return n\n@d(1)\n@d(2)\n@d(3)\ndef f(a=v(1), b=v(2), *, c=v(3), e, g=v(4)):\n    return a\nr = f(e=0)\n"
                                             "class K:\n    base = 5\n    def m(self, val=base, *, kw=base + 1):\n        return val, kw\nr2 = K().m()\n"
                                             "def outer():\n    x = 1\n    def sib():\n        return x\n    def h(a=x, *, b=x + 1):\n        return a, b\n    def k(x=x):\n        def inner():\n            return x\n        return inner()\n    return h(), k(), sib()\nr3 = outer()\n",
                         expect="same-globals"))
        return ev
    finally:
        sym.set_ctx(None)


# ----------------------------------------------------------------------------------------
def g_classdef(R, tier):
    pn = CL.pn()
    base = "pending_nodes.PendingClassDef.get_result"
    for meta in ("no-metaclass", "metaclass-first", "metaclass-last"):
        def run(c):
            m = Machine(stubs=stubs())
            kw = lambda t: ast.keyword(arg=Hole((t, "arg"), "ident", **{"not_in": {"metaclass"}}), value=CL.src((t, "value")))
            K1, K2 = CL.seg("K1", kw), CL.seg("K2", kw)
            mk = ast.keyword(arg="metaclass", value=CL.src("META"))
            kws = {"no-metaclass": [K1], "metaclass-first": [mk, K1], "metaclass-last": [K1, mk]}[meta]
            node = ast.ClassDef(name="C", bases=[CL.seg("BASE", lambda t: CL.src(t))], keywords=kws, body=CL.fn_body(),
                                decorator_list=[CL.seg("DEC", lambda t: CL.src(t))], lineno=3, col_offset=0)
            symt = Opaque(("cls", "symt"), object, methods=dict(get_lineno=lambda o: 3, get_name=lambda o: "C"))
            inner = CL.mk_nsp("cls", kinds=("class",), symt=symt, class_member_dict_expr=ast.Name(id=Hole("clsdict", "ident", fresh=True)))
            outer = CL.mk_nsp("outer", inner_nsp=[inner])
            self_ = CL.mk_pending(pn.PendingClassDef, node, outer, CL.mk_global(), m=m)
            self_.converted_body = R_list("BODY")
            return dict(res=m.call_value(pn.PendingClassDef.get_result, self_), node=node)
        paths = explore(run)
        if not paths_or_undecided(R, f"{base}[{meta}]/paths", paths):
            continue
        for p in paths:
            sig = p.ctx.signature()
            if p.kind != "ok":
                R.fail(f"{base}[{meta}]/no-unexpected-raise/{sig}", repr(p.value))
                continue
            node = p.value["node"]
            c = p.ctx
            sym.set_ctx(c)
            try:
                ev = EvalS()
                try:
                    ev.seq(p.value["res"])
                except TL.NotInFragment as e:
                    R.undecided(f"{base}[{meta}]/reading/{sig}", str(e))
                    continue
                flat = [e for e in c13._flat(prune_zero(c, TL.observable(ev.tr)))]
                order = [e[2] for e in flat if e[0] == "ev"]
                # Language Reference 8.8: decorators, then the inheritance list left to right
                # (bases, then keywords in source order, the metaclass keyword among them)
                DEC, BASE = node.decorator_list[0], node.bases[0]
                exp = []
                if not c13._provably_zero(c, DEC.length):
                    exp.append(tagstr(DEC.items[0].tag))
                if not c13._provably_zero(c, BASE.length):
                    exp.append(tagstr(BASE.items[0].tag))
                for k in node.keywords:
                    if isinstance(k, Seg):
                        if not c13._provably_zero(c, k.length):
                            exp.append(tagstr(k.items[0].value.tag))
                    else:
                        exp.append("META")
                got_no_dec = [x for x in order if x != (tagstr(DEC.items[0].tag))]
                exp_no_dec = [x for x in exp if x != (tagstr(DEC.items[0].tag))]
                R.check(f"{base}[{meta}]/decorators-evaluated-before-the-inheritance-list/{sig}",
                        (order[:1] == exp[:1]) if not c13._provably_zero(c, DEC.length) else True, f"evaluated {order}, Python: {exp}", replay=dict(kind="src", src=_CLASS_DECO_SRC, expect="same-globals"))
                R.check(f"{base}[{meta}]/bases-then-keywords-in-source-order", got_no_dec == exp_no_dec, f"evaluated {order}, Python: {exp}",
                        replay=dict(kind="src", src="log = []\ndef e(n, v):\n    log.append(n)\n    return v\nclass M(type):\n    def __new__(m, n, b, d, **k):\n        return super().__new__(m, n, b, d)\n    def __init__(c, n, b, d, **k):\n        pass\nclass B: pass\nclass C(e('base', B), x=e('x', 1), metaclass=e('meta', M), y=e('y', 2)):\n    pass\n", expect="same-globals"))
                if not c13._provably_zero(c, DEC.length):
                    ndec = sum(1 for x in order if x == tagstr(DEC.items[0].tag))
                    top = TL.observable(ev.tr)
                    applied = [e for e in top if e[0] == "rep" and e[3] is True and e[4] and e[4][0][0] == "call"
                               and TL.term_eq(c, e[4][0][1], ("val", tagstr(DEC.items[0].tag)))]
                    rebound = bool(top) and top[-1][0] == "store" and top[-1][2] == "C"
                    # Language Reference 8.8: the decorators receive the class object after its suite was executed
                    # (the idiom: after the members of the body were installed), and nothing else is done to it before
                    i_app = [i for i, e in enumerate(top) if any(e is a_ for a_ in applied)]
                    i_inst = [i for i, e in enumerate(top) if e[0] == "loop" and any(x and x[0] == "setattr" for x in e[-1] if isinstance(x, tuple))]
                    R.check(f"{base}[{meta}]/class-decorators-receive-the-finished-class/{sig}", len(i_inst) == 1 and len(i_app) == 1 and i_inst[0] < i_app[0] == len(top) - 2,
                            f"members installed at step {i_inst}, decorators applied at step {i_app} of {len(top)}",
                            replay=dict(kind="src", src=_CLASS_DECO_SRC, expect="same-globals"))
                    R.check(f"{base}[{meta}]/class-decorators-evaluated-and-applied/{sig}", ndec == 1 and len(applied) == 1 and rebound,
                            f"decorator expressions evaluated {ndec} times, applied bottom-up {len(applied)} times, class name rebound last: {rebound}",
                            replay=dict(kind="src", src=_CLASS_DECO_SRC, expect="same-globals"))
                # each sub-expression exactly once, in the defining scope
                scopes = {e[1] for e in flat if e[0] == "ev"}
                R.check(f"{base}[{meta}]/header-evaluated-in-the-defining-scope/{sig}", scopes <= {"outer"}, repr(scopes))
            finally:
                sym.set_ctx(None)


_CLASS_DECO_SRC = ("log = []\ndef e(n, v):\n    log.append(n)\n    return v\ndef tag(t):\n    def deco(c):\n        c.tags = getattr(c, 'tags', ()) + (t,)\n        log.append('apply ' + t)\n        return c\n    return deco\n"
                   "class B:\n    pass\n@e('d1', tag('one'))\n@e('d2', tag('two'))\n@tag('three')\nclass C(e('base', B)):\n    log.append('body')\n"
                   "@tag('solo')\nclass D:\n    pass\n"
                   "def members(c):\n    log.append(sorted(k for k in vars(c) if not k.startswith('__')))\n    return c\n@members\nclass E:\n    x = 1\n    def f(self):\n        return 2\n"
                   "r = (C.tags, D.tags, log)\n")


def g_assign_statement(R, tier):
    """whole assignment statement with the REAL assign_auto / leaf handlers: the value is
    evaluated first, then the target expressions left to right (Language Reference 7.2)"""
    pn = CL.pn()
    base = "pending_nodes.PendingAssign.get_result"
    shapes = {
        "name": (lambda: ast.Name(id=Hole("x", "ident"), ctx=ast.Store()), [("store", "nsp", ("id", "x"), ("val", "V"))]),
        "attribute": (lambda: ast.Attribute(value=CL.src("obj"), attr=Hole("a", "ident"), ctx=ast.Store()),
                      [("ev", "nsp", "obj"), ("setattr", ("val", "obj"), ("const", ("str", ("id", "a"))), ("val", "V"))]),
        "subscript": (lambda: ast.Subscript(value=CL.src("obj"), slice=CL.src("idx", ast.expr, exclude=[ast.Slice, ast.Tuple]), ctx=ast.Store()),
                      [("ev", "nsp", "obj"), ("ev", "nsp", "idx"), ("setitem", ("val", "obj"), ("val", "idx"), ("val", "V"))]),
    }
    for first, (mk1, w1) in shapes.items():
        for second, (mk2, w2) in list(shapes.items()) + [("none", (None, []))]:
            def run(c):
                m = Machine(stubs=stubs())
                t1 = mk1()
                targets = [t1]
                if mk2 is not None:
                    t2 = mk2()
                    # distinct tags for the second target
                    if isinstance(t2, ast.Name):
                        t2.id = Hole("y", "ident")
                    else:
                        t2.value = CL.src("obj2")
                        if isinstance(t2, ast.Subscript):
                            t2.slice = CL.src("idx2", ast.expr, exclude=[ast.Slice, ast.Tuple])
                        else:
                            t2.attr = Hole("b", "ident")
                    targets.append(t2)
                node = ast.Assign(targets=targets, value=CL.src("V"))
                self_ = CL.mk_pending(pn.PendingAssign, node, CL.mk_nsp(), CL.mk_global(), m=m)
                return dict(res=m.call_value(pn.PendingAssign.get_result, self_))
            paths = explore(run)
            nm = f"{base}[{first}{'' if second == 'none' else ',' + second}]"
            if not paths_or_undecided(R, nm + "/paths", paths):
                continue
            ren = lambda tr: [tuple(_ren(x) for x in e) for e in tr]
            want = [("ev", "nsp", "V")] + list(w1) + (ren(w2) if second != "none" else [])
            for p in paths:
                if p.kind != "ok":
                    R.fail(f"{nm}/no-unexpected-raise", repr(p.value))
                    continue
                compare(R, f"{nm}/value-first-then-targets-left-to-right", p, p.value["res"], want,
                        replay=dict(kind="src", src=_ORDER_SRC, expect="same-globals"))


_ORDER_SRC = (
    "log = []\nclass O: pass\no = O()\nd = {}\ndef f(n, v):\n    log.append(n)\n    return v\n"
    "f('obj', o).x = f('val', 1)\nf('d', d)[f('k', 'k')] = f('v2', 2)\n"
    "f('o2', o).y = f('d2', d)[f('k2', 2)] = z = f('v3', 3)\n"
    "d[f('k3', 3)] = f('v4', 4)\nlst = [0, 1, 2, 3]\nlst[f('lo', 1):f('hi', 3)] = f('seq', [9])\no.z = f('v5', 5)\n"
    # bare names in the target are read AFTER the value ran
    "idx = 0\ndef nxt():\n    global idx, cur\n    idx += 1\n    cur = O()\n    return idx * 10\ndata = [0, 0, 0]\ncur = o\nfirst = cur\n"
    "data[idx] = nxt()\ncur.label = nxt()\nflags = (hasattr(first, 'label'), cur.label)\n")


def _ren(x):
    m = {"obj": "obj2", "idx": "idx2", ("id", "x"): ("id", "y"), ("id", "a"): ("id", "b")}
    if isinstance(x, tuple):
        if x in m:
            return m[x]
        return tuple(_ren(i) for i in x)
    return m.get(x, x) if isinstance(x, str) else x


GROUPS = {
    "expr": g_expr, "assign:statement": g_assign_statement, "if": g_if, "return": g_return, "functiondef": g_functiondef, "classdef": g_classdef,
    "assign:get_result": c13.g_get_result, "assign:leaf_targets": c13.g_leaf_targets, "assign:tuple_list": c13.g_tuple_list,
    "augassign": c13.g_augassign, "canary": c13.g_canary,
}


def replay_sig(rp):
    from suites import replay_util as RU
    src = ("def f(a, b=1, /, c=2, *d, e, g=3, **h):\n    return (a, b, c, d, e, g, h)\n"
           "def k(*, x, y=5):\n    return (x, y)\ndef p(a, /):\n    return a\n"
           "def q(*, u='U', v, w='W', z):\n    return (u, v, w, z)\n"
           "def t(target, factor=1, /, **kw):\n    return (target, factor, sorted(kw.items()))\n"
           "r = (f(1, e=4), f(1, 2, 3, 4, 5, e=6, z=7), k(x=1), p(9), q(v=1, z=2), q(u=0, v=1, w=2, z=3), t('t', factor=3), t('t', 2, target='x'))\n"
           "errs = []\nfor call in (lambda: f(), lambda: f(1), lambda: f(a=1, e=2), lambda: k(1), lambda: p(a=1)):\n"
           "    [errs.append('ok')] if False else None\n")
    return RU.replay_source(src, "same-globals", names=["r"])


REPLAY = dict(c13.REPLAY)
REPLAY["sig"] = replay_sig
from suites import thorough as _th, progenum as _pg
GROUPS["thorough:enum-assignments"] = _th.only_thorough(_pg.g_f1)
GROUPS["thorough:enum-augmented-assignments"] = _th.only_thorough(_pg.g_f2)
GROUPS["thorough:enum-function-signatures"] = _th.only_thorough(_pg.g_f3)

# The converted program evaluates what the TEXT says: the project's own unparser must write
# arguments, keywords, display elements, operands ... in the order of the tree.  These are the
# C03 obligations (template = grammar production, children in place) of every expression kind,
# required here as well.
from suites import c03 as _c03
for _k in [k for k in _c03.GROUPS if k.startswith("kind:")]:
    GROUPS[f"unparser-keeps-the-order-of-the-tree/{_k[5:]}"] = _c03.GROUPS[_k]
REPLAY.update({k: v for k, v in _c03.REPLAY.items() if k not in REPLAY})
NO_FRAME_GROUPS = tuple(k for k in GROUPS if k.startswith("unparser-keeps-the-order-of-the-tree/"))  # (their frames are C03's)

# "conditions, iterables ... exactly as many times as the original does": the loop idioms are
# C05's groups (test once per iteration and never after a break; iterable once), required here too
from suites import c05 as _c05
GROUPS["loops:while-test-evaluated-as-often-as-python"] = _c05.GROUPS["while"]
GROUPS["loops:for-iterable-evaluated-once"] = _c05.GROUPS["for"]
REPLAY.update({k: v for k, v in _c05.REPLAY.items() if k not in REPLAY})
NO_FRAME_GROUPS = NO_FRAME_GROUPS + ("loops:while-test-evaluated-as-often-as-python", "loops:for-iterable-evaluated-once")  # (their frames are C05's)

# bounded stand-ins for undecided obligations (olvc/oblig.py::main_check)
_IF_AND_CLASS_SRC = ("log = []\ndef t(n, v):\n    log.append(n)\n    return v\nd = {}\nif t('a', 1):\n    pass\nif d.setdefault('k', 0):\n    pass\nelif t('b', 0):\n    pass\nelse:\n    pass\n"
                     "n = 0\nwhile n < 2:\n    n += 1\n    if t('w', n):\n        pass\n    else:\n        pass\n"
                     "def deco(f):\n    log.append('deco')\n    return f\nclass E:\n    x = t('member', 1)\n    def __eq__(self, o):\n        return True\n    @deco\n    def m(self, q=t('default', 2)):\n        return q\n    t('bare', 0)\n"
                     "r = (log, d, E().m())\n")
STANDINS = {"*": [dict(kind="src", src=_ORDER_SRC, expect="same-globals"), dict(kind="src", src=_CLASS_DECO_SRC, expect="same-globals"),
                  dict(kind="src", src=_IF_AND_CLASS_SRC, expect="same-globals"), dict(kind="sig")]}
