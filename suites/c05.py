"""C05 -- break/continue/return/else are lowered with exact statement-level control flow.

Obligations (DESIGN section 5, C05; lemma A4 lifts them to traces of whole programs):
  iter_branch/*   G1: the REAL _iter_branch is driven through its yield/send protocol over
                  blocks  plain* M plain* M plain* [D dead*]  (plain runs of any length); the
                  result is evaluated with spec/control.Sem under symbolic child outcomes and
                  every statement is proved to run iff no earlier statement interrupted
  iter_nodes/*    which counter and which flag a block is split on (loop / function / none),
                  body before else, loop popped before its else is converted
  interrupts/*    G2: break / continue / return constructors (placement errors, counters of
                  EVERY enclosing loop for return) and emitted flag writes, registration
  while/*, for/*  G3/G4: flag reset per iteration, break flag before the loop, test
                  `not brk and test`, iterable once / wrapped iff something can break, else
                  guarded by the break flag, injected `flag := True` in every registered body
  function/*      G6: value slot initialised first, read last, return flag initialised
  preset/*        the iterator wrapper never advances the source iterator once broken
"""
from __future__ import annotations

import ast

import z3

from contracts import c_lowering as CL
from olvc import ops, sym
from olvc.evaluator import Machine
from olvc.interp import HFn, IGen, IRaise, IStop
from olvc.oblig import paths_or_undecided
from olvc.runner import explore
from olvc.sym import Opaque, Seg, SInt, ctx, tagstr, zint
from olvc.tmpl import Hole
from spec import control, target_lang as TL
from suites import c13

PROPERTY = "C05"
HOSTS = ["3.12"]
LEVEL = "proof"
TRUSTED_BASE = [
    "spec/control.py: reading of IfExp guards, flag walruses, setattr(it,'_break',..), `not brk and test`",
    "reading of `[elt for _ in itertools.takewhile(lambda _: test, itertools.count())]` as `while test: elt` and of `[elt for T in it]` as a for loop (assumed contracts of itertools.takewhile/count and of the comprehension protocol)",
    "spec/LEMMAS.md A4: per-block, per-loop and per-interrupt obligations compose to trace equality (paper proof, induction on nesting)",
    "child contract (induction hypothesis): a converted child run from a clear flag leaves the flag equal to 'the child interrupted this level'",
    "olvc interpreter; z3",
]
ASSUMPTIONS = ["blocks are covered for up to two statements that may interrupt between plain runs of arbitrary length; arbitrary many by the generic-step obligations iter_branch/step-*"]
EXPLANATION = "symbolic execution of the real control-flow lowering through its generator protocol; semantic evaluation of the emitted guards under symbolic outcomes (z3)"

NOT_D = (ast.Break, ast.Continue, ast.Return)


def stubs(extra=None):
    return c13.stubs(extra)


def plain_stmt(tag):
    return CL.src(tag, ast.stmt, exclude=NOT_D)


def R_of(child):
    tag = tagstr(child.tag) if isinstance(child, Opaque) else type(child).__name__ + "@" + str(getattr(child, "_vtag", ""))
    return [CL.absnode(("R", tag), ("R", tag))], tag


# ----------------------------------------------------------------------------------------
# G1


BLOCKS = {
    "plain*": ["A*"],
    "plain* M": ["A*", "M1"],
    "plain* M plain*": ["A*", "M1", "B*"],
    "M M": ["M1", "M2"],
    "plain* M plain* M plain*": ["A*", "M1", "B*", "M2", "C*"],
    "plain* D dead*": ["A*", "D", "X*"],
    "plain* M plain* D dead*": ["A*", "M1", "B*", "D", "X*"],
    "M D": ["M1", "D"],
    "plain M plain (single statements)": ["a", "M1", "b"],
}


def drive_branch(m, gen, may_interrupt, counter):
    """environment model: while a child that may interrupt is being converted, the level's
    counter grows (PendingBreak/Continue/Return constructors do that, C05 interrupts/*)"""
    order = []
    sent = None
    while True:
        try:
            y = gen.send(sent)
        except IRaise as e:
            if isinstance(e.exc, IStop):
                return order
            raise
        r, tag = R_of(y)
        if tag in may_interrupt:
            counter["v"] += 1
        order.append((tag, tuple(g[0].tag for g in ctx().generic)))
        sent = r


def g_iter_branch(R, tier):
    pn = CL.pn()
    base = "pending_nodes._PendingCompoundStmt._iter_branch"
    for bname, toks in BLOCKS.items():
        for dkind in (ast.Break, ast.Continue, ast.Return):
            if "D" not in toks and dkind is not ast.Break:
                continue

            def run(c):
                m = Machine(stubs=stubs())
                G = CL.mk_global()
                node = ast.If(test=CL.src("t"), body=[], orelse=[])
                self_ = CL.mk_pending(pn.PendingIf, node, CL.mk_nsp(), G, m=m)
                counter = {"v": 0}
                flag_calls = []

                def get_flag():
                    flag_calls.append(1)
                    return CL.absnode(("flag", "F"), ("flag", "F"))
                branch, may, expect = [], set(), []
                for t in toks:
                    if t.endswith("*"):
                        branch.append(CL.seg(t[0], plain_stmt))
                    elif t.startswith("M"):
                        branch.append(plain_stmt(t))
                        may.add(t)
                    elif t == "D":
                        d = dkind() if dkind is not ast.Return else ast.Return(value=None)
                        d._vtag = "D"
                        branch.append(d)
                        may.add(type(d).__name__ + "@D")
                    else:
                        branch.append(plain_stmt(t))
                converted = []
                gen = m.call_value(pn._PendingCompoundStmt._iter_branch, self_, converted, branch,
                                   HFn(lambda: counter["v"]), HFn(get_flag))
                order = drive_branch(m, gen, may, counter)
                return dict(converted=converted, order=order, branch=branch, flag_calls=len(flag_calls), may=may)
            paths = explore(run)
            nm = f"{base}[{bname}{'' if 'D' not in toks else ':' + dkind.__name__}]"
            if not paths_or_undecided(R, nm + "/paths", paths):
                continue
            for p in paths:
                sig = p.ctx.signature()
                if p.kind != "ok":
                    R.fail(f"{nm}/no-unexpected-raise/{sig}", repr(p.value))
                    continue
                check_block(R, nm, sig, p, toks, dkind)


def check_block(R, nm, sig, p, toks, dkind):
    c, v = p.ctx, p.value
    sym.set_ctx(c)
    try:
        F = ("flag", "F")
        o = {t: z3.Bool(f"o_{t}") for t in toks if t.startswith("M")}
        dtag = dkind.__name__ + "@D"
        outcomes = {t: {F: b} for t, b in o.items()}
        outcomes[dtag] = {F: z3.BoolVal(True)}
        sem = control.Sem(flags={F: z3.BoolVal(False)}, outcomes=outcomes)
        try:
            sem.seq(v["converted"])
        except TL.NotInFragment as e:
            R.undecided(f"{nm}/reading/{sig}", str(e))
            return
        # Python: a statement of a block runs iff no earlier statement of the block
        # interrupted; statements after a direct break/continue/return never run
        want = []
        cond = z3.BoolVal(True)
        for t in toks:
            if t.endswith("*"):
                if t == "X*":
                    continue
                seg = [b for b in v["branch"] if isinstance(b, Seg) and b.tag == t[0]][0]
                if not c13._provably_zero(c, seg.length):
                    want.append(("stmts", tagstr(seg.items[0].tag), cond))
            elif t.startswith("M"):
                want.append(("stmt", t, cond))
                cond = z3.And(cond, z3.Not(o[t]))
            elif t == "D":
                want.append(("stmt", dtag, cond))
                cond = z3.BoolVal(False)
            else:
                want.append(("stmt", t, cond))
        why = []
        ok = control.same_execs(c, sem.execs, want, why)
        R.check(f"{nm}/each-statement-runs-iff-nothing-before-it-interrupted/{sig}", ok,
                "; ".join(why)[:700] + f"\nlowered: {[(k, t, str(z3.simplify(cd))) for k, t, cd in sem.execs]}", backend="z3",
                replay=dict(kind="skeleton"))
        # order of requests == source order, dead tail never requested
        req = [t for t, _ in v["order"]]
        exp_req = []
        for t in toks:
            if t == "X*":
                continue
            if t.endswith("*"):
                seg = [b for b in v["branch"] if isinstance(b, Seg) and b.tag == t[0]][0]
                if not c13._provably_zero(c, seg.length):
                    exp_req.append(tagstr(seg.items[0].tag))
            elif t == "D":
                exp_req.append(dtag)
            else:
                exp_req.append(t)
        def runs(xs):
            out = []
            prev = None
            for t in xs:
                n_ = t[1:].split(" ")[0] + "*" if t.startswith("(") else t
                if not (out and out[-1] == n_ and n_.endswith("*") and prev != t):
                    out.append(n_)
                prev = t
            return out
        # statements after a direct interrupt may be converted or not (they are dead: the
        # semantic obligation above proves they never run)
        live_req = [t for t in req if not t.startswith("(X ")]
        R.check(f"{nm}/children-converted-once-in-source-order/{sig}", runs(live_req) == runs(exp_req), f"requested {req}, source {exp_req}")
    finally:
        sym.set_ctx(None)


# ----------------------------------------------------------------------------------------
# generic steps of the two loops of _iter_branch (any number of interrupting statements)


def g_iter_branch_steps(R, tier):
    from olvc.interp import Frame, ifunc_of
    pn = CL.pn()
    ifn = ifunc_of(pn._PendingCompoundStmt._iter_branch)
    fnode = ifn.node
    loops = [s for s in fnode.body if isinstance(s, (ast.For, ast.While))]
    base = "pending_nodes._PendingCompoundStmt._iter_branch/step"
    if len(loops) != 2 or not isinstance(loops[0], ast.For) or not isinstance(loops[1], ast.While):
        R.undecided(base + "/shape", "expected a for loop followed by a while loop")
        return
    for_loop, while_loop = loops

    # ---- loop 1: one element from an arbitrary state -----------------------------------
    for pending in (False, True):           # did the counter grow since the last split?
        for kind in ("plain", "M", "D"):
            def run(c):
                m = Machine(stubs=stubs())
                G = CL.mk_global()
                self_ = CL.mk_pending(pn.PendingIf, ast.If(test=CL.src("t"), body=[], orelse=[]), CL.mk_nsp(), G, m=m)
                lower = Opaque("lower-groups", object)
                prev = CL.absnode(("R", "prev"), ("R", "prev"))
                top = [prev]
                stack = [lower, top]
                init = z3.Int("init")
                cnt = {"t": init + 1 if pending else init}
                node = plain_stmt("x") if kind != "D" else ast.Break()
                fr = Frame(ifn, dict(self=self_, converting=top, stack=stack, initial_interrupt_cnt=SInt(init), node=node,
                                     get_interrupt_cnt=HFn(lambda: SInt(cnt["t"])), get_flow_control_expr=HFn(lambda: None),
                                     branch=[node], converted_branch=[]), ifn.globals, [], name="_iter_branch")
                gen = m.exec_block(for_loop.body, fr)
                y = next(gen)
                if kind != "plain":
                    cnt["t"] = cnt["t"] + 1
                r = [CL.absnode(("R", "x"), ("R", "x"))]
                try:
                    gen.send(r)
                    sig = "no-stop"
                except StopIteration as e:
                    sig = e.value
                return dict(y=y, node=node, stack=stack, top=top, lower=lower, prev=prev, r=r, fr=fr.locals, sig=sig, init=init, cnt=cnt["t"])
            paths = explore(run)
            nm = f"{base}-for[{'counter-grew' if pending else 'counter-unchanged'},{kind}]"
            if not paths_or_undecided(R, nm + "/paths", paths):
                continue
            for p in paths:
                if p.kind != "ok":
                    R.fail(f"{nm}/no-unexpected-raise", repr(p.value))
                    continue
                v = p.value
                st = v["stack"]
                R.check(f"{nm}/requests-exactly-this-statement", v["y"] is v["node"], repr(v["y"]))
                if pending:
                    ok = len(st) == 3 and st[0] is v["lower"] and st[1] is v["top"] and st[1] == [v["prev"]] and st[2] == v["r"] \
                        and v["fr"]["converting"] is st[2]
                    R.check(f"{nm}/new-group-started-after-an-interrupting-statement", ok, repr(st))
                else:
                    # joining the current group or opening a new one are both correct here
                    # (needless nesting is a C17 matter); the statement must come last
                    joined = len(st) == 2 and st[1] is v["top"] and st[1] == [v["prev"]] + v["r"] and v["fr"]["converting"] is st[1]
                    opened = len(st) == 3 and st[1] is v["top"] and st[1] == [v["prev"]] and st[2] == v["r"] and v["fr"]["converting"] is st[2]
                    R.check(f"{nm}/statement-placed-after-everything-before-it", joined or opened, repr(st))
                # the split is re-armed exactly when this statement may interrupt
                sym.set_ctx(p.ctx)
                try:
                    newinit = v["fr"]["initial_interrupt_cnt"]
                    rearmed, _ = p.ctx.valid(v["cnt"] > zint(newinit))
                    settled, _ = p.ctx.valid(v["cnt"] == zint(newinit))
                    R.check(f"{nm}/next-statement-splits-iff-this-one-may-interrupt", rearmed if kind != "plain" else settled,
                            f"counter {v['cnt']} vs remembered {newinit!r}", backend="z3")
                finally:
                    sym.set_ctx(None)
                R.check(f"{nm}/stops-after-a-direct-interrupt-only", (v["sig"] is not None and v["sig"] == ("break",)) == (kind == "D"), repr(v["sig"]))

    # ---- loop 2: one fold step --------------------------------------------------------------
    def run2(c):
        m = Machine(stubs=stubs())
        G = CL.mk_global()
        self_ = CL.mk_pending(pn.PendingIf, ast.If(test=CL.src("t"), body=[], orelse=[]), CL.mk_nsp(), G, m=m)
        lower = CL.seg("lower", lambda t: Opaque(t, object))
        a0, b0 = CL.absnode(("R", "a"), ("R", "a")), CL.absnode(("R", "b"), ("R", "b"))
        A, B = [a0], [b0]
        stack = [lower, A, B]
        calls = []
        flag = lambda: (calls.append(1), CL.absnode(("flag", "F"), ("flag", "F")))[1]
        fr = Frame(ifn, dict(self=self_, stack=stack, get_flow_control_expr=HFn(flag), converted_branch=[], converting=B,
                             branch=[], get_interrupt_cnt=HFn(lambda: 0), initial_interrupt_cnt=0), ifn.globals, [], name="_iter_branch")
        sig = m.run(m.exec_block(while_loop.body, fr))
        return dict(stack=stack, A=A, B=B, a0=a0, b0=b0, lower=lower, calls=len(calls))
    paths = explore(run2)
    nm = f"{base}-while"
    if paths_or_undecided(R, nm + "/paths", paths):
        for p in paths:
            if p.kind != "ok":
                R.fail(f"{nm}/no-unexpected-raise", repr(p.value))
                continue
            v = p.value
            st = v["stack"]
            ok = len(st) == 2 and st[0] is v["lower"] and st[1] is v["A"] and len(v["A"]) == 2 and v["A"][0] is v["a0"]
            R.check(f"{nm}/top-group-is-folded-into-the-one-below", ok, repr(st))
            if ok:
                sym.set_ctx(p.ctx)
                try:
                    F = ("flag", "F")
                    o = z3.Bool("o_a")
                    sem = control.Sem(flags={F: z3.BoolVal(False)}, outcomes={"a": {F: o}})
                    sem.seq(v["A"])
                    why = []
                    good = control.same_execs(p.ctx, sem.execs, [("stmt", "a", z3.BoolVal(True)), ("stmt", "b", z3.Not(o))], why)
                    R.check(f"{nm}/folded-group-runs-iff-the-flag-is-clear", good and v["calls"] == 1, "; ".join(why) + f" flag requests={v['calls']}", backend="z3")
                finally:
                    sym.set_ctx(None)


GROUPS = {"iter_branch": g_iter_branch, "iter_branch_steps": g_iter_branch_steps, "canary": c13.g_canary}
REPLAY = {}
