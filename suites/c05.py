"""C05 -- break/continue/return/else are lowered with exact statement-level control flow.

Obligations (DESIGN section 5, C05; lemma A4 lifts them to traces of whole programs):
  iter_branch/*   G1: the REAL _iter_branch is driven through its yield/send protocol over
                  blocks  plain* M plain* M plain* [D dead*]  (plain runs of any length); the
                  result is evaluated with spec/control.Sem under symbolic child outcomes and
                  every statement is proved to run iff no earlier statement interrupted
  iter_nodes/*    which counter and which flag a block is split on (loop / function / none),
                  body before else, loop popped before its else is converted
  interrupts/*    G2: break / continue / return constructors (placement errors, counters of
                  EVERY enclosing loop for return) and emitted flag writes, registration
  while/*, for/*  G3/G4: flag reset per iteration, break flag before the loop, test
                  `not brk and test`, iterable once / wrapped iff something can break, else
                  guarded by the break flag, injected `flag := True` in every registered body
  function/*      G6: value slot initialised first, read last, return flag initialised
  preset/*        the iterator wrapper never advances the source iterator once broken
"""
from __future__ import annotations

import ast

import z3

from contracts import c_lowering as CL
from olvc import ops, sym
from olvc.evaluator import Machine
from olvc.interp import HFn, IGen, IRaise, IStop
from olvc.oblig import fail_or_gap, paths_or_undecided
from olvc.runner import explore
from olvc.sym import Opaque, Seg, SInt, Unsupported, ctx, tagstr, zint
from olvc.tmpl import Hole
from spec import control, target_lang as TL
from suites import c13

PROPERTY = "C05"
HOSTS = ["3.12"]
LEVEL = "proof"
TRUSTED_BASE = [
    "spec/control.py: reading of IfExp guards, flag walruses, setattr(it,'_break',..), `not brk and test`",
    "reading of `[elt for _ in itertools.takewhile(lambda _: test, itertools.count())]` as `while test: elt` and of `[elt for T in it]` as a for loop (assumed contracts of itertools.takewhile/count and of the comprehension protocol)",
    "spec/LEMMAS.md A4: per-block, per-loop and per-interrupt obligations compose to trace equality (paper proof, induction on nesting)",
    "child contract (induction hypothesis): a converted child run from a clear flag leaves the flag equal to 'the child interrupted this level'",
    "olvc interpreter; z3",
]
ASSUMPTIONS = ["blocks are covered for up to two statements that may interrupt between plain runs of arbitrary length; arbitrary many by the generic-step obligations iter_branch/step-*"]
EXPLANATION = "symbolic execution of the real control-flow lowering through its generator protocol; semantic evaluation of the emitted guards under symbolic outcomes (z3)"

NOT_D = (ast.Break, ast.Continue, ast.Return)


def stubs(extra=None):
    return c13.stubs(extra)


def plain_stmt(tag):
    return CL.src(tag, ast.stmt, exclude=NOT_D)


def R_of(child):
    tag = tagstr(child.tag) if isinstance(child, Opaque) else type(child).__name__ + "@" + str(getattr(child, "_vtag", ""))
    return [CL.absnode(("R", tag), ("R", tag))], tag


# ----------------------------------------------------------------------------------------
# G1


BLOCKS = {
    "plain*": ["A*"],
    "plain* M": ["A*", "M1"],
    "plain* M plain*": ["A*", "M1", "B*"],
    "M M": ["M1", "M2"],
    "plain* M plain* M plain*": ["A*", "M1", "B*", "M2", "C*"],
    "plain* D dead*": ["A*", "D", "X*"],
    "plain* M plain* D dead*": ["A*", "M1", "B*", "D", "X*"],
    "M D": ["M1", "D"],
    "plain M plain (single statements)": ["a", "M1", "b"],
}


def drive_branch(m, gen, may_interrupt, counter):
    """environment model: while a child that may interrupt is being converted, the level's
    counter grows (PendingBreak/Continue/Return constructors do that, C05 interrupts/*)"""
    order = []
    sent = None
    while True:
        try:
            y = gen.send(sent)
        except IRaise as e:
            if isinstance(e.exc, IStop):
                return order
            raise
        r, tag = R_of(y)
        if tag in may_interrupt:
            counter["v"] += 1
        order.append((tag, tuple(g[0].tag for g in ctx().generic)))
        sent = r


def g_iter_branch(R, tier):
    pn = CL.pn()
    base = "pending_nodes._PendingCompoundStmt._iter_branch"
    for bname, toks in BLOCKS.items():
        for dkind in (ast.Break, ast.Continue, ast.Return):
            if "D" not in toks and dkind is not ast.Break:
                continue

            def run(c):
                m = Machine(stubs=stubs())
                G = CL.mk_global()
                node = ast.If(test=CL.src("t"), body=[], orelse=[])
                self_ = CL.mk_pending(pn.PendingIf, node, CL.mk_nsp(), G, m=m)
                counter = {"v": 0}
                flag_calls = []

                def get_flag():
                    flag_calls.append(1)
                    return CL.absnode(("flag", "F"), ("flag", "F"))
                branch, may, expect = [], set(), []
                for t in toks:
                    if t.endswith("*"):
                        branch.append(CL.seg(t[0], plain_stmt))
                    elif t.startswith("M"):
                        branch.append(plain_stmt(t))
                        may.add(t)
                    elif t == "D":
                        d = dkind() if dkind is not ast.Return else ast.Return(value=None)
                        d._vtag = "D"
                        branch.append(d)
                        may.add(type(d).__name__ + "@D")
                    else:
                        branch.append(plain_stmt(t))
                converted = []
                gen = m.call_value(pn._PendingCompoundStmt._iter_branch, self_, converted, branch,
                                   HFn(lambda: counter["v"]), HFn(get_flag))
                order = drive_branch(m, gen, may, counter)
                return dict(converted=converted, order=order, branch=branch, flag_calls=len(flag_calls), may=may)
            paths = explore(run)
            nm = f"{base}[{bname}{'' if 'D' not in toks else ':' + dkind.__name__}]"
            if not paths_or_undecided(R, nm + "/paths", paths):
                continue
            for p in paths:
                sig = p.ctx.signature()
                if p.kind != "ok":
                    R.fail(f"{nm}/no-unexpected-raise/{sig}", repr(p.value))
                    continue
                check_block(R, nm, sig, p, toks, dkind)


def check_block(R, nm, sig, p, toks, dkind):
    c, v = p.ctx, p.value
    sym.set_ctx(c)
    try:
        F = ("flag", "F")
        o = {t: z3.Bool(f"o_{t}") for t in toks if t.startswith("M")}
        dtag = dkind.__name__ + "@D"
        outcomes = {t: {F: b} for t, b in o.items()}
        outcomes[dtag] = {F: z3.BoolVal(True)}
        sem = control.Sem(flags={F: z3.BoolVal(False)}, outcomes=outcomes)
        try:
            sem.seq(v["converted"])
        except TL.NotInFragment as e:
            R.undecided(f"{nm}/reading/{sig}", str(e))
            return
        # Python: a statement of a block runs iff no earlier statement of the block
        # interrupted; statements after a direct break/continue/return never run
        want = []
        cond = z3.BoolVal(True)
        for t in toks:
            if t.endswith("*"):
                if t == "X*":
                    continue
                seg = [b for b in v["branch"] if isinstance(b, Seg) and b.tag == t[0]][0]
                if not c13._provably_zero(c, seg.length):
                    want.append(("stmts", tagstr(seg.items[0].tag), cond))
            elif t.startswith("M"):
                want.append(("stmt", t, cond))
                cond = z3.And(cond, z3.Not(o[t]))
            elif t == "D":
                want.append(("stmt", dtag, cond))
                cond = z3.BoolVal(False)
            else:
                want.append(("stmt", t, cond))
        why = []
        ok = control.same_execs(c, sem.execs, want, why)
        R.check(f"{nm}/each-statement-runs-iff-nothing-before-it-interrupted/{sig}", ok,
                "; ".join(why)[:700] + f"\nlowered: {[(k, t, str(z3.simplify(cd))) for k, t, cd in sem.execs]}", backend="z3",
                replay=dict(kind="skeleton"))
        # order of requests == source order, dead tail never requested
        req = [t for t, _ in v["order"]]
        exp_req = []
        for t in toks:
            if t == "X*":
                continue
            if t.endswith("*"):
                seg = [b for b in v["branch"] if isinstance(b, Seg) and b.tag == t[0]][0]
                if not c13._provably_zero(c, seg.length):
                    exp_req.append(tagstr(seg.items[0].tag))
            elif t == "D":
                exp_req.append(dtag)
            else:
                exp_req.append(t)
        def runs(xs):
            out = []
            prev = None
            for t in xs:
                n_ = t[1:].split(" ")[0] + "*" if t.startswith("(") else t
                if not (out and out[-1] == n_ and n_.endswith("*") and prev != t):
                    out.append(n_)
                prev = t
            return out
        # statements after a direct interrupt may be converted or not (they are dead: the
        # semantic obligation above proves they never run)
        live_req = [t for t in req if not t.startswith("(X ")]
        R.check(f"{nm}/children-converted-once-in-source-order/{sig}", runs(live_req) == runs(exp_req), f"requested {req}, source {exp_req}")
    finally:
        sym.set_ctx(None)


# ----------------------------------------------------------------------------------------
# generic steps of the two loops of _iter_branch (any number of interrupting statements)


def g_iter_branch_steps(R, tier):
    from olvc.interp import Frame, ifunc_of
    pn = CL.pn()
    ifn = ifunc_of(pn._PendingCompoundStmt._iter_branch)
    fnode = ifn.node
    loops = [s for s in fnode.body if isinstance(s, (ast.For, ast.While))]
    base = "pending_nodes._PendingCompoundStmt._iter_branch/step"
    if len(loops) != 2 or not isinstance(loops[0], ast.For) or not isinstance(loops[1], ast.While):
        R.undecided(base + "/shape", "expected a for loop followed by a while loop")
        return
    for_loop, while_loop = loops

    # The loop state is found in the code, not assumed by name: the pre-block (everything
    # before the first loop) is RUN, and the roles are read off the resulting locals --
    #   groups   the list the second loop tests (`while len(groups) > 1`)
    #   aliases  every other local that IS the top group (e.g. `converting`), possibly none
    #   counter  the local that holds the value get_interrupt_cnt() returned at entry
    pre_block = fnode.body[: fnode.body.index(for_loop)]
    params = [a.arg for a in fnode.args.args]
    if len(params) != 5:
        R.undecided(base + "/shape", f"expected (self, converted_branch, branch, get_interrupt_cnt, get_flow_control_expr), found {params}")
        return
    P_SELF, P_OUT, P_BRANCH, P_CNT, P_FLAG = params

    def _test_name(e):
        called = {id(n_.func) for n_ in ast.walk(e) if isinstance(n_, ast.Call)}
        for n_ in ast.walk(e):
            if isinstance(n_, ast.Name) and id(n_) not in called:  # (not the `len` of `len(groups)`)
                return n_.id
        return None
    GROUPS_VAR = _test_name(while_loop.test)
    TARGET = for_loop.target.id if isinstance(for_loop.target, ast.Name) else None
    if not GROUPS_VAR or not TARGET:
        R.undecided(base + "/shape", "cannot identify the group stack / loop target in the code")
        return

    class HarnessGap(Exception):
        pass

    def enter(m, self_, cnt_fn, flag_fn, node):
        """run the real pre-block; -> (frame, counter variable name, alias names)"""
        entry_cnt = SInt(z3.Int("entry-counter"))
        first = [True]

        def counter():
            if first[0]:
                first[0] = False
                return entry_cnt
            return cnt_fn()
        fr = Frame(ifn, {P_SELF: self_, P_OUT: [], P_BRANCH: [node] if node is not None else [], P_CNT: HFn(counter), P_FLAG: HFn(flag_fn)},
                   ifn.globals, [], name="_iter_branch")
        m.run(m.exec_block(pre_block, fr))
        first[0] = False
        groups = fr.locals.get(GROUPS_VAR)
        if not (isinstance(groups, list) and len(groups) == 1 and isinstance(groups[0], list) and groups[0] == []):
            raise HarnessGap(f"{GROUPS_VAR} is not one empty group at loop entry: {groups!r}")
        aliases = [k for k, v_ in fr.locals.items() if v_ is groups[0] and k != GROUPS_VAR]
        counters = [k for k, v_ in fr.locals.items() if v_ is entry_cnt]
        if len(counters) != 1:
            raise HarnessGap(f"cannot identify the remembered counter (locals holding the entry value: {counters})")
        return fr, counters[0], aliases

    # ---- loop 1: one element from an arbitrary state -----------------------------------
    for pending in (False, True):           # did the counter grow since the last split?
        for kind in ("plain", "M", "D"):
            def run(c):
                m = Machine(stubs=stubs())
                G = CL.mk_global()
                self_ = CL.mk_pending(pn.PendingIf, ast.If(test=CL.src("t"), body=[], orelse=[]), CL.mk_nsp(), G, m=m)
                lower = Opaque("lower-groups", object)
                prev = CL.absnode(("R", "prev"), ("R", "prev"))
                top = [prev]
                init = z3.Int("init")
                cnt = {"t": init + 1 if pending else init}
                node = plain_stmt("x") if kind != "D" else ast.Break()
                try:
                    fr, CNT_VAR, aliases = enter(m, self_, lambda: SInt(cnt["t"]), lambda: None, node)
                except HarnessGap as e:
                    raise Unsupported(f"loop state not identified: {e}")
                # the generic state: some lower groups, a current group holding what was converted so far
                stack = fr.locals[GROUPS_VAR]
                stack[:] = [lower, top]
                for a_ in aliases:
                    fr.locals[a_] = top
                fr.locals[CNT_VAR] = SInt(init)
                fr.locals[TARGET] = node
                gen = m.exec_block(for_loop.body, fr)
                y = next(gen)
                if kind != "plain":
                    cnt["t"] = cnt["t"] + 1
                r = [CL.absnode(("R", "x"), ("R", "x"))]
                try:
                    gen.send(r)
                    sig = "no-stop"
                except StopIteration as e:
                    sig = e.value
                return dict(y=y, node=node, stack=stack, top=top, lower=lower, prev=prev, r=r, fr=fr.locals, sig=sig, init=init, cnt=cnt["t"],
                            aliases=aliases, cnt_var=CNT_VAR)
            paths = explore(run)
            nm = f"{base}-for[{'counter-grew' if pending else 'counter-unchanged'},{kind}]"
            if not paths_or_undecided(R, nm + "/paths", paths):
                continue
            for p in paths:
                if p.kind != "ok":
                    fail_or_gap(R, f"{nm}/no-unexpected-raise", p)
                    continue
                v = p.value
                st = v["stack"]
                R.check(f"{nm}/requests-exactly-this-statement", v["y"] is v["node"], repr(v["y"]))
                if pending:
                    ok = len(st) == 3 and st[0] is v["lower"] and st[1] is v["top"] and st[1] == [v["prev"]] and st[2] == v["r"] \
                        and all(v["fr"][a_] is st[2] for a_ in v["aliases"])
                    R.check(f"{nm}/new-group-started-after-an-interrupting-statement", ok, repr(st))
                else:
                    # joining the current group or opening a new one are both correct here
                    # (needless nesting is a C17 matter); the statement must come last
                    joined = len(st) == 2 and st[1] is v["top"] and st[1] == [v["prev"]] + v["r"] and all(v["fr"][a_] is st[1] for a_ in v["aliases"])
                    opened = len(st) == 3 and st[1] is v["top"] and st[1] == [v["prev"]] and st[2] == v["r"] and all(v["fr"][a_] is st[2] for a_ in v["aliases"])
                    R.check(f"{nm}/statement-placed-after-everything-before-it", joined or opened, repr(st))
                # the split is re-armed exactly when this statement may interrupt
                sym.set_ctx(p.ctx)
                try:
                    newinit = v["fr"][v["cnt_var"]]
                    rearmed, _ = p.ctx.valid(v["cnt"] > zint(newinit))
                    settled, _ = p.ctx.valid(v["cnt"] == zint(newinit))
                    R.check(f"{nm}/next-statement-splits-iff-this-one-may-interrupt", rearmed if kind != "plain" else settled,
                            f"counter {v['cnt']} vs remembered {newinit!r}", backend="z3")
                finally:
                    sym.set_ctx(None)
                R.check(f"{nm}/stops-after-a-direct-interrupt-only", (v["sig"] is not None and v["sig"] == ("break",)) == (kind == "D"), repr(v["sig"]))

    # ---- loop 2: one fold step --------------------------------------------------------------
    def run2(c):
        m = Machine(stubs=stubs())
        G = CL.mk_global()
        self_ = CL.mk_pending(pn.PendingIf, ast.If(test=CL.src("t"), body=[], orelse=[]), CL.mk_nsp(), G, m=m)
        lower = CL.seg("lower", lambda t: Opaque(t, object))
        a0, b0 = CL.absnode(("R", "a"), ("R", "a")), CL.absnode(("R", "b"), ("R", "b"))
        A, B = [a0], [b0]
        calls = []
        flag = lambda: (calls.append(1), CL.absnode(("flag", "F"), ("flag", "F")))[1]
        try:
            fr, CNT_VAR, aliases = enter(m, self_, lambda: 0, flag, None)
        except HarnessGap as e:
            raise Unsupported(f"loop state not identified: {e}")
        stack = fr.locals[GROUPS_VAR]
        stack[:] = [lower, A, B]
        for a_ in aliases:
            fr.locals[a_] = B
        sig = m.run(m.exec_block(while_loop.body, fr))
        return dict(stack=stack, A=A, B=B, a0=a0, b0=b0, lower=lower, calls=len(calls))
    paths = explore(run2)
    nm = f"{base}-while"
    if paths_or_undecided(R, nm + "/paths", paths):
        for p in paths:
            if p.kind != "ok":
                fail_or_gap(R, f"{nm}/no-unexpected-raise", p)
                continue
            v = p.value
            st = v["stack"]
            ok = len(st) == 2 and st[0] is v["lower"] and st[1] is v["A"] and len(v["A"]) == 2 and v["A"][0] is v["a0"]
            R.check(f"{nm}/top-group-is-folded-into-the-one-below", ok, repr(st))
            if ok:
                sym.set_ctx(p.ctx)
                try:
                    F = ("flag", "F")
                    o = z3.Bool("o_a")
                    sem = control.Sem(flags={F: z3.BoolVal(False)}, outcomes={"a": {F: o}})
                    sem.seq(v["A"])
                    why = []
                    good = control.same_execs(p.ctx, sem.execs, [("stmt", "a", z3.BoolVal(True)), ("stmt", "b", z3.Not(o))], why)
                    R.check(f"{nm}/folded-group-runs-iff-the-flag-is-clear", good and v["calls"] == 1, "; ".join(why) + f" flag requests={v['calls']}", backend="z3")
                finally:
                    sym.set_ctx(None)



# ----------------------------------------------------------------------------------------
# G2: interrupts


def mk_loop(tag, kinds=("while", "for")):
    pn = CL.pn()
    kmap = {"while": pn.PendingWhile, "for": pn.PendingFor}
    t = tag if isinstance(tag, tuple) else (tag,)
    name = tagstr(tag)
    return Opaque(tag, None, cands=frozenset(kmap[k] for k in kinds), setattr=CL._setattr_field, fields=dict(
        break_cnt=SInt(z3.Int(f"brk0({name})")), interrupt_cnt=SInt(z3.Int(f"int0({name})")),
        interrupt_node_bodies=[], flow_ctrl_break_expr=ast.Name(id=Hole(("brkflag",) + t, "ident", fresh=True)),
        flow_ctrl_wrapped_iter_expr=ast.Name(id=Hole(("it",) + t, "ident", fresh=True)),
        flow_ctrl_interrupt_expr=ast.Name(id=Hole(("intflag",) + t, "ident", fresh=True)), flow_ctrl_interrupt_used=False))


def loop_flag_keys(loop):
    return {"while": ("name", TL.nk(loop.fields["flow_ctrl_break_expr"].id)), "for": ("brk", TL.nk(loop.fields["flow_ctrl_wrapped_iter_expr"].id))}


def g_interrupts(R, tier):
    pn = CL.pn()
    # ---- break / continue ------------------------------------------------------------
    for cls, name, breaks in ((pn.PendingBreak, "PendingBreak", True), (pn.PendingContinue, "PendingContinue", False)):
        base = f"pending_nodes.{name}"

        def run_empty(c):
            m = Machine(stubs=stubs())
            node = (ast.Break if breaks else ast.Continue)(lineno=1, col_offset=0)
            return CL.mk_pending(cls, node, CL.mk_nsp(), CL.mk_global(), m=m)
        for p in explore(run_empty):
            R.check(f"{base}.__init__/outside-a-loop-raises-SyntaxError", p.kind == "raise" and isinstance(p.value, SyntaxError), repr(p.value),
                    replay=dict(kind="src", src="def f():\n    %s\n" % ("break" if breaks else "continue"), expect="SyntaxError"))

        def run(c):
            m = Machine(stubs=stubs())
            node = (ast.Break if breaks else ast.Continue)(lineno=1, col_offset=0)
            outer, top = mk_loop("outer"), mk_loop("top")
            nsp = CL.mk_nsp(loop_stack=[outer, top])
            before = {k: (l.fields["break_cnt"], l.fields["interrupt_cnt"]) for k, l in (("outer", outer), ("top", top))}
            self_ = CL.mk_pending(cls, node, nsp, CL.mk_global(), m=m)
            after = {k: (l.fields["break_cnt"], l.fields["interrupt_cnt"]) for k, l in (("outer", outer), ("top", top))}
            res = m.call_value(cls.get_result, self_)
            return dict(res=res, outer=outer, top=top, before=before, after=after)
        paths = explore(run)
        if not paths_or_undecided(R, base + "/paths", paths):
            continue
        for p in paths:
            sig = p.ctx.signature()
            if p.kind != "ok":
                R.fail(f"{base}/no-unexpected-raise/{sig}", repr(p.value))
                continue
            c, v = p.ctx, p.value
            sym.set_ctx(c)
            try:
                b0, i0 = v["before"]["top"]
                b1, i1 = v["after"]["top"]
                R.valid(f"{base}.__init__/innermost-loop-interrupt-counter-grows/{sig}", c, zint(i1) > zint(i0))
                if breaks:
                    R.valid(f"{base}.__init__/innermost-loop-break-counter-grows/{sig}", c, zint(b1) > zint(b0))
                else:
                    R.valid(f"{base}.__init__/continue-does-not-count-as-break/{sig}", c, zint(b1) == zint(b0))
                ob0, oi0 = v["before"]["outer"]
                ob1, oi1 = v["after"]["outer"]
                R.valid(f"{base}.__init__/outer-loops-untouched/{sig}", c, z3.And(zint(ob1) == zint(ob0), zint(oi1) == zint(oi0)))
                top = v["top"]
                res = v["res"]
                reg = top.fields["interrupt_node_bodies"]
                ok = isinstance(res, list) and len(res) == 1 and isinstance(res[0], ast.List) and len(reg) == 1 and res[0].elts is reg[0]
                R.check(f"{base}.get_result/emitted-body-is-the-one-registered-with-the-loop/{sig}", ok,
                        "the list placed in the output must be the very object registered in loop.interrupt_node_bodies (the loop appends its flag write to it later)")
                if ok:
                    keys = loop_flag_keys(top)
                    flags = {k: z3.BoolVal(False) for k in keys.values()}
                    sem = control.Sem(flags=flags)
                    sem.seq(res)
                    kind = "while" if top.cands == frozenset([pn.PendingWhile]) else "for"
                    want = breaks
                    got = z3.is_true(z3.simplify(sem.state[keys[kind]]))
                    other = z3.is_true(z3.simplify(sem.state[keys["for" if kind == "while" else "while"]]))
                    R.check(f"{base}.get_result/{'sets' if breaks else 'does-not-set'}-the-break-flag-of-the-innermost-{kind}-loop/{sig}",
                            got == want and not other, f"break flag after the statement: {sem.state}", backend="z3")
            finally:
                sym.set_ctx(None)

    # ---- return -----------------------------------------------------------------------------
    base = "pending_nodes.PendingReturn"

    def run_ret(c):
        m = Machine(stubs=stubs())
        has_value = not c.branch(z3.Bool("value.is_none"))
        node = ast.Return(value=CL.src("V") if has_value else None, lineno=1, col_offset=0)
        L1, L2 = CL.seg("L1", mk_loop), CL.seg("L2", mk_loop)
        nsp = CL.mk_nsp("fn", loop_stack=[L1, L2], return_cnt=SInt(z3.Int("ret0")),
                        return_value_expr=ast.Name(id=Hole("retv", "ident", fresh=True)), return_node_bodies=[])
        snap = lambda: {k: (s_.items[0].fields["break_cnt"], s_.items[0].fields["interrupt_cnt"]) for k, s_ in (("L1", L1), ("L2", L2))}
        before = snap()
        self_ = CL.mk_pending(pn.PendingReturn, node, nsp, CL.mk_global(), m=m)
        after = snap()
        res = m.call_value(pn.PendingReturn.get_result, self_)
        return dict(res=res, nsp=nsp, L1=L1, L2=L2, before=before, after=after, has_value=has_value)
    paths = explore(run_ret)
    if paths_or_undecided(R, base + "/paths", paths):
        seen_ok = 0
        for p in paths:
            sig = p.ctx.signature()
            c = p.ctx
            nsp_is_fn = any("fn is NamespaceFunction" in f for f in c.facts)
            if p.kind == "raise":
                R.check(f"{base}.__init__/outside-a-function-raises-SyntaxError/{sig}", isinstance(p.value, SyntaxError) and not nsp_is_fn, repr(p.value),
                        replay=dict(kind="src", src="class A:\n    return 1\n", expect="SyntaxError"))
                continue
            if p.kind != "ok":
                continue
            seen_ok += 1
            v = p.value
            sym.set_ctx(c)
            try:
                R.check(f"{base}.__init__/accepted-only-inside-a-function/{sig}", nsp_is_fn, repr(c.facts))
                R.valid(f"{base}.__init__/function-return-counter-grows/{sig}", c, zint(v["nsp"].fields["return_cnt"]) > z3.Int("ret0"))
                for k in ("L1", "L2"):
                    sg = v[k]
                    if c13._provably_zero(c, sg.length):
                        continue
                    (b0, i0), (b1, i1) = v["before"][k], v["after"][k]
                    c.pc.extend([sg.jvar >= 0, sg.jvar < zint(sg.length)])
                    try:
                        R.valid(f"{base}.__init__/every-enclosing-loop-counts-a-break-and-an-interrupt/{k}/{sig}", c,
                                z3.And(zint(b1) > zint(b0), zint(i1) > zint(i0)),
                                "return must mark EVERY loop on the function's loop stack, not only the innermost")
                    finally:
                        del c.pc[-2:]
                res = v["res"]
                ok = isinstance(res, list) and len(res) == 1 and isinstance(res[0], ast.List)
                R.check(f"{base}.get_result/one-list-expression/{sig}", ok, repr(res))
                if not ok:
                    continue
                rv = res[0].elts
                reg_fn = v["nsp"].fields["return_node_bodies"]
                R.check(f"{base}.get_result/registered-with-the-function/{sig}", len(reg_fn) == 1 and reg_fn[0] is rv, repr(reg_fn))
                for k in ("L1", "L2"):
                    sg = v[k]
                    if c13._provably_zero(c, sg.length):
                        continue
                    regs = sg.items[0].fields["interrupt_node_bodies"]
                    R.check(f"{base}.get_result/registered-with-every-enclosing-loop/{k}/{sig}", len(regs) == 1 and regs[0] is rv, repr(regs))
                # value stored once, first, in the function scope; then one flag write per loop
                ev = c13.EvalA()
                ev.seq(list(rv))
                tr = TL.observable(ev.tr, keep_tmp=True)
                if v["has_value"]:
                    okv = len(tr) >= 2 and tr[0] == ("ev", "fn", "V") and tr[1][0] == "tmpbind" and tr[1][1] == ("id", "retv") and tr[1][2] == ("val", "V")
                    R.check(f"{base}.get_result/value-evaluated-once-and-stored-in-the-return-slot-first/{sig}", okv and sum(1 for e in c13._flat(tr) if e[0] == "ev") == 1, TL.show(tr))
                else:
                    R.check(f"{base}.get_result/bare-return-stores-nothing/{sig}", not any(e[0] in ("ev", "tmpbind") and (e[0] == "ev" or e[1] == ("id", "retv")) for e in c13._flat(tr)), TL.show(tr))
                # flag writes: every loop's break flag becomes true
                for k in ("L1", "L2"):
                    sg = v[k]
                    if c13._provably_zero(c, sg.length):
                        continue
                    loop = sg.items[0]
                    keys = loop_flag_keys(loop)
                    kind = "while" if loop.cands == frozenset([pn.PendingWhile]) else "for"
                    sem = control.Sem(flags={kk: z3.BoolVal(False) for kk in keys.values()})
                    items = [x for x in rv if isinstance(x, Seg) and any(_mentions(i, sg.jvar) for i in x.items)]
                    good = False
                    if len(items) == 1:
                        for it in items[0].items:
                            sem.expr(it)
                        good = z3.is_true(z3.simplify(sem.state[keys[kind]]))
                    R.check(f"{base}.get_result/sets-the-break-flag-of-every-enclosing-{kind}-loop/{k}/{sig}", good,
                            f"flag writes for {k}: {items!r}; state {sem.state}", backend="z3")
            finally:
                sym.set_ctx(None)
        R.check(f"{base}/function-case-reached", seen_ok > 0, f"{seen_ok} accepting paths (vacuity guard)")


def _mentions(v, j):
    from olvc.evaluator import _value_mentions
    return _value_mentions(v, j, depth=6)


# ----------------------------------------------------------------------------------------
# G3/G4: loops


def find_comprehension(res):
    comps = [x for x in res if isinstance(x, ast.ListComp)]
    return comps[0] if len(comps) == 1 else None


def loop_shapes():
    for brk in (False, True):
        for intr_used in (False, True):
            for has_else in (False, True):
                yield brk, intr_used, has_else


def prepare_loop(self_, brk, intr_used, has_else):
    """state that the conversion of the children leaves behind"""
    self_.break_cnt = SInt(z3.Int("break_cnt"))
    ctx().assume(z3.Int("break_cnt") > 0 if brk else z3.Int("break_cnt") == 0)
    self_.interrupt_cnt = SInt(z3.Int("interrupt_cnt"))
    ctx().assume(z3.Int("interrupt_cnt") >= z3.Int("break_cnt"))
    self_.flow_ctrl_interrupt_used = intr_used
    self_.converted_body = R_list("BODY")
    self_.converted_orelse = R_list("ELSE") if has_else else []
    self_.interrupt_node_bodies = [CL.seg("REG", lambda t: [CL.absnode(("R", ("reg", t)), ("R", tagstr(("reg", t))))])]


def R_list(tag):
    return [CL.seg(tag, lambda t: CL.absnode(("R", t), ("R", tagstr(t))))]


def check_loop_common(R, nm, c, self_, res, intr_key, intr_used, body_list):
    """flag reset at the head of every iteration; injected flag write in every registered body"""
    comp = find_comprehension(res)
    R.check(f"{nm}/exactly-one-loop-comprehension", comp is not None, repr(res))
    if comp is None:
        return None
    elt = comp.elt
    sem = control.Sem(flags={intr_key: z3.BoolVal(True)})   # stale flag from the previous iteration
    try:
        sem.expr(elt)
    except TL.NotInFragment as e:
        R.undecided(f"{nm}/reading", str(e))
        return comp
    body_execs = [e for e in sem.execs if e[0] in ("stmt", "stmts")]
    if intr_used:
        reset_first = bool(sem.writes) and sem.writes[0][0] == intr_key and sem.writes[0][1] is False
        stmt_times = [t for e, t in zip(sem.execs, sem.execs.times) if e[0] in ("stmt", "stmts")]
        before_body = reset_first and (not stmt_times or sem.writes.times[0] < min(stmt_times))
        R.check(f"{nm}/interrupt-flag-cleared-at-the-head-of-each-iteration", before_body and z3.is_false(z3.simplify(sem.state[intr_key])),
                f"flag writes in the element: {sem.writes!r}", backend="z3",
                replay=dict(kind="skeleton"))
    regs = self_.interrupt_node_bodies[0]
    last = regs.items[0][-1] if regs.items[0] else None
    semr = control.Sem(flags={intr_key: z3.BoolVal(False)})
    if last is not None and not (isinstance(last, Opaque)):
        semr.expr(last)
    sets = z3.is_true(z3.simplify(semr.state[intr_key]))
    R.check(f"{nm}/every-registered-interrupt-body-sets-the-flag-iff-it-is-tested", sets == intr_used,
            f"registered body ends with {last!r}; flag used: {intr_used}", backend="z3", replay=dict(kind="skeleton"))
    return comp


_BREAK_AND_CONTINUE_SRC = ("out = []\nn = 0\nwhile n < 6:\n    n += 1\n    if n % 2:\n        continue\n    if n > 4:\n        break\n    out.append(n)\nelse:\n    out.append('else')\n"
                           "def f(k):\n    seen = []\n    while k:\n        k -= 1\n        if k == 3:\n            continue\n        if k == 0:\n            return seen\n        seen.append(k)\n    return 'end'\nr = (out, n, f(5))\n")


def g_while(R, tier):
    pn = CL.pn()
    base = "pending_nodes.PendingWhile.get_result"
    for brk, intr_used, has_else in loop_shapes():
        def run(c):
            m = Machine(stubs=stubs())
            node = ast.While(test=CL.src("test"), body=[], orelse=[])
            nsp = CL.mk_nsp()
            G = CL.mk_global()
            self_ = CL.mk_pending(pn.PendingWhile, node, nsp, G, m=m)
            on_stack = list(nsp.fields["loop_stack"])
            prepare_loop(self_, brk, intr_used, has_else)
            res = m.call_value(pn.PendingWhile.get_result, self_)
            return dict(res=res, self_=self_, on_stack=on_stack, G=G)
        paths = explore(run)
        nm = f"{base}[{'break' if brk else 'no-break'},{'flag' if intr_used else 'no-flag'},{'else' if has_else else 'no-else'}]"
        if not paths_or_undecided(R, nm + "/paths", paths):
            continue
        for p in paths:
            if p.kind != "ok":
                R.fail(f"{nm}/no-unexpected-raise", repr(p.value))
                continue
            c, v = p.ctx, p.value
            self_, res = v["self_"], v["res"]
            sym.set_ctx(c)
            try:
                R.check(f"{nm}/constructor-pushes-the-loop", v["on_stack"] == [self_] and getattr(v["G"], "use_itertools", True) is True, repr(v["on_stack"]))
                brk_key = ("name", TL.nk(self_.flow_ctrl_break_expr.id))
                intr_key = ("name", TL.nk(self_.flow_ctrl_interrupt_expr.id))
                # lemma A4: a `continue` sets the interrupt flag of its loop and nothing else; whether the loop
                # goes on is read from the break flag.  Two different variables, or a continue ends the loop.
                R.check(f"{nm}/break-flag-and-interrupt-flag-are-different-variables", brk_key != intr_key, f"{brk_key} / {intr_key}",
                        replay=dict(kind="src", src=_BREAK_AND_CONTINUE_SRC, expect="same-globals"))
                comp = check_loop_common(R, nm, c, self_, res, intr_key, intr_used, self_.converted_body)
                if comp is None:
                    continue
                # break flag cleared before the loop
                pre = res[:res.index(comp)]
                sem = control.Sem(flags={brk_key: z3.BoolVal(True)})
                sem.seq(pre)
                if brk:
                    R.check(f"{nm}/break-flag-cleared-before-the-loop", z3.is_false(z3.simplify(sem.state[brk_key])), repr(pre), backend="z3",
                            replay=dict(kind="skeleton"))
                # the loop idiom and its test
                g = comp.generators[0] if len(comp.generators) == 1 else None
                it = g.iter if g is not None else None
                idiom = (isinstance(it, ast.Call) and isinstance(it.func, ast.Attribute) and it.func.attr == "takewhile"
                         and isinstance(it.func.value, ast.Name) and it.func.value.id == "itertools" and len(it.args) == 2
                         and isinstance(it.args[0], ast.Lambda) and len(it.args[0].args.args) == 1 and not g.ifs
                         and isinstance(it.args[1], ast.Call) and isinstance(it.args[1].func, ast.Attribute) and it.args[1].func.attr == "count" and not it.args[1].args)
                R.check(f"{nm}/while-idiom", bool(idiom), "expected [elt for _ in itertools.takewhile(lambda _: TEST, itertools.count())]")
                if not idiom:
                    continue
                b = z3.Bool("brk")
                semt = control.Sem(flags={brk_key: b})
                tv = semt.bool_of(it.args[0].body)
                evs = [e for e in semt.execs if e[0] == "ev" and e[1] == "test"]
                want_cond = z3.Not(b) if brk else z3.BoolVal(True)
                want_val = z3.And(z3.Not(b), z3.Bool("truth:test")) if brk else z3.Bool("truth:test")
                okc = len(evs) == 1 and c.valid(evs[0][2] == want_cond)[0]
                okv = c.valid(tv == want_val)[0]
                R.check(f"{nm}/test-evaluated-once-per-iteration-and-never-after-a-break", okc, f"test runs under {[str(e[2]) for e in evs]}, expected {want_cond}",
                        backend="z3", replay=dict(kind="skeleton"))
                R.check(f"{nm}/loop-continues-iff-not-broken-and-test-true", okv, f"loop condition {z3.simplify(tv)}, expected {want_val}", backend="z3",
                        replay=dict(kind="skeleton"))
                # else clause
                post = res[res.index(comp) + 1:]
                if has_else:
                    ELSE = self_.converted_orelse[0]
                    if c13._provably_zero(c, ELSE.length):
                        continue
                    seme = control.Sem(flags={brk_key: b})
                    seme.seq(post)
                    ex = [e for e in seme.execs if e[0] == "stmts"]
                    want_e = z3.Not(b) if brk else z3.BoolVal(True)
                    R.check(f"{nm}/else-runs-iff-the-loop-was-not-broken", len(ex) == 1 and c.valid(ex[0][2] == want_e)[0],
                            f"else runs under {[str(e[2]) for e in ex]}, expected {want_e}", backend="z3", replay=dict(kind="skeleton"))
                else:
                    R.check(f"{nm}/nothing-after-the-loop-without-else", not post, repr(post))
            finally:
                sym.set_ctx(None)


def g_for(R, tier):
    pn = CL.pn()
    pr = __import__("olvc.extract", fromlist=["x"]).repo_module("oneliner.presets.iter_wrapper")
    base = "pending_nodes.PendingFor.get_result"
    for brk, intr_used, has_else in loop_shapes():
        for interrupted in ((True,) if (brk or intr_used) else (False, True)):
            def run(c):
                m = Machine(stubs=stubs())
                node = ast.For(target=CL.src("target", ast.expr, only=[ast.Name, ast.Tuple, ast.List, ast.Attribute, ast.Subscript, ast.Starred]),
                               iter=CL.src("iter"), body=[], orelse=[] if not has_else else [ast.Pass()])
                nsp = CL.mk_nsp()
                G = CL.mk_global()
                self_ = CL.mk_pending(pn.PendingFor, node, nsp, G, m=m)
                on_stack = list(nsp.fields["loop_stack"])
                prepare_loop(self_, brk, intr_used, has_else)
                if not interrupted:
                    c.assume(z3.Int("interrupt_cnt") == 0)
                else:
                    c.assume(z3.Int("interrupt_cnt") > 0)
                res = m.call_value(pn.PendingFor.get_result, self_)
                return dict(res=res, self_=self_, on_stack=on_stack, G=G, node=node)
            paths = explore(run)
            nm = f"{base}[{'break' if brk else 'no-break'},{'flag' if intr_used else 'no-flag'},{'else' if has_else else 'no-else'},{'interrupts' if interrupted else 'no-interrupts'}]"
            if not paths_or_undecided(R, nm + "/paths", paths):
                continue
            for p in paths:
                if p.kind != "ok":
                    R.fail(f"{nm}/no-unexpected-raise", repr(p.value))
                    continue
                c, v = p.ctx, p.value
                self_, res, node = v["self_"], v["res"], v["node"]
                sym.set_ctx(c)
                try:
                    R.check(f"{nm}/constructor-pushes-the-loop", v["on_stack"] == [self_], repr(v["on_stack"]))
                    it_key = ("brk", TL.nk(self_.flow_ctrl_wrapped_iter_expr.id))
                    intr_key = ("name", TL.nk(self_.flow_ctrl_interrupt_expr.id))
                    comp = check_loop_common(R, nm, c, self_, res, intr_key, intr_used, self_.converted_body)
                    if comp is None:
                        continue
                    g = comp.generators[0] if len(comp.generators) == 1 else None
                    R.check(f"{nm}/loop-target-is-the-source-target", g is not None and g.target is node.target and not g.ifs and not g.is_async, repr(g and g.target))
                    # the iterable: evaluated exactly once, before the first iteration
                    ev = c13.EvalA()
                    ev.seq(res)
                    flat = list(c13._flat(TL.observable(ev.tr, keep_tmp=True)))
                    n_it = sum(1 for e in flat if e[:3] == ("ev", "nsp", "iter"))
                    loops = [e for e in TL.observable(ev.tr) if e[0] == "loop"]
                    inside = sum(1 for l in loops for e in c13._flat(l[4]) if e[:3] == ("ev", "nsp", "iter"))
                    R.check(f"{nm}/iterable-evaluated-once-outside-the-loop-body", n_it == 1 and inside == 0, f"{n_it} evaluations, {inside} inside the element",
                            replay=dict(kind="skeleton"))
                    pre = res[:res.index(comp)]
                    post = res[res.index(comp) + 1:]
                    if brk:
                        # wrapped iterator: created once before the loop, iterated by the loop
                        w = pre[0] if len(pre) == 1 else None
                        okw = (isinstance(w, ast.NamedExpr) and w.target is self_.flow_ctrl_wrapped_iter_expr and isinstance(w.value, ast.Call)
                               and isinstance(w.value.func, ast.Name) and w.value.func.id == pr.iter_wrapper_name.id and len(w.value.args) == 1
                               and not w.value.keywords and g.iter is self_.flow_ctrl_wrapped_iter_expr)
                        R.check(f"{nm}/iterable-wrapped-once-and-the-loop-iterates-the-wrapper", bool(okw) and getattr(v["G"], "use_preset_iter_wrapper", True) is True,
                                f"pre-loop {pre!r}, loop iterates {g.iter!r}", replay=dict(kind="skeleton"))
                    else:
                        R.check(f"{nm}/no-wrapper-without-break", not pre and isinstance(g.iter, Opaque) and g.iter.props.get("sem", (0,))[0] == "T", repr(pre))
                    if has_else:
                        ELSE = self_.converted_orelse[0]
                        if c13._provably_zero(c, ELSE.length):
                            continue
                        b = z3.Bool("brk")
                        seme = control.Sem(flags={it_key: b})
                        seme.seq(post)
                        ex = [e for e in seme.execs if e[0] == "stmts"]
                        want_e = z3.Not(b) if brk else z3.BoolVal(True)
                        R.check(f"{nm}/else-runs-iff-the-loop-was-not-broken", len(ex) == 1 and c.valid(ex[0][2] == want_e)[0],
                                f"else runs under {[str(e[2]) for e in ex]}, expected {want_e}", backend="z3", replay=dict(kind="skeleton"))
                    else:
                        R.check(f"{nm}/nothing-after-the-loop-without-else", not post, repr(post))
                finally:
                    sym.set_ctx(None)



# ----------------------------------------------------------------------------------------
# which level a block is split on


def branch_stub(calls):
    def stub(it, self_, converted, branch, get_cnt, get_flag):
        calls.append(dict(converted=converted, branch=branch, get_cnt=get_cnt, get_flag=get_flag))

        def nothing():
            return None
            yield
        return IGen(nothing(), "_iter_branch-contract")
    return {"oneliner.pending_nodes:_PendingCompoundStmt._iter_branch": stub}


def drain(gen):
    while True:
        try:
            gen.send(None)
        except IRaise as e:
            if isinstance(e.exc, IStop):
                return
            raise


def level_of(m, call, levels):
    """identify which counter/flag pair the getters denote: bump each candidate counter and
    see which one the getter follows; call the flag getter and see whose flag it returns"""
    out = {}
    base = m.call_value(call["get_cnt"])
    for name, (bump, flagexpr) in levels.items():
        bump()
        now = m.call_value(call["get_cnt"])
        same = (now is base) or (isinstance(now, int) and isinstance(base, int) and now == base) or \
            (isinstance(now, SInt) and isinstance(base, SInt) and now.t.eq(base.t))
        if not same:
            out["counter"] = name
            base = now
    if "counter" not in out:
        out["counter"] = "none"
    try:
        f = m.call_value(call["get_flag"])
        out["flag"] = next((n for n, (_, fe) in levels.items() if fe is f), "unknown")
    except IRaise as e:
        out["flag"] = "never" if isinstance(e.exc, RuntimeError) else repr(e.exc)
    return out


def mk_level_loop(tag):
    flag = ast.Name(id=Hole(("intflag", tag), "ident", fresh=True))
    state = {"cnt": 0}
    lp = Opaque(tag, None, cands=frozenset([CL.pn().PendingWhile]), setattr=CL._setattr_field,
                fields=dict(interrupt_cnt=0, break_cnt=0, flow_ctrl_interrupt_expr=flag),
                methods=dict(get_flow_ctrl_expr=lambda o: flag))

    def bump():
        lp.fields["interrupt_cnt"] = lp.fields["interrupt_cnt"] + 1
    return lp, (bump, flag)


def mk_level_function(tag, loop_stack):
    flag = ast.Name(id=Hole(("retflag", tag), "ident", fresh=True))
    nsp = CL.mk_nsp(tag, kinds=("function",), loop_stack=loop_stack, return_cnt=0)
    nsp.props["methods"]["get_flow_ctrl_expr"] = lambda o: flag

    def bump():
        nsp.fields["return_cnt"] = nsp.fields["return_cnt"] + 1
    return nsp, (bump, flag)


def g_iter_nodes(R, tier):
    pn = CL.pn()
    # ---- if ---------------------------------------------------------------------------
    for place in ("in-loop", "in-function", "elsewhere"):
        def run(c):
            calls = []
            m = Machine(stubs=stubs(branch_stub(calls)))
            levels = {}
            if place == "in-loop":
                outer, lo = mk_level_loop("outerloop")
                inner, li = mk_level_loop("innerloop")
                nsp, lf = mk_level_function("fn", [outer, inner])
                levels = {"outer-loop": lo, "innermost-loop": li, "function": lf}
            elif place == "in-function":
                nsp, lf = mk_level_function("fn", [])
                levels = {"function": lf}
            else:
                nsp = CL.mk_nsp("mod", kinds=("global", "class"))
            node = ast.If(test=CL.src("t"), body=[plain_stmt("b")], orelse=[plain_stmt("e")])
            self_ = CL.mk_pending(pn.PendingIf, node, nsp, CL.mk_global(), m=m)
            drain(self_.iter_node)
            got = [level_of(m, call, levels) for call in calls]
            return dict(calls=calls, got=got, self_=self_, node=node)
        paths = explore(run)
        nm = f"pending_nodes.PendingIf._iter_nodes[{place}]"
        if not paths_or_undecided(R, nm + "/paths", paths):
            continue
        for p in paths:
            sig = p.ctx.signature()
            if p.kind != "ok":
                R.fail(f"{nm}/no-unexpected-raise/{sig}", repr(p.value))
                continue
            v = p.value
            calls = v["calls"]
            ok = (len(calls) == 2 and calls[0]["branch"] is v["node"].body and calls[0]["converted"] is v["self_"].converted_body
                  and calls[1]["branch"] is v["node"].orelse and calls[1]["converted"] is v["self_"].converted_orelse)
            R.check(f"{nm}/body-then-else-each-into-its-own-list/{sig}", ok, repr([(c_["branch"], c_["converted"]) for c_ in calls]),
                    replay=dict(kind="srcs", srcs=["def f():\n    if 0:\n        yield 1\n    return 1\n", "if 1:\n    pass\nelse:\n    raise ValueError\n", "def f():\n    if 0:\n        pass\n    else:\n        pass\n    if 0:\n        del f\n",
                                                   "while 0:\n    pass\nif '':\n    try:\n        pass\n    except Exception:\n        pass\n", "if None:\n    a, *b, *c = 1, 2\n"], expect="raises"))
            want = {"in-loop": dict(counter="innermost-loop", flag="innermost-loop"), "in-function": dict(counter="function", flag="function"),
                    "elsewhere": dict(counter="none", flag="never")}[place]
            R.check(f"{nm}/blocks-split-on-the-innermost-enclosing-level/{sig}", all(g == want for g in v["got"]), f"{v['got']} expected {want}",
                    replay=dict(kind="skeleton"))

    # ---- loops ----------------------------------------------------------------------------
    for cls_name in ("PendingWhile", "PendingFor"):
        for place in ("in-loop", "in-function", "elsewhere"):
            def run(c):
                calls = []
                m = Machine(stubs=stubs(branch_stub(calls)))
                levels = {}
                if place == "in-loop":
                    outer, lo = mk_level_loop("outerloop")
                    nsp, lf = mk_level_function("fn", [outer])
                    levels = {"enclosing-loop": lo, "function": lf}
                elif place == "in-function":
                    nsp, lf = mk_level_function("fn", [])
                    levels = {"function": lf}
                else:
                    nsp = CL.mk_nsp("mod", kinds=("global", "class"))
                cls = getattr(pn, cls_name)
                if cls_name == "PendingWhile":
                    node = ast.While(test=CL.src("t"), body=[plain_stmt("b")], orelse=[plain_stmt("e")])
                else:
                    node = ast.For(target=CL.src("tg"), iter=CL.src("it"), body=[plain_stmt("b")], orelse=[plain_stmt("e")])
                self_ = CL.mk_pending(cls, node, nsp, CL.mk_global(), m=m)
                stack = nsp.fields["loop_stack"]
                pushed = list(stack)
                own_flag = self_.flow_ctrl_interrupt_expr

                def bump_own():
                    self_.interrupt_cnt = self_.interrupt_cnt + 1
                levels_body = dict(levels)
                levels_body["this-loop"] = (bump_own, own_flag)
                g = self_.iter_node
                # first request: the body block
                stack_during = []
                got = []
                try:
                    g.send(None)
                except IRaise as e:
                    if not isinstance(e.exc, IStop):
                        raise
                for call in calls:
                    got.append(level_of(m, call, levels_body))
                return dict(calls=calls, got=got, self_=self_, node=node, pushed=pushed, stack_after=list(stack))
            paths = explore(run)
            nm = f"pending_nodes._PendingLoop._iter_nodes[{cls_name},{place}]"
            if not paths_or_undecided(R, nm + "/paths", paths):
                continue
            for p in paths:
                sig = p.ctx.signature()
                if p.kind != "ok":
                    R.fail(f"{nm}/no-unexpected-raise/{sig}", repr(p.value))
                    continue
                v = p.value
                calls = v["calls"]
                ok = (len(calls) == 2 and calls[0]["branch"] is v["node"].body and calls[0]["converted"] is v["self_"].converted_body
                      and calls[1]["branch"] is v["node"].orelse and calls[1]["converted"] is v["self_"].converted_orelse)
                R.check(f"{nm}/body-then-else-each-into-its-own-list/{sig}", ok, repr(calls)[:300],
                        replay=dict(kind="srcs", srcs=["def f():\n    if 0:\n        yield 1\n    return 1\n", "if 1:\n    pass\nelse:\n    raise ValueError\n", "def f():\n    if 0:\n        pass\n    else:\n        pass\n    if 0:\n        del f\n",
                                                   "while 0:\n    pass\nif '':\n    try:\n        pass\n    except Exception:\n        pass\n", "if None:\n    a, *b, *c = 1, 2\n"], expect="raises"))
                if not ok:
                    continue
                R.check(f"{nm}/body-split-on-this-loop/{sig}", v["got"][0] == dict(counter="this-loop", flag="this-loop"), repr(v["got"][0]),
                        replay=dict(kind="skeleton"))
                want = {"in-loop": dict(counter="enclosing-loop", flag="enclosing-loop"), "in-function": dict(counter="function", flag="function"),
                        "elsewhere": dict(counter="none", flag="never")}[place]
                R.check(f"{nm}/else-split-on-the-enclosing-level/{sig}", v["got"][1] == want, f"{v['got'][1]} expected {want}",
                        replay=dict(kind="skeleton"))
                R.check(f"{nm}/loop-is-on-the-stack-for-its-body-and-popped-for-its-else/{sig}",
                        v["pushed"][-1:] == [v["self_"]] and v["self_"] not in v["stack_after"] and len(v["stack_after"]) == len(v["pushed"]) - 1,
                        f"after constructor {v['pushed']!r}, after the generator finished {v['stack_after']!r}", replay=dict(kind="skeleton"))

    # ---- def / class ----------------------------------------------------------------------
    from suites import c07

    def run_def(c):
        calls = []
        m = Machine(stubs=stubs(branch_stub(calls)))
        node = ast.FunctionDef(name="f", args=ast.arguments(posonlyargs=[], args=[], kwonlyargs=[], kw_defaults=[], defaults=[]),
                               body=[plain_stmt("b")], decorator_list=[], returns=None, lineno=7, col_offset=0)
        flag = ast.Name(id=Hole("retflag", "ident", fresh=True))
        inner = c07.mk_function_nsp(node)
        inner.props["methods"]["get_flow_ctrl_expr"] = lambda o: flag
        outerloop, lo = mk_level_loop("outerloop")
        outer = CL.mk_nsp("outer", inner_nsp=[inner], loop_stack=[outerloop])
        self_ = CL.mk_pending(pn.PendingFunctionDef, node, outer, CL.mk_global(), m=m)
        drain(self_.iter_node)

        def bump():
            inner.fields["return_cnt"] = inner.fields["return_cnt"] + 1
        got = [level_of(m, call, {"this-function": (bump, flag), "loop-around-the-def": lo}) for call in calls]
        return dict(calls=calls, got=got, self_=self_, node=node, inner=inner)
    paths = explore(run_def)
    nm = "pending_nodes.PendingFunctionDef._iter_nodes"
    if paths_or_undecided(R, nm + "/paths", paths):
        for p in paths:
            if p.kind != "ok":
                R.fail(f"{nm}/no-unexpected-raise", repr(p.value))
                continue
            v = p.value
            ok = len(v["calls"]) == 1 and v["calls"][0]["branch"] is v["node"].body and v["calls"][0]["converted"] is v["self_"].converted_body
            R.check(f"{nm}/whole-body-into-the-function-list", ok, repr(v["calls"])[:300])
            R.check(f"{nm}/body-split-on-the-function's-own-return-level", v["got"] == [dict(counter="this-function", flag="this-function")], repr(v["got"]),
                    replay=dict(kind="skeleton"))
            R.check(f"{nm}/body-converted-in-the-function's-own-namespace", v["self_"].has_internal_namespace is True and
                    Machine().call_value(pn.PendingFunctionDef.get_internal_namespace, v["self_"]) is v["inner"], "")

    def run_cls(c):
        calls = []
        m = Machine(stubs=stubs(branch_stub(calls)))
        node = ast.ClassDef(name="C", bases=[], keywords=[], body=[plain_stmt("b")], decorator_list=[], lineno=3, col_offset=0)
        symt = Opaque(("cls", "symt"), object, methods=dict(get_lineno=lambda o: 3, get_name=lambda o: "C"))
        inner = CL.mk_nsp("cls", kinds=("class",), symt=symt, class_member_dict_expr=ast.Name(id=Hole("clsdict", "ident", fresh=True)))
        outerloop, lo = mk_level_loop("outerloop")
        outer = CL.mk_nsp("outer", inner_nsp=[inner], loop_stack=[outerloop])
        self_ = CL.mk_pending(pn.PendingClassDef, node, outer, CL.mk_global(), m=m)
        drain(self_.iter_node)
        got = [level_of(m, call, {"loop-around-the-class": lo}) for call in calls]
        return dict(calls=calls, got=got, self_=self_, node=node, inner=inner)
    paths = explore(run_cls)
    nm = "pending_nodes.PendingClassDef._iter_nodes"
    if paths_or_undecided(R, nm + "/paths", paths):
        for p in paths:
            if p.kind != "ok":
                R.fail(f"{nm}/no-unexpected-raise", repr(p.value))
                continue
            v = p.value
            ok = len(v["calls"]) == 1 and v["calls"][0]["branch"] is v["node"].body and v["calls"][0]["converted"] is v["self_"].converted_body
            R.check(f"{nm}/whole-body-into-the-class-list", ok, repr(v["calls"])[:300])
            R.check(f"{nm}/a-class-body-is-no-interrupt-level", v["got"] == [dict(counter="none", flag="never")], repr(v["got"]))
            R.check(f"{nm}/body-converted-in-the-class's-own-namespace", v["self_"].has_internal_namespace is True and
                    Machine().call_value(pn.PendingClassDef.get_internal_namespace, v["self_"]) is v["inner"], "")


# ----------------------------------------------------------------------------------------
# G6: function frame


def g_function_frame(R, tier):
    from suites import c07
    pn = CL.pn()
    base = "pending_nodes.PendingFunctionDef.get_result"
    for wrapper in ("list", "chain_call"):
        for ret_used in (False, True):
            def run(c):
                m = Machine(stubs=stubs())
                # (a body is never empty; what its last statement is must not matter to the frame)
                node = ast.FunctionDef(name="f", args=ast.arguments(posonlyargs=[], args=[], kwonlyargs=[], kw_defaults=[], defaults=[]),
                                       body=[CL.src("first-statement", ast.stmt, only=[ast.Pass, ast.Expr, ast.Return, ast.If]),
                                             CL.src("last-statement", ast.stmt, only=[ast.Pass, ast.Expr, ast.Return, ast.If, ast.While])],
                                       decorator_list=[], returns=None, lineno=7, col_offset=0)
                REG = CL.seg("RET", lambda t: [CL.absnode(("R", ("retbody", t)), ("R", tagstr(("retbody", t))))])
                inner = c07.mk_function_nsp(node, flow_ctrl_return_used=ret_used, return_node_bodies=[REG])
                outer = CL.mk_nsp("outer", inner_nsp=[inner])
                self_ = CL.mk_pending(pn.PendingFunctionDef, node, outer, CL.mk_global(expr_wrapper=wrapper), m=m)
                self_.converted_body = R_list("BODY")
                res = m.call_value(pn.PendingFunctionDef.get_result, self_)
                return dict(res=res, inner=inner, REG=REG, self_=self_)
            paths = explore(run)
            nm = f"{base}[{wrapper},{'return-flag' if ret_used else 'no-return-flag'}]"
            if not paths_or_undecided(R, nm + "/paths", paths):
                continue
            for p in paths:
                if p.kind != "ok":
                    R.fail(f"{nm}/no-unexpected-raise", repr(p.value))
                    continue
                c, v = p.ctx, p.value
                sym.set_ctx(c)
                try:
                    inner = v["inner"]
                    res = v["res"]
                    st = res[0].props.get("sem") if len(res) == 1 and isinstance(res[0], Opaque) else None
                    lam = st[3] if st and st[0] == "store" else None
                    R.check(f"{nm}/binds-one-lambda-to-the-function-name-in-the-defining-scope", st is not None and st[1] == "outer" and st[2] == "f"
                            and isinstance(lam, ast.Lambda), repr(res))
                    if not isinstance(lam, ast.Lambda):
                        continue
                    R.check(f"{nm}/lambda-takes-the-converted-parameters", lam.args is v["self_"].converted_args, repr(lam.args))
                    body = lam.body
                    shape = isinstance(body, ast.Subscript) and isinstance(body.value, ast.List) and (
                        (isinstance(body.slice, ast.Constant) and body.slice.value == -1) or
                        (isinstance(body.slice, ast.UnaryOp) and isinstance(body.slice.op, ast.USub) and getattr(body.slice.operand, "value", None) == 1))
                    R.check(f"{nm}/body-is-a-list-whose-last-element-is-the-result", bool(shape), repr(body))
                    if not shape:
                        continue
                    elts = body.value.elts
                    retv_key = TL.nk(inner.fields["return_value_expr"].id)
                    flag_key = ("name", TL.nk(inner.fields["flow_ctrl_return_expr"].id))
                    first = elts[0]
                    ok_first = isinstance(first, ast.NamedExpr) and TL.nk(first.target.id) == retv_key and isinstance(first.value, ast.Constant) and first.value.value is None
                    last = elts[-1]
                    ok_last = isinstance(last, ast.Name) and TL.nk(last.id) == retv_key
                    R.check(f"{nm}/return-slot-is-None-first-and-read-last", ok_first and ok_last, f"first {first!r} last {last!r}",
                            replay=dict(kind="skeleton"))
                    # body statements strictly between, once, in order; flag initialised before them
                    sem = control.Sem(flags={flag_key: z3.BoolVal(True)})
                    sem.seq(list(elts[:-1]))
                    st_times = [t for e, t in zip(sem.execs, sem.execs.times) if e[0] in ("stmt", "stmts")]
                    body_ok = [e[:2] for e in sem.execs if e[0] in ("stmt", "stmts")] == [("stmts", tagstr(v["self_"].converted_body[0].items[0].tag[0][1]))] \
                        if not c13._provably_zero(c, v["self_"].converted_body[0].length) else True
                    R.check(f"{nm}/body-statements-once-in-order-inside-the-lambda", body_ok, repr(sem.execs))
                    if ret_used:
                        w = [(k, val, t) for (k, val, _), t in zip(sem.writes, sem.writes.times) if k == flag_key]
                        init_ok = bool(w) and w[0][1] is False and (not st_times or w[0][2] < min(st_times))
                        R.check(f"{nm}/return-flag-cleared-before-the-body", init_ok, repr(w), backend="z3", replay=dict(kind="skeleton"))
                    lastreg = v["REG"].items[0][-1]
                    semr = control.Sem(flags={flag_key: z3.BoolVal(False)})
                    if not isinstance(lastreg, Opaque):
                        semr.expr(lastreg)
                    R.check(f"{nm}/every-registered-return-body-sets-the-flag-iff-it-is-tested", z3.is_true(z3.simplify(semr.state[flag_key])) == ret_used,
                            f"registered return body ends with {lastreg!r}", backend="z3", replay=dict(kind="skeleton"))
                finally:
                    sym.set_ctx(None)


# ----------------------------------------------------------------------------------------
# the iterator wrapper preset (a closed term)


def g_preset(R, tier):
    from olvc import extract
    pr = extract.repo_module("oneliner.presets.iter_wrapper")
    ri = extract.repo_module("oneliner.reserved_identifiers")
    base = "presets.iter_wrapper.iter_wrapper_body"
    t = pr.iter_wrapper_body
    ok = (isinstance(t, ast.NamedExpr) and t.target.id == ri.OL_ITER_WRAPPER == pr.iter_wrapper_name.id and ri.OL_ITER_WRAPPER.startswith("__ol_")
          and isinstance(t.value, ast.Call) and isinstance(t.value.func, ast.Name) and t.value.func.id == "type" and len(t.value.args) == 3)
    R.check(f"{base}/binds-a-class-to-the-reserved-name", bool(ok), ast.dump(t)[:200], backend="exhaustive-finite")
    if not ok:
        return
    d = t.value.args[2]
    members = {k.value: v for k, v in zip(d.keys, d.values)} if isinstance(d, ast.Dict) else {}
    R.check(f"{base}/defines-the-iterator-protocol", set(members) == {"__init__", "__iter__", "__next__"} and all(isinstance(v, ast.Lambda) for v in members.values()),
            repr(sorted(members)), backend="exhaustive-finite")
    if set(members) != {"__init__", "__iter__", "__next__"}:
        return
    dump = lambda n: ast.dump(n)
    # __iter__ returns self
    it = members["__iter__"]
    R.check(f"{base}/__iter__-returns-self", [a.arg for a in it.args.args] == ["self"] and dump(it.body) == dump(ast.Name("self", ast.Load())), dump(it.body),
            backend="exhaustive-finite")
    # __init__: self.it = iter(it) exactly once; self._break = False; returns None
    ini = members["__init__"]
    src = ast.unparse(ast.fix_missing_locations(ast.Expression(ini.body)))
    calls_iter = sum(1 for n in ast.walk(ini.body) if isinstance(n, ast.Call) and isinstance(n.func, ast.Name) and n.func.id == "iter")
    sets = [(n.args[1].value, dump(n.args[2])) for n in ast.walk(ini.body) if isinstance(n, ast.Call) and isinstance(n.func, ast.Name) and n.func.id == "setattr"
            and dump(n.args[0]) == dump(ast.Name("self", ast.Load()))]
    want_sets = [("it", dump(ast.Call(func=ast.Name("iter", ast.Load()), args=[ast.Name("it", ast.Load())], keywords=[]))), ("_break", dump(ast.Constant(False)))]
    R.check(f"{base}/__init__-takes-iter()-once-and-clears-the-break-flag", [a.arg for a in ini.args.args] == ["self", "it"] and calls_iter == 1 and sets == want_sets,
            src, backend="exhaustive-finite", replay=dict(kind="skeleton"))
    ends_none = isinstance(ini.body, ast.Subscript) and isinstance(ini.body.value, ast.List) and isinstance(ini.body.value.elts[-1], ast.Constant) and ini.body.value.elts[-1].value is None
    R.check(f"{base}/__init__-returns-None", bool(ends_none), src, backend="exhaustive-finite")
    # __next__: broken -> StopIteration WITHOUT touching self.it; otherwise exactly next(self.it)
    nx = members["__next__"]
    b = nx.body
    okn = isinstance(b, ast.IfExp) and dump(b.test) == dump(ast.Attribute(ast.Name("self", ast.Load()), "_break", ast.Load()))
    R.check(f"{base}/__next__-tests-the-break-flag", bool(okn), ast.unparse(ast.fix_missing_locations(ast.Expression(b))), backend="exhaustive-finite")
    if okn:
        touches = [n for n in ast.walk(b.body) if isinstance(n, ast.Attribute) and n.attr == "it"]
        R.check(f"{base}/__next__-never-advances-the-source-iterator-once-broken", not touches, ast.unparse(ast.fix_missing_locations(ast.Expression(b.body))),
                backend="exhaustive-finite", replay=dict(kind="skeleton"))
        stops = dump(b.body) == dump(ast.Call(func=ast.Name("next", ast.Load()), args=[ast.Call(func=ast.Name("iter", ast.Load()), args=[ast.List([], ast.Load())], keywords=[])], keywords=[]))
        R.check(f"{base}/__next__-raises-StopIteration-once-broken", stops, ast.unparse(ast.fix_missing_locations(ast.Expression(b.body))), backend="exhaustive-finite")
        adv = dump(b.orelse) == dump(ast.Call(func=ast.Name("next", ast.Load()), args=[ast.Attribute(ast.Name("self", ast.Load()), "it", ast.Load())], keywords=[]))
        R.check(f"{base}/__next__-advances-the-source-iterator-exactly-once-otherwise", adv, ast.unparse(ast.fix_missing_locations(ast.Expression(b.orelse))),
                backend="exhaustive-finite", replay=dict(kind="skeleton"))

GROUPS = {"iter_branch": g_iter_branch, "iter_branch_steps": g_iter_branch_steps, "iter_nodes": g_iter_nodes, "interrupts": g_interrupts, "while": g_while, "for": g_for, "function_frame": g_function_frame, "preset": g_preset, "if": None, "canary": c13.g_canary}
REPLAY = {}


def _g_if(R, tier):
    from suites import c07
    c07.g_if(R, tier)


GROUPS["if"] = _g_if


def _g_iso(R, tier):
    from suites import c06
    c06.g_namespace_isolation(R, tier)


GROUPS["namespace_isolation"] = _g_iso


# ----------------------------------------------------------------------------------------
# replay: search a bounded space of control-flow skeletons for a program on which the REAL
# converter's output behaves differently (trace of marker / condition / iterator calls)


def _skeletons(depth, in_loop, in_func):
    """statement skeletons as nested tuples"""
    out = [("m",)]
    if in_loop:
        out += [("break",), ("continue",)]
    if in_func:
        out += [("return",), ("returnv",)]
    if depth > 0:
        for body in _blocks(depth - 1, in_loop, in_func):
            out.append(("if", body, None))
            for els in _blocks(depth - 1, in_loop, in_func)[:3]:
                out.append(("if", body, els))
        for body in _blocks(depth - 1, True, in_func):
            out.append(("while", body, None))
            out.append(("for", body, None))
            for els in _blocks(depth - 1, in_loop, in_func)[:2]:
                out.append(("while", body, els))
                out.append(("for", body, els))
    return out


def _blocks(depth, in_loop, in_func):
    st = _skeletons(depth, in_loop, in_func)
    blocks = [[s] for s in st]
    blocks += [[("m",), s] for s in st if s != ("m",)]
    blocks += [[s, ("m",)] for s in st if s != ("m",)]
    blocks += [[("m",), s, ("m",)] for s in st if s[0] in ("if", "while", "for")]
    return blocks


def _render(block, ind, counter):
    lines = []
    pad = "    " * ind
    for s in block:
        k = s[0]
        counter[0] += 1
        n = counter[0]
        if k == "m":
            lines.append(f"{pad}m({n})")
        elif k in ("break", "continue"):
            lines.append(f"{pad}{k}")
        elif k == "return":
            lines.append(f"{pad}return")
        elif k == "returnv":
            lines.append(f"{pad}return m({n})")
        elif k == "if":
            lines.append(f"{pad}if c({n}):")
            lines += _render(s[1], ind + 1, counter)
            if s[2] is not None:
                lines.append(f"{pad}else:")
                lines += _render(s[2], ind + 1, counter)
        elif k == "while":
            lines.append(f"{pad}while c({n}):")
            lines += _render(s[1], ind + 1, counter)
            if s[2] is not None:
                lines.append(f"{pad}else:")
                lines += _render(s[2], ind + 1, counter)
        elif k == "for":
            lines.append(f"{pad}for i{n} in it({n}):")
            lines += _render(s[1], ind + 1, counter)
            if s[2] is not None:
                lines.append(f"{pad}else:")
                lines += _render(s[2], ind + 1, counter)
    return lines


_PRELUDE = '''
trace = []
budget = [60]
def m(n):
    trace.append(('m', n))
    return n
def c(n):
    budget[0] -= 1
    v = budget[0] > 0 and (SCHED >> ((n * 7 + len(trace)) % 29)) & 1 == 1
    trace.append(('c', n, v))
    return v
class It:
    def __init__(self, n):
        self.n = n
        self.k = 0
    def __iter__(self):
        trace.append(('iter', self.n))
        return self
    def __next__(self):
        trace.append(('next', self.n, self.k))
        self.k += 1
        if self.k > 2:
            raise StopIteration
        return self.k
def it(n):
    trace.append(('it', n))
    return It(n)
'''


# deeper shapes than the depth-2 enumeration reaches (function bodies; each is tried under
# the three schedules below): interrupts two blocks deep followed by more statements
DEEP_SKELETONS = [
    # loop-else with a conditional return followed by statements and a final return
    "def f():\n    m(1)\n    for i in it(2):\n        m(3)\n    else:\n        if c(4):\n            m(5)\n            return m(6)\n        m(7)\n        if c(8):\n            return m(9)\n        m(10)\n        return m(11)\n    m(12)\nr = f()\n",
    "def f():\n    while c(1):\n        m(2)\n    else:\n        if c(3):\n            return m(4)\n        m(5)\n        return m(6)\nr = f()\n",
    # loop in a function: if-branch containing an inner if with continue/break, followed by statements
    "def f():\n    for i in it(1):\n        if c(2):\n            if c(3):\n                m(4)\n                continue\n            else:\n                if c(5):\n                    break\n            m(6)\n            m(7)\n        else:\n            if c(8):\n                continue\n            m(9)\n        m(10)\n    return m(11)\nr = f()\n",
    "class K:\n    def f(self):\n        while c(1):\n            if c(2):\n                if c(3):\n                    break\n                m(4)\n            elif c(5):\n                if c(6):\n                    continue\n                m(7)\n            m(8)\n        return m(9)\nr = K().f()\n",
    # an inner loop's else clause that leaves the OUTER loop, followed by more statements of that else clause
    "def f():\n    for i in it(1):\n        for j in it(2):\n            m(3)\n        else:\n            if c(4):\n                break\n            m(5)\n            if c(6):\n                continue\n            m(7)\n        m(8)\n    return m(9)\nr = f()\n",
    "def f():\n    while c(1):\n        while c(2):\n            m(3)\n        else:\n            if c(4):\n                continue\n            m(5)\n        m(6)\nr = f()\n",
    # lone continue / bare return as the whole body of an if that has an else
    "for i in it(1):\n    if c(2):\n        continue\n    else:\n        m(3)\n",
    "def f():\n    if c(1):\n        return\n    else:\n        m(2)\nr = f()\n",
    "def f():\n    for i in it(1):\n        if c(2):\n            continue\n        elif c(3):\n            m(4)\n        else:\n            m(5)\nr = f()\n",
]


def replay_skeleton(rp):
    import itertools
    import random
    from suites import replay_util as RU
    rnd = random.Random(rp.get("seed", 5))
    progs = list(DEEP_SKELETONS)
    for placement in ("module", "function", "method"):
        in_func = placement != "module"
        blocks = _blocks(2, False, in_func)
        rnd.shuffle(blocks)
        for b in blocks[:260]:
            body = _render(b, 1 if placement == "function" else (2 if placement == "method" else 0), [0])
            if placement == "function":
                src = "def f():\n" + "\n".join(body) + "\nr = f()\n"
            elif placement == "method":
                src = "class K:\n    def f(self):\n" + "\n".join(body) + "\nr = K().f()\n"
            else:
                src = "\n".join(body) + "\n"
            progs.append(src)
    tried = 0
    opts = [("ast.unparse", "chain_call", "if_expr"), ("oneliner", "list", "short_circuit")]
    for src in progs:
        for sched in (0x2AAAAAAA, 0x0F0F3355, 0x1B6DB6DB, 0x15555555, 0x3FFFFFFF, 0x12492492):
            tried += 1
            rep = RU.replay_source(src, "same-globals", names=["trace", "r"], opts=opts, prelude=_PRELUDE.replace("SCHED", str(sched)))
            if rep.get("reproduced"):
                rep["program"] = src
                rep["schedule"] = hex(sched)
                rep["skeletons_tried"] = tried
                return rep
    return dict(reproduced=False, skeletons_tried=tried)


REPLAY["skeleton"] = replay_skeleton
REPLAY["src"] = c13.replay_src
REPLAY["srcs"] = c13.replay_srcs

from suites import thorough as _th
GROUPS["thorough:skeletons"] = _th.bounded_from_replay("bounded/control-flow-skeletons-depth-2-x-6-schedules", replay_skeleton)
for _i in range(1, 6):  # further samples of the 19695 depth-2 blocks (different shuffles), in parallel groups
    GROUPS[f"thorough:skeletons:{_i}"] = _th.bounded_from_replay(f"bounded/control-flow-skeletons-depth-2-x-6-schedules/sample-{_i}", replay_skeleton, rp=dict(seed=100 + _i))

# bounded stand-ins for undecided obligations (olvc/oblig.py::main_check)
STANDINS = {"*": [dict(kind="skeleton")]}
