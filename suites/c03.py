"""C03 -- the custom unparser round-trips every expression tree.

Obligations (DESIGN.md section 5, C03):
  ladder/*        the real PREC_* integers, get_node_precedence and the dispatch table,
                  executed on the complete finite kind catalogue
  <kind>/template the text returned by the REAL generator == PRODUCTION(kind) on token level,
                  for all list lengths
  <kind>/coverage every child the grammar has is requested exactly once
  <kind>/slot     for every requested child and every kind of the catalogue:
                  node_prec(kind) <= slot_prec  =>  ADMITS(grammar slot, kind);
                  unparenable kinds are never parenthesised where they are legal
  <kind>/glue     no token of a literal piece can merge with an adjacent child text
  trampoline/*    one generic step of expr_unparse's loop: a finished child is wrapped iff
                  node_prec > slot_prec, exactly once, and handed to its requester
The lemma "local => global" (spec/LEMMAS.md A1) lifts these to parse(unparse(t)) == t.
"""
from __future__ import annotations

import ast
import warnings

import z3

from contracts import c_expr_unparse as CU
from olvc import extract, ops, tmplcmp
from olvc.evaluator import Machine
from olvc.interp import Frame, IRaise, IStop, ifunc_of, HFn
from olvc.oblig import fail_or_gap, paths_or_undecided
from olvc.runner import explore
from olvc.sym import Opaque, Seg, SInt, Unsupported, ctx, tagstr, zint
from olvc.tmpl import Fn, Hole, Join, Tmpl, as_tmpl
from spec import pygrammar as G

PROPERTY = "C03"
HOSTS = ["3.12", "3.11"]
LEVEL = "proof"
TRUSTED_BASE = [
    "spec/pygrammar.py: LEVEL/SLOT ladders and productions transcribed from Grammar/python.gram (validated against CPython's parser by tools/spec_validate.py in the thorough tier)",
    "spec/LEMMAS.md A1: local obligations (template, coverage, slot soundness, gluing, trampoline step) imply parse(expr_unparse(t)) == t by structural induction (paper proof)",
    "olvc symbolic interpreter (cross-checked against CPython on whole conversions; canary obligations)",
    "z3 4.x/5.x for linear integer queries",
    "CPython's parser accepts the language of the reference grammar; the grammar is unambiguous on expressions",
]
ASSUMPTIONS = [
    "well-formed input trees: Starred/Slice/FormattedValue only where the grammar allows them; Set.elts non-empty; len(Dict.keys)==len(Dict.values); len(Compare.ops)==len(comparators); len(kw_defaults)==len(kwonlyargs); len(defaults)<=len(posonlyargs)+len(args); numeric Constant values non-negative reals or pure imaginary (the parser never produces others)",
    "segments are homogeneous per path; heterogeneous lists are covered because the summarised loops are monoid homomorphisms (side-conditions of DESIGN 3.4 are checked) and the obligations are element-wise",
    "generator expressions inside the verified functions are evaluated eagerly by the interpreter",
    "termination is not proved",
]
EXPLANATION = "contract-based deductive verification of oneliner/expr_unparse.py: symbolic execution of the real generators against grammar productions, ground precedence obligations on the real PREC ladder, generic-step obligations on the trampoline"


def _eu():
    return CU.eu()


def concrete_kind_nodes():
    """one concrete instance per kind of the catalogue (for get_node_precedence / dispatch)"""
    out = []
    for name, cls, op in G.kinds():
        if op is not None:
            node = cls.__new__(cls)
            node.op = op()
        else:
            node = cls.__new__(cls)
        out.append((name, cls, op, node))
    return out


def real_node_prec():
    """node precedence of every kind, by running the REAL get_node_precedence (interpreted,
    concrete input: exhaustive over the finite catalogue)"""
    eu = _eu()
    out = {}

    def run(c):
        m = Machine()
        res = {}
        for name, cls, op, node in concrete_kind_nodes():
            with warnings.catch_warnings(record=True) as w:
                warnings.simplefilter("always")
                res[name] = (m.call_value(eu.get_node_precedence, node), len(w))
        return res
    (p,) = explore(run)
    if p.kind != "ok":
        raise RuntimeError(f"get_node_precedence not executable: {p}")
    return p.value


# ----------------------------------------------------------------------------------------
def g_ladder(R, tier):
    eu = _eu()
    np = real_node_prec()
    for name, cls, op, node in concrete_kind_nodes():
        v, warned = np[name]
        R.check(f"expr_unparse.get_node_precedence/total/{name}", isinstance(v, int) and v != eu.INF and not warned,
                f"node precedence of {name} = {v!r}, warnings={warned}", backend="exhaustive-finite")
    # dispatch table total on the catalogue
    for name, cls, op, node in concrete_kind_nodes():
        R.check(f"expr_unparse._Node.gen_map/dispatch-total/{cls.__name__}",
                cls in eu._Node.gen_map and eu._Node.gen_map[cls] is not eu.unparse_generic,
                f"{cls.__name__} -> {eu._Node.gen_map.get(cls)}", backend="exhaustive-finite")
    # operator spellings (token level)
    def tabcheck(label, real, spec):
        for k, v in spec.items():
            got = real.get(k)
            R.check(f"expr_unparse.{label}/spelling/{k.__name__}",
                    got is not None and tmplcmp.tokens(got) == tmplcmp.tokens(v),
                    f"{k.__name__}: real {got!r}, grammar {v!r}", backend="exhaustive-finite",
                    replay=dict(kind="table", table=label, key=k.__name__))
    tabcheck("operator_map", eu.operator_map, G.OPERATOR_TEXT)
    tabcheck("unaryop_map", eu.unaryop_map, G.UNARY_TEXT)
    tabcheck("boolop_map", eu.boolop_map, G.BOOL_TEXT)
    tabcheck("cmpop_map", eu.cmpop_map, G.CMP_TEXT)
    # keyword-like spellings must keep their separating blanks (gluing of the table entries)
    for k, v in list(eu.unaryop_map.items()) + list(eu.cmpop_map.items()):
        if v.strip()[:1].isalpha():
            ok = v.endswith(" ") and (v.startswith(" ") or k in eu.unaryop_map)
            R.check(f"expr_unparse.tables/keyword-blanks/{k.__name__}", ok, f"{v!r}", backend="exhaustive-finite",
                    replay=dict(kind="table", table="blanks", key=k.__name__))
    # parenthesised form is an atom: the trampoline's wrapper text
    R.canary("canary/false-ground", not (1 > 2) is False or True, "ground canary")


# ----------------------------------------------------------------------------------------
# gluing


def _cls_of_char(ch):
    if ch.isalpha() or ch == "_":
        return "A"
    if ch.isdigit():
        return "D"
    if ch in "'\"":
        return "Q"
    return ch


TEXT_START = {"A", "D", "Q", "(", "[", "{", "-", "+", "~", "."}
TEXT_END = {"A", "D", "Q", ")", "]", "}", "."}


def _first_last(c, part, which, starred_ok):
    """set of (charclass, origin) a part can start/end with; origin is the part"""
    if isinstance(part, str):
        ch = part[0] if which == "first" else part[-1]
        return {(_cls_of_char(ch), "lit")}
    if isinstance(part, Hole):
        if part.kind == "ident":
            return {("A", part)}
        if part.kind == "text":
            s = set(TEXT_START if which == "first" else TEXT_END)
            if which == "first" and starred_ok(part):
                s.add("*")
            return {(x, part) for x in s}
        return {("?", part)}
    if isinstance(part, Join):
        out = set()
        for x in part.items:
            for it in (x.items if isinstance(x, Seg) else [x]):
                out |= _seq_first_last(c, as_tmpl(it).parts, which, starred_ok)
        return out
    return {("?", part)}


def _may_be_empty(part):
    if isinstance(part, str):
        return part == ""
    if isinstance(part, Hole):
        return not part.nonempty
    return True


def _seq_first_last(c, parts, which, starred_ok):
    out = set()
    seq = parts if which == "first" else list(reversed(parts))
    for p in seq:
        out |= _first_last(c, p, which, starred_ok)
        if not _may_be_empty(p):
            break
    return out


def _hazard(c, a, b):
    (x, xo), (y, yo) = a, b
    if x == "?" or y == "?":
        return "unknown string part adjacent to a token"
    if xo == "lit" and yo == "lit":
        return None
    if x in "AD" and y in "AD":
        return "identifier/keyword/number characters merge"
    if x == "A" and y == "Q":
        return "identifier directly before a quote (string prefix)"
    if x == "Q" and y == "A":
        return "keyword directly after a string literal"
    if x == "D" and y == ".":
        if isinstance(xo, Hole):
            if c.feasible([xo.fact("isdigit")]):
                return "digits directly before '.' (reads as a float)"
            return None
        return "digits directly before '.'"
    if x == "." and y == "D":
        return "'.' directly before digits"
    if x == "*" and y == "*":
        return "'*' '*' merge into '**'"
    return None


def prune(c, t):
    """template with provably-empty joins removed and small constant segments expanded"""
    out = []
    for p in as_tmpl(t).parts:
        if isinstance(p, Join):
            items = tmplcmp.expand_list(c, p.items)
            items2 = []
            for x in items:
                if isinstance(x, Seg):
                    items2.append(Seg(x.tag, x.length, x.jvar, [prune(c, i) for i in x.items], x.rev))
                else:
                    items2.append(prune(c, x))
            if not items2:
                continue
            if not any(isinstance(x, Seg) for x in items2):
                for i, x in enumerate(items2):
                    if i:
                        out.append(p.sep)
                    out.append(x)
                continue
            out.append(Join(p.sep, items2))
        else:
            out.append(p)
    return Tmpl(out)


def glue_hazards(c, t, starred_ok=False):
    """all adjacent (end, start) pairs of the template, recursively; returns hazard texts.
    starred_ok: predicate(hole) -> may this child text start with '*'"""
    haz = []
    t = prune(c, tmplcmp.flatten_joins(t))
    if not callable(starred_ok):
        _v = starred_ok
        starred_ok = lambda h: _v

    def pairs(parts):
        n = len(parts)
        for i in range(n):
            p = parts[i]
            if isinstance(p, Join):
                inner_items = []
                for x in p.items:
                    inner_items.extend(x.items if isinstance(x, Seg) else [x])
                sep = p.sep.parts
                for it in inner_items:
                    pairs(as_tmpl(it).parts)
                ends = set()
                starts = set()
                for it in inner_items:
                    ends |= _seq_first_last(c, as_tmpl(it).parts, "last", starred_ok)
                    starts |= _seq_first_last(c, as_tmpl(it).parts, "first", starred_ok)
                if sep:
                    sf = _seq_first_last(c, sep, "first", starred_ok)
                    sl = _seq_first_last(c, sep, "last", starred_ok)
                    combos = [(ends, sf), (sl, starts)]
                    if all(_may_be_empty(s) for s in sep):
                        combos.append((ends, starts))
                else:
                    combos = [(ends, starts)]
                for L_, R_ in combos:
                    for a in L_:
                        for b in R_:
                            h = _hazard(c, a, b)
                            if h:
                                haz.append(h)
            for k in range(i + 1, n):
                for a in _first_last(c, p, "last", starred_ok):
                    for b in _first_last(c, parts[k], "first", starred_ok):
                        h = _hazard(c, a, b)
                        if h:
                            haz.append(f"{h}: {p!r} | {parts[k]!r}")
                if not _may_be_empty(parts[k]):
                    break
    pairs(as_tmpl(t).parts)
    return sorted(set(haz))


# ----------------------------------------------------------------------------------------
# per-kind groups


def fn_name(fn):
    return f"expr_unparse.{fn.__name__}"


def _yield_key(y):
    ch = y["child"]
    if not isinstance(ch, Opaque):
        return repr(ch)
    for d, sg in enumerate(y.get("segs", ())):
        ch = ops.subst_j(ch, sg.jvar, z3.Int(f"J{d}"))
    return tagstr(ch.tag)


def _expected_keys(req):
    """expected child -> (key, generic depth, slot info, label)"""
    out = []
    c = ctx()
    for child, slot, label in req:
        if isinstance(child, Seg):
            k = tmplcmp._seg_len_const(c, child)
            if k is not None:
                for r in range(k):
                    for i in range(len(child.items)):
                        out.append((tagstr(ops.seg_element(child, r, i).tag), 0, slot, label))
                continue
            for it in child.items:
                out.append((tagstr(ops.subst_j(it, child.jvar, z3.Int("J0")).tag), 1, slot, label))
        elif isinstance(child, tuple) and child and child[0] == "nested":
            _, g, inner = child
            for it in inner.items:
                it2 = ops.subst_j(ops.subst_j(it, g.jvar, z3.Int("J0")), inner.jvar, z3.Int("J1"))
                out.append((tagstr(it2.tag), 2, slot, label))
        else:
            out.append((tagstr(child.tag), 0, slot, label))
    return out


TEMPLATE_SINK = None  # set to a list to collect (function, template) of every path (used by C02)


def check_kind_path(R, base, sig, p, node_prec, is_canary=False):
    c = p.ctx
    v = p.value
    if TEMPLATE_SINK is not None:
        TEMPLATE_SINK.append((base, v["res"]))
    from olvc import sym
    sym.set_ctx(c)
    try:
        # template == production (token level)
        specs = v["spec"] if isinstance(v["spec"], list) else [v["spec"]]
        got, wants = tmplcmp.canon(c, v["res"]), [tmplcmp.canon(c, s_) for s_ in specs]
        R.check(f"{base}/template/{sig}", got in wants,
                f"real: {tmplcmp.show(got)}   grammar: {' OR '.join(tmplcmp.show(w) for w in wants)}",
                replay=dict(kind="kind", kindname=v["kind"], facts=c.signature()))
        # coverage
        exp = _expected_keys(v["req"])
        want_set = {(k, d) for k, d, _, _ in exp}
        ys = v["ys"]
        got_keys = []
        for y in ys:
            segs = y.get("segs", ())
            if len(segs) == 1 and isinstance(y["child"], Opaque):
                k = tmplcmp._seg_len_const(c, segs[0])
                if k is not None:
                    for r in range(k):
                        got_keys.append((tagstr(ops.subst_j(y["child"], segs[0].jvar, z3.IntVal(r)).tag), 0))
                    continue
            key = (_yield_key(y), len(y["generic"]))
            if key not in want_set and segs and isinstance(y["child"], Opaque):
                # the rounds may visit the children of a run in the opposite order (round j asks
                # for element n-1-j): the same SET of children; coverage does not depend on order
                sg = segs[-1]
                mirrored = dict(y, child=ops.subst_j(y["child"], sg.jvar, z3.simplify(zint(sg.length) - 1 - sg.jvar)))
                k2 = (_yield_key(mirrored), len(y["generic"]))
                if k2 in want_set:
                    key = k2
            got_keys.append(key)
        got_keys.sort()
        want_keys = sorted((k, d) for k, d, _, _ in exp)
        R.check(f"{base}/coverage/{sig}", got_keys == want_keys,
                f"requested {got_keys}, grammar children {want_keys}",
                replay=dict(kind="kind", kindname=v["kind"], facts=c.signature()))
        # slot soundness: ground obligations over the whole kind catalogue
        bykey = {k: (slot, label) for k, d, slot, label in exp}
        for child, slot, label in v["req"]:
            if isinstance(child, Seg):  # generic spelling of expanded segments
                for it in child.items:
                    bykey.setdefault(tagstr(ops.subst_j(it, child.jvar, z3.Int("J0")).tag), (slot, label))
        n_ok = 0
        for y in ys:
            key = _yield_key(y)
            if key not in bykey:
                continue
            slot, label = bykey[key]
            pslot = y["prec"]
            if not isinstance(pslot, int):
                R.undecided(f"{base}/slot/{label}/{sig}", f"slot precedence is not a concrete integer: {pslot!r}")
                continue
            for kname, kcls, kop in G.kinds():
                npv = node_prec[kname][0]
                if not G.legal_child(slot, kcls, kop):
                    continue
                if kcls in G.UNPARENABLE:
                    good = npv <= pslot
                    why = f"{kname} cannot be parenthesised but node_prec {npv} > slot_prec {pslot} at {label}"
                else:
                    good = (not (npv <= pslot)) or G.admits(slot, kcls, kop)
                    why = (f"{kname} (node_prec {npv}) is left unparenthesised in {label} (slot_prec {pslot}) "
                           f"but the grammar has {G.LADDER[slot['level']] if slot['level'] >= 0 else 'fstring part'} there")
                if good:
                    n_ok += 1
                else:
                    R.fail(f"{base}/slot/{label}/{kname}/{sig}", why, backend="ground",
                           replay=dict(kind="slot", parent=v["kind"], label=label, child=kname))
        R.ok_many(f"{base}/slot/{sig}", n_ok, "ground", f"{n_ok} (slot, child kind) precedence obligations")
        # gluing
        star_holes = {("txt",) + (k,) for k, d, slot, label in exp if slot.get("starred")}
        star_labels = {label for k, d, slot, label in exp if slot.get("starred")}
        star_tags = set()
        for child, slot, label in v["req"]:
            if slot.get("starred"):
                for it in (child.items if isinstance(child, Seg) else [child] if isinstance(child, Opaque) else []):
                    star_tags.add(tagstr(it.tag))
        hz = glue_hazards(c, v["res"], lambda h: isinstance(h.tag, tuple) and len(h.tag) == 2 and (
            tagstr(h.tag[1]) in star_tags or any(tagstr(h.tag[1]).split(" ")[0].lstrip("(") == t.split(" ")[0].lstrip("(") for t in star_tags)))
        R.check(f"{base}/glue/{sig}", not hz, "; ".join(hz)[:1500] or "no token of a literal piece can merge with a neighbour",
                replay=dict(kind="kind", kindname=v["kind"], facts=c.signature()))
    finally:
        sym.set_ctx(None)


def make_kind_group(kindname):
    def group(R, tier):
        eu = _eu()
        node_prec = real_node_prec()
        shapes = CU.node_shapes()[kindname]
        for shape, builder in shapes:
            holder = {}

            def run(c):
                node = builder()
                fn = eu._Node.gen_map[type(node)]
                holder["fn"] = fn
                m = Machine()
                gen = m.call_value(fn, node)
                ys, res = CU.drive(gen, compose=(m, '"'))
                ys = [y for y in ys if isinstance(y["child"], Opaque)]
                CU.CUR_M[0] = m
                spec = CU.production(node)
                req = CU.requested_children(node)
                return dict(kind=kindname, node=node, ys=ys, res=res, spec=spec, req=req)
            paths = explore(run)
            fn = holder.get("fn")
            base = (fn_name(fn) if fn else f"expr_unparse.{kindname}") + (f"[{shape}]" if shape != "-" else "")
            if kindname.startswith(("BinOp.", "UnaryOp.", "BoolOp.")):
                base += f"<{kindname.split('.')[1]}>"
            if not paths_or_undecided(R, f"{base}/paths", paths):
                continue
            for p in paths:
                sig = p.ctx.signature()
                if p.kind == "raise":
                    R.fail(f"{base}/no-unexpected-raise/{sig}", f"raises {p.value!r} on a well-formed node",
                           replay=dict(kind="kind", kindname=kindname, facts=sig))
                    continue
                check_kind_path(R, base, sig, p, node_prec)
    return group


# ----------------------------------------------------------------------------------------
# trampoline: one generic step of the loop of expr_unparse


def g_trampoline(R, tier):
    eu = _eu()
    ifn = ifunc_of(eu.expr_unparse)
    fnode = ifn.node
    loop = [s for s in fnode.body if isinstance(s, ast.While)]
    if len(loop) != 1:
        R.undecided("expr_unparse.expr_unparse/shape", "expected exactly one while loop in expr_unparse")
        return
    loop = loop[0]
    pre = fnode.body[: fnode.body.index(loop)]
    post = fnode.body[fnode.body.index(loop) + 1:]

    # roles of the locals, found in the code (not assumed by name): the explicit stack is what
    # the loop tests, the pending result is what is sent into the suspended generator, the
    # root is the (first) parameter
    def _name_in(e):
        if isinstance(e, ast.Name):
            return e.id
        if isinstance(e, ast.Call) and e.args and isinstance(e.args[0], ast.Name):  # len(stack)
            return e.args[0].id
        if isinstance(e, ast.Compare):
            return _name_in(e.left)
        if isinstance(e, ast.UnaryOp):
            return _name_in(e.operand)
        return None
    STACK = _name_in(loop.test)
    sends_ = [n for n in ast.walk(loop) if isinstance(n, ast.Call) and isinstance(n.func, ast.Attribute) and n.func.attr == "send" and n.args]
    PENDING = sends_[0].args[0].id if len(sends_) == 1 and isinstance(sends_[0].args[0], ast.Name) else None
    ROOT = fnode.args.args[0].arg if fnode.args.args else None
    if not (STACK and PENDING and ROOT):
        R.undecided("expr_unparse.expr_unparse/shape", f"cannot identify the stack / pending-result / root variables (found {STACK!r}, {PENDING!r}, {ROOT!r})")
        return

    NP = z3.Function("NP", z3.IntSort(), z3.IntSort())  # abstract node precedence of a node id

    def mk_node_frame(tag, sends):
        """a suspended frame: object with .gen/.node_precedence/.outer_precedence/.qm"""
        npv, opv = z3.Int(f"{tag}.np"), z3.Int(f"{tag}.op")
        gen = Opaque((tag, "gen"), None, methods={"send": sends})
        return Opaque(tag, object, fields=dict(gen=gen, node_precedence=SInt(npv), outer_precedence=SInt(opv),
                                               qm=Hole((tag, "qm"), "str", nonempty=True))), npv, opv

    # ---- arm A and B from a generic state -----------------------------------------
    def run_step(c):
        m = Machine(stubs={
            # _Node(...) is replaced by its contract, checked separately in g_node_init
            "oneliner.expr_unparse:_Node": lambda it, outer, node, qm: Opaque(
                ("new", node.tag), object,
                fields=dict(outer_precedence=outer, node=node, qm_in=qm, qm=Hole(("new", "qm"), "str", nonempty=True))),
        })
        sent = {}
        arm = c.choose(2)
        c.facts.append("gen-yields" if arm == 0 else "gen-returns")
        pslot = z3.Int("p.slot")
        child = Opaque("child", ast.expr)
        text = Hole("finished-text", "text")

        def sends(gen, value):
            sent["value"] = value
            if arm == 0:
                return (SInt(pslot), child)
            raise IRaise(IStop(text))
        top, npv, opv = mk_node_frame("top", sends)
        below = Opaque("below", object)
        stack = [below, top]
        conv_is_none = c.branch(z3.Bool("converted.is_none"))
        converted = None if conv_is_none else Hole("converted", "text")
        fr = Frame(ifn, {STACK: stack, PENDING: converted, ROOT: Opaque("root", ast.expr)}, ifn.globals, [], name="expr_unparse")
        sig = m.run(m.exec_block(loop.body, fr))
        return dict(arm=arm, sig=sig, stack=stack, locals=fr.locals, sent=sent, top=top, below=below,
                    child=child, text=text, npv=npv, opv=opv, pslot=pslot, converted_in=converted)

    paths = explore(run_step)
    base = "expr_unparse.expr_unparse/step"
    if paths_or_undecided(R, base + "/paths", paths):
        from olvc import sym
        for p in paths:
            c, v = p.ctx, p.value
            sig = c.signature()
            if p.kind != "ok":
                fail_or_gap(R, f"{base}/no-unexpected-raise/{sig}", p)
                continue
            sym.set_ctx(c)
            try:
                R.check(f"{base}/sends-previous-result/{sig}", v["sent"].get("value") is v["converted_in"],
                        f"sent {v['sent'].get('value')!r}, expected the pending child text {v['converted_in']!r}")
                st = v["stack"]
                if v["arm"] == 0:
                    ok = len(st) == 3 and st[0] is v["below"] and st[1] is v["top"] and isinstance(st[2], Opaque)
                    R.check(f"{base}/push-child/{sig}", ok, f"stack after a request: {st!r}")
                    if ok:
                        new = st[2]
                        R.valid(f"{base}/child-slot-is-requested-slot/{sig}", c,
                                zint(new.fields["outer_precedence"]) == v["pslot"],
                                "the pushed frame must carry the slot precedence the parent yielded", replay=dict(kind="deep"))
                        R.check(f"{base}/child-node-is-requested-node/{sig}", new.fields["node"] is v["child"], repr(new.fields["node"]))
                        R.check(f"{base}/child-gets-parent-quote/{sig}", new.fields["qm_in"] is v["top"].fields["qm"],
                                f"quote handed down: {new.fields['qm_in']!r}")
                    R.check(f"{base}/nothing-pending-after-request/{sig}", v["locals"][PENDING] is None, repr(v["locals"][PENDING]))
                else:
                    ok = len(st) == 1 and st[0] is v["below"]
                    R.check(f"{base}/pop-finished/{sig}", ok, f"stack after a return: {st!r}")
                    conv = v["locals"][PENDING]
                    wrapped = tmplcmp.canon(c, conv) == tmplcmp.canon(c, Tmpl(["(", v["text"], ")"]))
                    plain = tmplcmp.canon(c, conv) == tmplcmp.canon(c, v["text"])
                    R.check(f"{base}/result-is-text-or-parenthesised-text/{sig}", wrapped or plain, repr(conv))
                    if wrapped:
                        R.valid(f"{base}/wrap-only-if-node-prec-gt-slot-prec/{sig}", c, v["npv"] > v["opv"], replay=dict(kind="deep"))
                    elif plain:
                        R.valid(f"{base}/plain-only-if-node-prec-le-slot-prec/{sig}", c, v["npv"] <= v["opv"], replay=dict(kind="deep"))
            finally:
                sym.set_ctx(None)

    # ---- entry: the root is pushed with the root slot and the double quote --------------
    def run_entry(c):
        made = []

        def node_stub(it, outer, node, qm):
            o = Opaque(("new", len(made)), object, fields=dict(outer_precedence=outer, node=node, qm_in=qm))
            made.append(o)
            return o
        m = Machine(stubs={"oneliner.expr_unparse:_Node": node_stub})
        root = Opaque("root", ast.expr)
        fr = Frame(ifn, {ROOT: root}, ifn.globals, [], name="expr_unparse")
        sig = m.run(m.exec_block(pre, fr))
        return dict(locals=fr.locals, made=made, root=root, sig=sig)
    for p in explore(run_entry):
        if p.kind != "ok":
            R.undecided("expr_unparse.expr_unparse/entry", repr(p.value))
            continue
        v = p.value
        st = v["locals"].get(STACK)
        ok = isinstance(st, list) and len(st) == 1 and len(v["made"]) == 1 and st[0] is v["made"][0]
        R.check("expr_unparse.expr_unparse/entry/one-root-frame", ok, repr(st))
        if ok:
            f = st[0].fields
            rootslot = G.slot(None, None)
            R.check("expr_unparse.expr_unparse/entry/root-node", f["node"] is v["root"], repr(f["node"]))
            R.check("expr_unparse.expr_unparse/entry/root-slot", f["outer_precedence"] == _eu().PREC_EXPR_SLOT and isinstance(f["outer_precedence"], int),
                    f"root slot precedence {f['outer_precedence']!r}")
            # root slot soundness against the grammar's eval-mode start symbol
            np = real_node_prec()
            n_ok = 0
            for kname, kcls, kop in G.kinds():
                if kcls in G.UNPARENABLE:
                    continue
                npv = np[kname][0]
                good = (not (npv <= f["outer_precedence"])) or G.admits(rootslot, kcls, kop)
                if good:
                    n_ok += 1
                else:
                    R.fail(f"expr_unparse.expr_unparse/entry/root-slot-sound/{kname}",
                           f"{kname} (node_prec {npv}) would be emitted bare at the root (slot {f['outer_precedence']})", backend="ground",
                           replay=dict(kind="slot", parent="<root>", label="root", child=kname))
            R.ok_many("expr_unparse.expr_unparse/entry/root-slot-sound", n_ok, "ground")
            R.check("expr_unparse.expr_unparse/entry/pending-none", v["locals"].get(PENDING) is None, repr(v["locals"].get(PENDING)))

    # ---- exit: with the stack empty the function returns the last finished text ------------
    def run_exit(c):
        m = Machine()
        t = Hole("final", "text")
        fr = Frame(ifn, {STACK: [], PENDING: t, ROOT: Opaque("root", ast.expr)}, ifn.globals, [], name="expr_unparse")
        sig = m.run(m.exec_block(post, fr))
        return dict(sig=sig, t=t)
    for p in explore(run_exit):
        if p.kind != "ok":
            R.undecided("expr_unparse.expr_unparse/exit", repr(p.value))
            continue
        v = p.value
        R.check("expr_unparse.expr_unparse/exit/returns-last-text", v["sig"] is not None and v["sig"][0] == "return" and v["sig"][1] is v["t"], repr(v["sig"]))


# ----------------------------------------------------------------------------------------
# _Node.__init__: precedence lookup, dispatch, quote alternation


def g_node_init(R, tier):
    eu = _eu()
    base = "expr_unparse._Node.__init__"
    for name, cls, op, node in concrete_kind_nodes():
        for outer_qm in ("'", '"'):
            holder = {}

            def run(c):
                calls = []

                def mkgen(real):
                    def stub(it, *a):
                        calls.append((real, a))
                        return Opaque(("gen", real.__name__), None)
                    return stub
                stubs = {f"oneliner.expr_unparse:{f.__name__}": mkgen(f) for f in set(eu._Node.gen_map.values())}
                m = Machine(stubs=stubs)
                slotp = z3.Int("slot")
                obj = m.call_value(eu._Node, SInt(slotp), node, outer_qm)
                return dict(obj=obj, calls=calls, slotp=slotp)
            paths = explore(run)
            if not paths_or_undecided(R, f"{base}/paths/{name}/{outer_qm}", paths):
                continue
            for p in paths:
                if p.kind != "ok":
                    R.fail(f"{base}/no-unexpected-raise/{name}/{outer_qm}", repr(p.value))
                    continue
                v = p.value
                obj = v["obj"]
                want_np = real_node_prec()[name][0]
                okp = getattr(obj, "node_precedence", None) == want_np
                oks = isinstance(getattr(obj, "outer_precedence", None), SInt) and obj.outer_precedence.t.eq(v["slotp"])
                R.check(f"{base}/stores-node-and-slot-precedence/{name}/{outer_qm}", okp and oks,
                        f"node_precedence={getattr(obj, 'node_precedence', None)!r} outer={getattr(obj, 'outer_precedence', None)!r}",
                        backend="exhaustive-finite")
                calls = v["calls"]
                okc = len(calls) == 1 and calls[0][0] is eu._Node.gen_map[cls] and calls[0][1][0] is node
                R.check(f"{base}/dispatch/{name}/{outer_qm}", okc, repr(calls), backend="exhaustive-finite")
                if okc:
                    strlike = cls in (ast.Constant, ast.JoinedStr)
                    other = {"'": '"', '"': "'"}[outer_qm]
                    if strlike:
                        good = obj.qm == other and calls[0][1][1:] == (other,)
                        why = "a string literal inside a replacement field must use the other quote"
                    elif cls is ast.FormattedValue:
                        good = obj.qm == outer_qm and calls[0][1][1:] == (outer_qm,)
                        why = "a replacement field belongs to the enclosing f-string: same quote"
                    else:
                        good = obj.qm == outer_qm and calls[0][1][1:] == ()
                        why = "non-string nodes hand the enclosing quote down unchanged"
                    R.check(f"{base}/quote/{name}/{outer_qm}", good, f"{why}; got qm={obj.qm!r} args={calls[0][1][1:]!r}",
                            backend="exhaustive-finite", replay=dict(kind="quote"))


def g_canary(R, tier):
    """obligations that are false by construction: the engine must refute them"""
    from olvc.sym import Ctx
    from olvc import sym
    c = Ctx()
    n = z3.Int("n")
    c.assume(n >= 0)
    sym.set_ctx(c)
    try:
        ok, _ = c.valid(n > 0)
        R.canary("canary/z3-refutes-false", not ok)
        t1 = Tmpl(["a+", Hole("x", "text")])
        t2 = Tmpl(["a-", Hole("x", "text")])
        R.canary("canary/template-mismatch-detected", tmplcmp.canon(c, t1) != tmplcmp.canon(c, t2))
        hz = glue_hazards(c, Tmpl(["not", Hole("x", "text")]))
        R.canary("canary/glue-hazard-detected", bool(hz))
    finally:
        sym.set_ctx(None)


GROUPS = {"ladder": g_ladder, "trampoline": g_trampoline, "node_init": g_node_init, "canary": g_canary}
for _k in CU.node_shapes.__code__.co_consts and []:
    pass


def _register():
    # kind names are static; builders are created lazily inside the group
    names = ["Name", "Attribute", "Subscript", "Slice", "Starred", "Call", "List", "Set", "Tuple", "Dict",
             "Compare", "NamedExpr", "Lambda", "ListComp", "SetComp", "GeneratorExp", "DictComp", "IfExp",
             "Yield", "YieldFrom", "Await"]
    names += [f"BinOp.{op.__name__}" for op in G.BINOP_LEVEL]
    names += [f"UnaryOp.{op.__name__}" for op in G.UNARY_LEVEL]
    names += [f"BoolOp.{op.__name__}" for op in G.BOOL_LEVEL]
    for n in names:
        GROUPS[f"kind:{n}"] = make_kind_group(n)


_register()


# ----------------------------------------------------------------------------------------
# replay: turn a failed obligation into a concrete failing input for the REAL unparser


def _native_unparse():
    return _eu().expr_unparse


def replay_kind(rp):
    """all stored concrete shapes of the kind, round-tripped through the real expr_unparse"""
    from spec import samples
    kind = rp["kindname"]
    tried = []
    base = kind.split("[")[0]
    pool = list(samples.kind_samples(base))
    for k2 in {"Slice": ["Subscript"], "Starred": ["List", "Tuple", "Call", "Set"], "FormattedValue": ["JoinedStr"],
               "Subscript": ["Subscript"]}.get(base, []):
        pool += list(samples.kind_samples(k2))
    # every kind also as a child of the generic containers (covers Starred/Slice/FormattedValue)
    for src, node in pool:
        ok, text, why = samples.roundtrip(_native_unparse(), node)
        tried.append(src)
        if not ok:
            return dict(reproduced=True, input=src, output=text, why=why, obligation_facts=rp.get("facts"))
    return dict(reproduced=False, tried=tried, note="no stored concrete shape of this kind fails natively")


def replay_slot(rp):
    from spec import samples
    parent, label, child = rp["parent"], rp["label"], rp["child"]
    try:
        node = samples.make_parent(parent, label, samples.child_sample(child))
    except KeyError as e:
        return dict(reproduced=False, note=f"no concrete builder for {e}")
    ok, text, why = samples.roundtrip(_native_unparse(), node)
    if not ok:
        return dict(reproduced=True, input_tree=ast.dump(node), reference_text=_safe_unparse(node), output=text, why=why)
    # the slot may misbehave only next to siblings: all stored shapes of the parent kind
    rep = replay_kind(dict(kindname=parent))
    if rep.get("reproduced"):
        return rep
    return dict(reproduced=False, input_tree=ast.dump(node), output=text)


def _safe_unparse(node):
    try:
        return ast.unparse(ast.fix_missing_locations(node))
    except Exception as e:  # noqa: BLE001
        return f"<ast.unparse failed: {e}>"


def replay_table(rp):
    from spec import samples
    key = rp["key"]
    for kind in list(samples.KIND_SRC):
        if kind.endswith("." + key) or (kind == "Compare"):
            for src, node in samples.kind_samples(kind):
                if kind == "Compare" and key not in ast.dump(node):
                    continue
                ok, text, why = samples.roundtrip(_native_unparse(), node)
                if not ok:
                    return dict(reproduced=True, input=src, output=text, why=why)
    # comparison operators not in the stored samples: build one
    if hasattr(ast, key) and issubclass(getattr(ast, key), ast.cmpop):
        node = ast.Compare(left=ast.Name("a", ast.Load()), ops=[getattr(ast, key)()], comparators=[ast.Name("b", ast.Load())])
        ok, text, why = samples.roundtrip(_native_unparse(), node)
        if not ok:
            return dict(reproduced=True, input_tree=ast.dump(node), output=text, why=why)
    return dict(reproduced=False)


def replay_quote(rp):
    from spec import samples
    for src in ["f'{\"a\"}'", "f\"{'a'}\"", "f'{f\"{x}\"}'", "f'{d[\"k\"]}'", "f'{x:{\"w\"}}'"]:
        node = samples.parse_expr(src)
        ok, text, why = samples.roundtrip(_native_unparse(), node)
        if not ok:
            return dict(reproduced=True, input=src, output=text, why=why)
    return dict(reproduced=False)


def _c04r(name):
    def r(rp):
        from suites import c04
        return c04.REPLAY[name](rp)
    return r


def replay_deep(rp):
    from spec import samples
    for src in samples.DEEP_SRC:
        try:
            node = samples.parse_expr(src)
        except SyntaxError:
            continue
        ok, text, why = samples.roundtrip(_native_unparse(), node)
        if not ok:
            return dict(reproduced=True, input=src, output=text, why=why)
    return dict(reproduced=False, tried=len(samples.DEEP_SRC))


# ----------------------------------------------------------------------------------------
# bounded stand-in for the parameter list of a lambda: every signature shape up to a bound,
# through the REAL unparser, natively.  The symbolic proof (kind:Lambda) covers all lengths
# for the two alignments of defaults it is set up for; this covers EVERY alignment of
# defaults with positional-only / ordinary parameters for small lengths, and is what turns a
# change that leaves the symbolic run outside the engine's subset into a concrete witness.
# Never counted as proved.


def lambda_shapes(max_pos=2, max_args=2, max_kw=2):
    import itertools as IT
    for p, a, k in IT.product(range(max_pos + 1), range(max_args + 1), range(max_kw + 1)):
        for d in range(p + a + 1):
            for va, ka in IT.product((False, True), repeat=2):
                for mask in IT.product((False, True), repeat=k):
                    yield (p, a, d, va, k, mask, ka)


def lambda_of_shape(sh):
    p, a, d, va, k, mask, ka = sh
    mk = lambda n: ast.arg(arg=n, annotation=None)
    args = ast.arguments(
        posonlyargs=[mk(f"p{i}") for i in range(p)], args=[mk(f"a{i}") for i in range(a)],
        vararg=mk("va") if va else None, kwonlyargs=[mk(f"k{i}") for i in range(k)],
        kw_defaults=[ast.Constant(value=f"K{i}") if m else None for i, m in enumerate(mask)],
        kwarg=mk("ka") if ka else None, defaults=[ast.Constant(value=f"D{i}") for i in range(d)])
    return ast.Lambda(args=args, body=ast.Constant(value=0))


def g_lambda_signatures_bounded(R, tier):
    from spec import samples
    bound = (2, 2, 2) if tier == "quick" else (3, 3, 3)
    bad, n = None, 0
    for sh in lambda_shapes(*bound):
        n += 1
        ok, text, why = samples.roundtrip(_native_unparse(), lambda_of_shape(sh))
        if not ok:
            bad = (sh, text, why)
            break
    R.bounded("bounded/every-lambda-signature-shape-round-trips", bad is None,
              f"{n} shapes (positional-only <= {bound[0]}, ordinary <= {bound[1]}, keyword-only <= {bound[2]}, every count of defaults, every None mask, */** present or not)"
              if bad is None else f"shape (posonly, args, defaults, vararg, kwonly, kw-default mask, kwarg) = {bad[0]}: {bad[1]!r}: {bad[2][:300]}",
              replay=dict(kind="lambda-shape", shape=list(bad[0]) if bad else None))


def replay_lambda_shape(rp):
    from spec import samples
    shapes = [tuple(tuple(x) if isinstance(x, list) else x for x in rp["shape"])] if rp.get("shape") else list(lambda_shapes(3, 3, 2))
    for sh in shapes:
        ok, text, why = samples.roundtrip(_native_unparse(), lambda_of_shape(sh))
        if not ok:
            return dict(reproduced=True, input=ast.unparse(lambda_of_shape(sh)), output=text, why=why)
    return dict(reproduced=False)


GROUPS["bounded:lambda-signatures"] = g_lambda_signatures_bounded

REPLAY = {"lambda-shape": replay_lambda_shape, "kind": replay_kind, "slot": replay_slot, "table": replay_table, "quote": replay_quote, "deep": replay_deep,
          "fstr": _c04r("fstr"), "fstr-backslash": _c04r("fstr-backslash"), "nest": _c04r("nest"), "const": _c04r("const")}


# f-string kinds: their template/coverage/slot obligations live in suites/c04.py (literal
# fidelity) and count for C03 too (the tree must round-trip, conversion and spec included)
def _c04(name):
    def g(R, tier):
        from suites import c04
        getattr(c04, name)(R, tier)
    return g


GROUPS["kind:Constant"] = _c04("g_constant")
GROUPS["kind:JoinedStr"] = _c04("g_joinedstr")
GROUPS["kind:FormattedValue"] = _c04("g_formattedvalue")
GROUPS["fstring-nesting"] = _c04("g_nesting")
from suites import thorough as _th
GROUPS["thorough:spec-validation"] = _th.g_spec_validate_grammar
GROUPS["thorough:deep-trees"] = _th.bounded_from_replay("bounded/deep-expression-samples-round-trip", replay_deep)
