"""C17 -- long and deeply nested programs convert without exhausting recursion.

  depth/*       nesting-depth postcondition on every tree emitted in the symbolic runs of the
                real lowering functions: depth(out) <= max depth(children) + c_f with c_f a
                constant -- in particular independent of every list length.  A tree whose
                depth grows with a list length (a fold) fails, with the length named.
  guards/*      nesting added by _iter_branch: one level per statement that may interrupt
  recursion/*   call graph of the package: the only recursive cycles descend on pattern
                nesting (bounded by CPython's own 200-parenthesis limit); conversion,
                expression rewriting and unparsing are explicit-stack trampolines (their
                step obligations: C01, C03, C06)
  sizes/*       BOUNDED stand-in (thorough tier: larger): program families by length N,
                converted and compiled natively
"""
from __future__ import annotations

import ast
import importlib
import os
import sys

import z3

from olvc import extract, machine
from olvc.oblig import Results
from olvc.sym import Fold, Opaque, Seg, tagstr
from olvc.tmpl import Hole
from suites import c09, c13

PROPERTY = "C17"
HOSTS = ["3.12"]
LEVEL = "proof"
TRUSTED_BASE = ["CPython's own limits taken as constants (200 nested parentheses, ~1000 Python frames; ast.unparse and compile recurse on expression depth)",
                "assumed: ast.unparse recursion depth is linear in the depth of the tree",
                "the symbolic runs of the lowering suites cover every function that builds output (as in C09)"]
ASSUMPTIONS = ["termination of the trampolines is not proved"]
EXPLANATION = "depth postcondition on every emitted tree (independence of list lengths), recursion cycles of the package call graph"
BOUNDED = ["program families by length N (consecutive statements, elif chains, chained operators/calls, nested blocks/defs) converted and compiled natively: quick N<=64, thorough N up to 4096"]


def depth(x, seen_fold=None):
    """(constant depth, set of length names the depth grows with)"""
    if isinstance(x, Opaque):
        sem = x.props.get("sem")
        if sem and sem[0] in ("store", "seq", "assign", "Tbuilt"):
            d, lin = 0, set()
            for part in sem[1:]:
                if not isinstance(part, (str, Hole)):
                    dd, ll = depth(part)
                    d, lin = max(d, dd), lin | ll
            return d + 1, lin
        return 1, set()
    if isinstance(x, Seg):
        d, lin = 0, set()
        for i in x.items:
            dd, ll = depth(i)
            d, lin = max(d, dd), lin | ll
        return d, lin
    if isinstance(x, Fold):
        di, li = depth(x.init)
        ds, ls = depth(x.step)
        return di + ds, li | ls | {str(z3.simplify(x.length.t)) if hasattr(x.length, "t") else str(x.length)}
    if isinstance(x, (list, tuple)):
        d, lin = 0, set()
        for i in x:
            dd, ll = depth(i)
            d, lin = max(d, dd), lin | ll
        return d, lin
    if isinstance(x, ast.AST):
        d, lin = 0, set()
        for f in x._fields:
            dd, ll = depth(getattr(x, f, None))
            d, lin = max(d, dd), lin | ll
        return d + 1, lin
    return 0, set()


def g_depth(R, tier):
    machine.EMITTED = []
    try:
        for modname, groups in c09.EMITTERS.items():
            mod = importlib.import_module(modname)
            for g in groups:
                sub = Results("C17", f"run:{modname}.{g}")
                try:
                    mod.GROUPS[g](sub, tier)
                except BaseException as e:  # noqa: BLE001
                    R.undecided(f"emitters/{modname}.{g}", f"group crashed: {e!r}")
        emitted = list(machine.EMITTED)
    finally:
        machine.EMITTED = None
    per = {}
    for fn, res, c in emitted:
        if not any(k in fn for k in ("get_result", "wrapper", "get_assign", "get_load_name", "convert_slice", "assign_")):
            continue
        d, lin = depth(res)
        dd, ll = per.get(fn, (0, set()))
        per[fn] = (max(d, dd), ll | lin)
    R.check("coverage/emitting-functions-scanned", len(per) >= 15, f"{len(per)} functions")
    for fn in sorted(per):
        d, lin = per[fn]
        R.check(f"{fn}/output-depth-is-independent-of-list-lengths", not lin,
                f"depth = {d} + children" + (f" + one level per element of: {sorted(lin)}" if lin else ""), backend="structural",
                replay=dict(kind="size", family="statements" if "chain_call" in fn else "decorators"))


def g_guards(R, tier):
    """guard nesting of _iter_branch grows with the number of may-interrupt statements"""
    from suites import c05
    machine.EMITTED = []
    sink = []
    orig = c05.check_block

    def spy(R_, nm, sig, p, toks, dkind):
        sink.append((tuple(toks), p.value["converted"]))
        return orig(R_, nm, sig, p, toks, dkind)
    c05.check_block = spy
    try:
        c05.g_iter_branch(Results("C17", "run:c05.iter_branch"), tier)
    finally:
        c05.check_block = orig
        machine.EMITTED = None
    by = {}
    for toks, conv in sink:
        n_m = sum(1 for t in toks if t.startswith("M"))
        d, _ = depth(conv)
        by[n_m] = max(by.get(n_m, 0), d)
    grows = len(by) >= 3 and by.get(2, 0) > by.get(1, 0) > by.get(0, 0)
    R.check("pending_nodes._PendingCompoundStmt._iter_branch/guard-nesting-is-bounded-independently-of-the-block-length", not grows,
            f"depth of a converted block with 0/1/2 statements that may interrupt: {by}: one more nesting level per such statement (and the generic fold step of the "
            "second loop, C05 iter_branch_steps, nests every group into the previous one)", replay=dict(kind="size", family="interrupting-ifs"))


def call_graph():
    """function -> set of package functions it may call (by simple name / self.method)"""
    graph = {}
    defs = {}
    pkg = os.path.join(extract.REPO, "oneliner")
    for root, _, files in os.walk(pkg):
        for f in files:
            if not f.endswith(".py"):
                continue
            tree = ast.parse(open(os.path.join(root, f), encoding="utf8").read())
            for node in ast.walk(tree):
                if isinstance(node, (ast.FunctionDef, ast.AsyncFunctionDef)):
                    defs.setdefault(node.name, []).append(node)
    for name, nodes in defs.items():
        callees = set()
        for node in nodes:
            for n in ast.walk(node):
                if isinstance(n, ast.Call):
                    f = n.func
                    if isinstance(f, ast.Name) and f.id in defs:
                        callees.add(f.id)
                    elif isinstance(f, ast.Attribute) and f.attr in defs and isinstance(f.value, ast.Name) and f.value.id in ("self", "utils"):
                        callees.add(f.attr)
        graph[name] = callees
    return graph


def g_recursion(R, tier):
    g = call_graph()
    # functions on a cycle
    def reach(a):
        seen, todo = set(), list(g.get(a, ()))
        while todo:
            x = todo.pop()
            if x in seen:
                continue
            seen.add(x)
            todo.extend(g.get(x, ()))
        return seen
    cyc = sorted(n for n in g if n in reach(n))
    allowed = {"assign_auto", "assign_tuple_list", "get_comp_target_names"}
    # constructors / generic protocol names that recur by NAME only (different classes)
    by_name_only = {"__init__", "get_result", "_iter_nodes", "_iter_fields"}
    real = [n for n in cyc if n not in by_name_only]
    R.check("package/recursive-cycles-descend-on-pattern-nesting-only", set(real) <= allowed, f"functions on a call cycle: {real}; allowed (pattern nesting, <= 200 levels x 2 frames): {sorted(allowed)}",
            backend="structural", replay=dict(kind="size", family="nested-targets"))
    R.check("package/trampolines-are-loops", all(n not in real for n in ("convert", "cvt", "expr_unparse", "generate_nsp")), repr(real), backend="structural")


def size_guards():
    """raise/assert statements of the package that sit under a condition testing a length or a
    depth against an upper bound: [(file, function, condition text)]"""
    pkg = os.path.join(extract.REPO, "oneliner")
    out = []

    def measures_size(e):
        return any(isinstance(n, ast.Call) and isinstance(n.func, ast.Name) and n.func.id in ("len", "getrecursionlimit", "getsizeof")
                   or isinstance(n, ast.Call) and isinstance(n.func, ast.Attribute) and n.func.attr in ("getrecursionlimit", "__len__", "bit_length")
                   or isinstance(n, (ast.Name, ast.Attribute)) and "depth" in (n.id if isinstance(n, ast.Name) else n.attr).lower()
                   for n in ast.walk(e))

    def small(e):
        return isinstance(e, ast.Constant) and isinstance(e.value, int) and abs(e.value) <= 2

    def upper_bound_test(test):
        for c in ast.walk(test):
            if isinstance(c, ast.Compare):
                terms = [c.left] + list(c.comparators)
                for op, a, b in zip(c.ops, terms, terms[1:]):
                    if isinstance(op, (ast.Gt, ast.GtE)) and measures_size(a) and not small(b):
                        return True
                    if isinstance(op, (ast.Lt, ast.LtE)) and measures_size(b) and not small(a):
                        return True
        return False

    def walk(node, guards, fn, f):
        for ch in ast.iter_child_nodes(node):
            if isinstance(ch, (ast.FunctionDef, ast.AsyncFunctionDef)):
                walk(ch, [], ch.name, f)
            elif isinstance(ch, (ast.If, ast.While)):
                for part, g in ((ch.body, guards + [ch.test]), (ch.orelse, guards + [ch.test])):
                    for st in part:
                        walk(ast.Module(body=[st], type_ignores=[]), g, fn, f)
            elif isinstance(ch, ast.Raise):
                for g in guards:
                    if upper_bound_test(g):
                        out.append((f, fn, ast.unparse(g)[:120]))
            elif isinstance(ch, ast.Assert):
                if upper_bound_test(ast.UnaryOp(op=ast.Not(), operand=ch.test)) or any(
                        isinstance(c, ast.Compare) and any(isinstance(op, (ast.Lt, ast.LtE)) for op in c.ops) and measures_size(c.left) and not all(small(x) for x in c.comparators)
                        for c in ast.walk(ch.test)):
                    out.append((f, fn, "assert " + ast.unparse(ch.test)[:110]))
            else:
                walk(ch, guards, fn, f)
    for root, _, files in os.walk(pkg):
        for f in sorted(files):
            if f.endswith(".py"):
                walk(ast.parse(open(os.path.join(root, f), encoding="utf8").read()), [], "<module>", f)
    return out


def g_size_guards(R, tier):
    """C17: no size that the interpreter accepts is refused: the package contains no refusal that
    is conditioned on a length or nesting depth exceeding a bound (the trampolines are loops, so
    nothing needs one)"""
    found = size_guards()
    R.check("package/no-refusal-conditioned-on-a-length-or-depth-bound", not found, f"raise/assert under a size bound: {found}", backend="structural",
            replay=dict(kind="size-own"))


FAMILIES = {
    "statements": lambda n: "".join(f"a{i} = {i}\n" for i in range(n)),
    "elif": lambda n: "x = 5\nif x == 0:\n    r = 0\n" + "".join(f"elif x == {i}:\n    r = {i}\n" for i in range(1, n)) + "else:\n    r = -1\n",
    "binop": lambda n: "r = " + " + ".join(["1"] * max(2, n)) + "\n",
    "calls": lambda n: "def f(): return f\nr = f" + "()" * n + "\n",
    "attrs": lambda n: "class A: pass\na = A()\na.a = a\nr = a" + ".a" * n + "\n",
    "nested-if": lambda n: "".join("    " * i + "if True:\n" for i in range(n)) + "    " * n + "r = 1\n",
    "nested-def": lambda n: "".join("    " * i + f"def f{i}():\n" for i in range(n)) + "    " * n + "return 1\n" + "".join("    " * (n - 1 - i) + f"return f{n - 1 - i}()\n" for i in range(n - 1)) + "r = f0()\n",
    "interrupting-ifs": lambda n: "def f(x):\n" + "".join(f"    if x == {i}:\n        return {i}\n" for i in range(n)) + "    return -1\nr = f(-5)\n",
    "decorators": lambda n: "def d(f): return f\n" + "@d\n" * n + "def g(): return 1\nr = g()\n",
    "nested-targets": lambda n: "(" * n + "a" + ",)" * n + " = " + "(" * n + "1" + ",)" * n + "\nr = a\n",
}


def try_size(family, n, opts):
    import itertools as IT
    ol = extract.repo_module("oneliner")
    cfgm = extract.repo_module("oneliner.config")
    src = FAMILIES[family](n)
    try:
        compile(src, "<src>", "exec")
    except (SyntaxError, RecursionError, MemoryError, ValueError):
        return "source-rejected-by-cpython"
    cfg = cfgm.Configs()
    cfg.unparser, cfg.expr_wrapper, cfg.if_style = opts
    try:
        out = ol.convert_code_string(src, configs=cfg)
        compile(out, "<out>", "eval")
        return "ok"
    except RecursionError:
        return "RecursionError"
    except (SyntaxError, MemoryError, ValueError) as e:
        return f"{type(e).__name__}: {str(e)[:60]}"


def g_sizes(R, tier):
    sched = [8, 64] if tier == "quick" else [8, 64, 256, 1024, 4096]
    optsets = [("ast.unparse", "chain_call", "if_expr"), ("oneliner", "list", "short_circuit")]
    for fam in FAMILIES:
        worst = None
        for n in sched:
            if fam in ("nested-if", "nested-def", "nested-targets") and n > 90:
                continue
            for opts in optsets:
                r = try_size(fam, n, opts)
                if r not in ("ok", "source-rejected-by-cpython"):
                    worst = (n, opts, r)
                    break
            if worst:
                break
        R.bounded(f"sizes/{fam}", worst is None, f"N in {sched}: " + ("all converted and compiled" if worst is None else f"N={worst[0]} {worst[1]}: {worst[2]}"),
                  replay=dict(kind="size", family=fam))


# library routines that recurse once per nesting level of the structure they are given (so a
# call on program-sized data brings back the recursion limit the trampolines avoid)
DEPTH_RECURSIVE = {
    ("copy", "deepcopy"), ("copy", "copy"), ("ast", "dump"), ("ast", "fix_missing_locations"), ("ast", "literal_eval"), ("ast", "unparse"),
    ("pickle", "dumps"), ("pickle", "loads"), ("json", "dumps"), ("marshal", "dumps"), ("pprint", "pformat"), ("pprint", "pprint"),
}
DEPTH_RECURSIVE_BASES = {"NodeVisitor", "NodeTransformer"}
ALLOWED_RECURSIVE_CALLS = {("__init__.py", "convert_code_string", ("ast", "unparse"))}  # the `ast.unparse` option itself


def library_recursion_sites():
    pkg = os.path.join(extract.REPO, "oneliner")
    out = []
    for root, _, files in os.walk(pkg):
        for f in sorted(files):
            if not f.endswith(".py"):
                continue
            tree = ast.parse(open(os.path.join(root, f), encoding="utf8").read())
            mods, names = {}, {}
            for n in ast.walk(tree):
                if isinstance(n, ast.Import):
                    for a in n.names:
                        mods[a.asname or a.name.split(".")[0]] = a.name if a.asname else a.name.split(".")[0]
                elif isinstance(n, ast.ImportFrom) and n.module:
                    for a in n.names:
                        names[a.asname or a.name] = (n.module, a.name)
            def owner(node, tree=tree):
                best = "<module>"
                for fn in ast.walk(tree):
                    if isinstance(fn, (ast.FunctionDef, ast.AsyncFunctionDef)) and fn.lineno <= node.lineno <= getattr(fn, "end_lineno", fn.lineno):
                        best = fn.name
                return best
            for n in ast.walk(tree):
                if isinstance(n, ast.ClassDef):
                    for b in n.bases:
                        bn = b.attr if isinstance(b, ast.Attribute) else getattr(b, "id", None)
                        if bn in DEPTH_RECURSIVE_BASES:
                            out.append((f, n.name, ("ast", bn)))
                if not isinstance(n, ast.Call):
                    continue
                fn_ = n.func
                key = None
                if isinstance(fn_, ast.Attribute) and isinstance(fn_.value, ast.Name) and fn_.value.id in mods:
                    key = (mods[fn_.value.id], fn_.attr)
                elif isinstance(fn_, ast.Name) and fn_.id in names:
                    key = names[fn_.id]
                if key in DEPTH_RECURSIVE:
                    out.append((f, owner(n), key))
    return out


def g_library_recursion(R, tier):
    sites = library_recursion_sites()
    bad = [s_ for s_ in sites if s_ not in ALLOWED_RECURSIVE_CALLS]
    R.check("package/no-call-to-a-depth-recursive-library-routine-outside-the-ast.unparse-option", not bad,
            f"calls found: {bad}; allowed: {sorted(ALLOWED_RECURSIVE_CALLS)}", backend="structural", replay=dict(kind="size-own"))
    R.check("package/the-ast.unparse-option-is-the-only-recursive-dependency-call", set(sites) & ALLOWED_RECURSIVE_CALLS == ALLOWED_RECURSIVE_CALLS or not sites,
            repr(sites), backend="structural")


def g_witness(R, tier):
    from suites import c06
    c06.native_finding(R, "expr_unparse.unparse_Constant+ast.unparse/W1-integer-literals-of-any-size",
                       "an int constant is written with repr(): above the interpreter's int-to-decimal-string limit (4300 digits) that raises ValueError, although "
                       "CPython compiles the same value written as a hexadecimal literal",
                       "x = 0x" + "f" * 4000 + "\nr = x % 1000\n")


GROUPS = {"witness": g_witness, "depth": g_depth, "library_recursion": g_library_recursion, "size_guards": g_size_guards, "guards": g_guards, "recursion": g_recursion, "sizes": g_sizes, "canary": c13.g_canary}
NO_FRAME_GROUPS = ("depth", "guards", "sizes", "size_guards", "witness")


def replay_size(rp):
    fam = rp.get("family", "statements")
    if fam not in FAMILIES:
        fam = "statements"
    for n in (16, 64, 256, 600, 1024, 2000):
        if fam in ("nested-if", "nested-def", "nested-targets") and n > 95:
            continue
        for opts in [("ast.unparse", "chain_call", "if_expr"), ("oneliner", "chain_call", "if_expr"), ("ast.unparse", "list", "if_expr"), ("oneliner", "list", "if_expr")]:
            r = try_size(fam, n, opts)
            if r not in ("ok", "source-rejected-by-cpython"):
                return dict(reproduced=True, family=fam, N=n, options=opts, observed=r, source_head=FAMILIES[fam](n)[:200])
    return dict(reproduced=False, family=fam)


def replay_size_own(rp):
    """expression chains through the project's own (stack-driven) transformer and unparser only"""
    for fam in ("binop", "calls", "attrs"):
        for n in (256, 600, 1024, 2000):
            for opts in [("oneliner", "list", "if_expr"), ("oneliner", "chain_call", "short_circuit")]:
                r = try_size(fam, n, opts)
                if r not in ("ok", "source-rejected-by-cpython"):
                    return dict(reproduced=True, family=fam, N=n, options=opts, observed=r, source_head=FAMILIES[fam](n)[:200])
    return dict(reproduced=False)


REPLAY = {"size": replay_size, "size-own": replay_size_own}
