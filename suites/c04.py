"""C04 -- the custom unparser preserves literals exactly and never emits a line break.

  escaper/homomorphism   get_unescaped_str(s, q) == concat of h(c, q) over the characters of s
                         (symbolic run of the REAL loop, all string lengths)
  escaper/per-char       h(c, q) for EVERY code point 0..0x10FFFF and both quotes: no CR/LF,
                         no bare quote, one self-delimiting unit, encodable, and CPython's own
                         literal decoder gives back chr(c)            (exhaustive, finite)
  constant/*             unparse_Constant: case split on the value class
  fstring/*              templates of _unparse_JoinedStr / unparse_JoinedStr /
                         unparse_FormattedValue against the f-string productions
  quotes/*               _Node.__init__ quote alternation (shared with C03)
"""
from __future__ import annotations

import ast
import math
import re
import sys

import z3

from contracts import c_expr_unparse as CU
from olvc import extract, ops, sym, tmplcmp
from olvc.evaluator import Machine
from olvc.interp import IRaise
from olvc.oblig import paths_or_undecided
from olvc.runner import explore
from olvc.sym import Opaque, Seg, SInt, ctx, tagstr
from olvc.tmpl import Fn, Hole, Join, Tmpl, as_tmpl, tcat
from spec import pygrammar as G
from suites import c03

PROPERTY = "C04"
HOSTS = ["3.12", "3.11"]
LEVEL = "proof"
TRUSTED_BASE = [
    "CPython's string-literal decoder (used as the oracle for every single-character piece)",
    "spec/LEMMAS.md A2: self-delimiting pieces compose (paper proof)",
    "assumed contract of repr(): for int/bool/None/bytes/finite float/pure-imaginary complex, repr(v) is a single-line literal that evaluates to v (ints below the 4300-digit str limit)",
    "f-string productions in this file, written from the PEP 701 / 3.11 grammar",
    "olvc symbolic interpreter; z3",
]
ASSUMPTIONS = [
    "Constant values inside a JoinedStr are str (the parser guarantees it)",
    "numeric constants are non-negative (the parser produces negative numbers as UnaryOp)",
    "segments are homogeneous per path (see C03)",
]
EXPLANATION = "symbolic execution of the real escaping loop + exhaustive execution of its body on every code point; template obligations for f-strings"

HOST_LT_312 = sys.version_info < (3, 12)


def _eu():
    return CU.eu()


# ----------------------------------------------------------------------------------------
# escaper


def g_escaper_homomorphism(R, tier):
    eu = _eu()
    base = "expr_unparse.get_unescaped_str"
    for qm in ("'", '"'):
        def run(c):
            n = z3.Int("n_S")
            c.assume(n >= 0)
            j = z3.Int("j_S")

            def mk_ascii(h):
                return Opaque(("ascii", h.tag), str, getitem=lambda o, idx: Hole(("asciibody", h.tag), "str")
                              if (isinstance(idx, slice) and idx.start == 1 and idx.stop == -1 and idx.step is None) else (_ for _ in ()).throw(sym.Unsupported("ascii()[..]")))
            ch = Hole(("ch", j), "str", nonempty=True, ord=lambda h: SInt(z3.Int(f"cp({j})")), ascii=mk_ascii)
            s = Opaque("S", str, as_list=lambda o: [Seg("S", SInt(n), j, [ch])])
            m = Machine()
            return dict(res=m.call_value(eu.get_unescaped_str, s, qm), n=n, j=j)
        paths = explore(run)
        if not paths_or_undecided(R, f"{base}/paths/{qm}", paths):
            continue
        pieces = set()
        for p in paths:
            sig = p.ctx.signature()
            if p.kind != "ok":
                R.fail(f"{base}/no-unexpected-raise/{qm}/{sig}", repr(p.value))
                continue
            res = p.value["res"]
            t = res if isinstance(res, Tmpl) else None
            ok = False
            detail = repr(res)
            if isinstance(res, str) and res == "":
                ok = True  # n == 0 path
            elif t is not None and len(t.parts) == 1 and isinstance(t.parts[0], Join):
                jn = t.parts[0]
                if not jn.sep.parts and len(jn.items) == 1 and isinstance(jn.items[0], Seg):
                    sg = jn.items[0]
                    ok = (len(sg.items) == 1 and not sg.rev and z3.simplify(ops.zint(sg.length) - p.value["n"]).eq(z3.IntVal(0)))
                    pieces.add(repr(sg.items[0]))
            R.check(f"{base}/homomorphism/{qm}/{sig}", ok,
                    f"result must be ''.join of exactly one piece per character, each piece a function of that character and the quote only; got {detail}")
        R.check(f"{base}/piece-classes/{qm}", len(pieces) >= 1, f"pieces per path: {sorted(pieces)}")


_UNIT = re.compile(r"""\\[\\'"abfnrtv]|\\x[0-9a-fA-F]{2}|\\u[0-9a-fA-F]{4}|\\U[0-9a-fA-F]{8}|[^\\]""", re.S)


def per_char_failures(fn, qm, lo, hi):
    """exhaustive over code points [lo, hi): returns list of (cp, piece, why)"""
    bad = []
    batch, exp = [], []

    def flush():
        if not batch:
            return
        src = "(" + ",".join(qm + p + qm for p in batch) + ",)"
        try:
            got = eval(src)  # noqa: S307  CPython's literal decoder is the oracle
        except Exception as e:  # noqa: BLE001
            got = None
        if got is None or len(got) != len(exp):
            for p, c in zip(batch, exp):
                try:
                    g1 = eval(qm + p + qm)  # noqa: S307
                    if g1 != chr(c):
                        bad.append((c, p, f"decodes to {g1!r}"))
                except Exception as e:  # noqa: BLE001
                    bad.append((c, p, f"literal rejected: {type(e).__name__}"))
        else:
            for p, c, g1 in zip(batch, exp, got):
                if g1 != chr(c):
                    bad.append((c, p, f"decodes to {g1!r}"))
        batch.clear()
        exp.clear()

    for c in range(lo, hi):
        piece = fn(chr(c), qm)
        if "\n" in piece or "\r" in piece:
            bad.append((c, piece, "contains a line break"))
            continue
        if not _UNIT.fullmatch(piece):
            bad.append((c, piece, "not one self-delimiting unit"))
            continue
        if piece == qm:
            bad.append((c, piece, "bare quote"))
            continue
        try:
            piece.encode("utf-8")
        except UnicodeEncodeError:
            bad.append((c, piece, "not encodable (lone surrogate emitted raw)"))
            continue
        batch.append(piece)
        exp.append(c)
        if len(batch) >= 2048:
            flush()
    flush()
    return bad


def g_escaper_per_char(R, tier):
    eu = _eu()
    fn = eu.get_unescaped_str
    extract.func_ast(fn.__code__)  # identity check: the native function is the text on disk
    base = "expr_unparse.get_unescaped_str/per-char"
    ranges = [("00000-000ff", 0, 0x100), ("00100-0d7ff", 0x100, 0xD800), ("0d800-0dfff:surrogates", 0xD800, 0xE000),
              ("0e000-0ffff", 0xE000, 0x10000), ("10000-10ffff", 0x10000, 0x110000)]
    for qm in ("'", '"'):
        for name, lo, hi in ranges:
            bad = per_char_failures(fn, qm, lo, hi)
            n = hi - lo
            if not bad:
                R.ok_many(f"{base}/{qm}/{name}", n, "exhaustive-finite", f"{n} code points")
            else:
                R.ok_many(f"{base}/{qm}/{name}/ok", n - len(bad), "exhaustive-finite")
                c, piece, why = bad[0]
                R.fail(f"{base}/{qm}/{name}", f"{len(bad)} code points fail, first U+{c:04X}: piece {piece!r}: {why}",
                       backend="exhaustive-finite", replay=dict(kind="char", cp=c, qm=qm))


# ----------------------------------------------------------------------------------------
# constants


def g_constant(R, tier):
    eu = _eu()
    base = "expr_unparse.unparse_Constant"
    for qm in ("'", '"'):
        # (1) Ellipsis  (2) str  (3) everything else -> repr
        def run_str(c):
            calls = []

            def esc(it, s, q):
                calls.append((s, q))
                return Tmpl([Fn("escaped", s, (q,))])
            m = Machine(stubs={"oneliner.expr_unparse:get_unescaped_str": esc})
            v = Hole("value", "str")
            gen = m.call_value(eu.unparse_Constant, ast.Constant(value=v, kind=kind), qm)
            ys, res = CU.drive(gen)
            return dict(res=res, ys=ys, v=v, calls=calls)
        # Constant.kind ('u' for a literal written with the u prefix, else None) is part of the tree (ast.dump shows it)
        for kind in (None, "u"):
            for p in explore(run_str):
                clause = f"{base}/str/{qm}" + ("" if kind is None else "/kind=u")
                if p.kind != "ok":
                    R.fail(clause, repr(p.value)) if p.kind == "raise" else R.undecided(clause, repr(p.value))
                    continue
                sym.set_ctx(p.ctx)
                try:
                    v = p.value
                    want = Tmpl(([] if kind is None else ["u"]) + [qm, Fn("escaped", v["v"], (qm,)), qm])
                    R.check(clause, tmplcmp.canon(p.ctx, v["res"]) == tmplcmp.canon(p.ctx, want) and not v["ys"],
                            f"real {v['res']!r}, production: [u] + quote + escaped(value, quote) + quote", replay=dict(kind="const", family="u-prefix"))
                finally:
                    sym.set_ctx(None)

        def run_ell(c):
            m = Machine()
            gen = m.call_value(eu.unparse_Constant, ast.Constant(value=...), qm)
            return CU.drive(gen)
        for p in explore(run_ell):
            R.check(f"{base}/ellipsis/{qm}", p.kind == "ok" and p.value[1] == "..." and not p.value[0], repr(p.value))

    # other value classes: the function returns repr(value) -- shown symbolically
    def run_other(c):
        m = Machine()
        v = Opaque("value", object, truthy=None, is_const=lambda o, k: False, repr=lambda o: Hole("repr(value)", "text"))
        v.cands = frozenset([int])  # any non-str, non-Ellipsis class
        gen = m.call_value(eu.unparse_Constant, ast.Constant(value=v), "'")
        return CU.drive(gen)
    for p in explore(run_other):
        ok = p.kind == "ok" and isinstance(p.value[1], Hole) and p.value[1].tag == "repr(value)" and not p.value[0]
        R.check(f"{base}/other-is-repr", ok, repr(p.value))

    # float / complex: repr(value) with the token `inf` rewritten and NOTHING else done to it
    # (the assumed contract of repr: its text parses back to the value)
    for vcls in (float, complex):
        def run_num(c, vcls=vcls):
            m = Machine()
            v = Opaque("value", object, truthy=None, is_const=lambda o, k: False, repr=lambda o: Hole("repr(value)", "text"))
            v.cands = frozenset([vcls])
            gen = m.call_value(eu.unparse_Constant, ast.Constant(value=v), "'")
            return CU.drive(gen)
        paths = explore(run_num)
        if paths_or_undecided(R, f"{base}/{vcls.__name__}/paths", paths):
            for p in paths:
                want = Tmpl([Fn("replace", Hole("repr(value)", "text"), ("inf", "1e309"))])
                ok = p.kind == "ok" and not p.value[0] and repr(as_tmpl(p.value[1])) == repr(want)
                R.check(f"{base}/{vcls.__name__}-is-repr-with-inf-rewritten-and-nothing-else", ok, repr(p.value), replay=dict(kind="const", name=f"{vcls.__name__}:family"))
    # bounded family of finite floats / complex numbers through the real function, natively
    fam = []
    for m_ in (1.0, 2.0, 2.5, 0.1, 1 / 3, 123456789.0, 9007199254740993.0):
        for e_ in (-320, -300, -100, -10, -7, -5, -4, 0, 5, 10, 15, 16, 17, 20, 21, 22, 23, 100, 300, 308):
            try:
                fam.append(m_ * 10.0 ** e_)
            except OverflowError:
                pass
    fam += [0.0, -0.0, 1e16, 1e22, 1e23, 5e-324, 2.2250738585072014e-308, 1.7976931348623157e308, 100.0, 1000000.0, 120.0, 0.5, 1e-05, 0.0001]
    # (complex constants as the parser produces them: imaginary literals, real part 0.0, sign by UnaryOp)
    famc = [complex(0.0, b) for b in (0.0, 1.0, 2.0, 1e20, 1e-10, 200.0, 2.5, 1e22, 5e-324, 1.7976931348623157e308, 120.0)]
    bad = None
    for val in fam + [-x for x in fam] + famc:
        try:
            text = CU.drive(Machine().call_value(eu.unparse_Constant, ast.Constant(value=val), "'"))[1] if False else eu.expr_unparse(ast.Constant(value=val))
            back = ast.literal_eval(ast.parse(text, mode="eval").body) if not isinstance(val, complex) else eval(text, {})  # noqa: S307
            same = type(back) is type(val) and (back == val) and (repr(back) == repr(val))
        except Exception as e:  # noqa: BLE001
            same, text = False, f"{type(e).__name__}: {e}"
        if not same:
            bad = (val, text)
            break
    R.bounded(f"{base}/bounded/finite-floats-and-complex-round-trip", bad is None,
              f"{len(fam) * 2 + len(famc)} values" if bad is None else f"{bad[0]!r} is written {bad[1]!r}", replay=dict(kind="const", name="float:family"))

    # the assumed contract of repr covers finite values only: the exceptional float values
    # are singletons, checked by executing the real function on each of them
    inf = float("inf")
    cases = {"float:+inf": inf, "complex:inf-imag": complex(0, inf), "float:max": sys.float_info.max,
             "float:denormal-min": 5e-324, "float:0.0": 0.0, "int:0": 0, "int:big": 10 ** 40,
             "bytes:all": bytes(range(256)), "bool:True": True, "NoneType": None, "complex:1j": 1j}
    for name, val in cases.items():
        def run(c, val=val):
            m = Machine()
            gen = m.call_value(eu.unparse_Constant, ast.Constant(value=val), "'")
            return CU.drive(gen)
        (p,) = explore(run)
        ok, why = False, repr(p.value)
        if p.kind == "ok":
            text = p.value[1]
            try:
                node = ast.parse(text, mode="eval").body
                good_shape = isinstance(node, ast.Constant)
                back = node.value if good_shape else None
                same = good_shape and type(back) is type(val) and (back == val or (back != back and val != val))
                ok = same and "\n" not in text
                why = f"text {text!r} parses to {ast.dump(node)}"
            except SyntaxError as e:
                why = f"text {text!r}: {e.msg}"
        R.check(f"{base}/value-class/{name}", ok, why, backend="exhaustive-finite", replay=dict(kind="const", name=name))


# ----------------------------------------------------------------------------------------
# f-strings


def escaped_stub(calls=None):
    def esc(it, s, q):
        if calls is not None:
            calls.append((s, q))
        return Tmpl([Fn("escaped", s, (q,))])
    return {"oneliner.expr_unparse:get_unescaped_str": esc}


def brace_doubled(x):
    a = Tmpl([Fn("replace", Tmpl([Fn("replace", x, ("{", "{{"))]), ("}", "}}"))])
    b = Tmpl([Fn("replace", Tmpl([Fn("replace", x, ("}", "}}"))]), ("{", "{{"))])
    return [a, b]


def mk_joined(tag, qm):
    """JoinedStr with values = run of str Constants ++ run of replacement fields ++ run of Constants"""
    def const(t):
        return ast.Constant(value=Hole((t, "value"), "str"))
    C1 = CU.seg(f"{tag}.C1", mk=const)
    F = CU.seg(f"{tag}.F", ast.FormattedValue)
    C2 = CU.seg(f"{tag}.C2", mk=const)
    return ast.JoinedStr(values=[C1, F, C2])


def joined_production(node, qm):
    """alternatives of the *middle* of an f-string"""
    C1, F, C2 = node.values

    def alts(order):
        def lit(x):
            e = Tmpl([Fn("escaped", x.value, (qm,))])
            return brace_doubled(e)[order]
        items = CU.smap([C1], lit) + CU.smap([F], CU.TX) + CU.smap([C2], lit)
        return tcat(Join("", items))
    return [alts(0), alts(1)]


def g_joinedstr(R, tier):
    eu = _eu()
    for qm in ("'", '"'):
        base = "expr_unparse._unparse_JoinedStr"

        def run(c):
            m = Machine(stubs=escaped_stub())
            node = mk_joined("J", qm)
            gen = m.call_value(eu._unparse_JoinedStr, node, qm)
            ys, res = CU.drive(gen)
            return dict(node=node, ys=ys, res=res, spec=joined_production(node, qm))
        paths = explore(run)
        if paths_or_undecided(R, f"{base}/paths/{qm}", paths):
            np_ = c03.real_node_prec()
            for p in paths:
                sig = p.ctx.signature()
                if p.kind != "ok":
                    R.fail(f"{base}/no-unexpected-raise/{qm}/{sig}", repr(p.value))
                    continue
                sym.set_ctx(p.ctx)
                try:
                    v = p.value
                    got = tmplcmp.canon(p.ctx, v["res"])
                    wants = [tmplcmp.canon(p.ctx, w) for w in v["spec"]]
                    R.check(f"{base}/template/{qm}/{sig}", got in wants, f"real {tmplcmp.show(got)}  production {tmplcmp.show(wants[0])}",
                            replay=dict(kind="fstr"))
                    # every replacement field requested once, and never parenthesised
                    F = v["node"].values[1]
                    want_keys = [tagstr(F.items[0].tag)] if not tmplcmp._seg_len_const(p.ctx, F) == 0 else []
                    got_keys = [tagstr(y["child"].tag) for y in v["ys"]]
                    R.check(f"{base}/coverage/{qm}/{sig}", got_keys == want_keys or (not got_keys and not want_keys) or
                            (tmplcmp._seg_len_const(p.ctx, F) is not None), f"requested {got_keys}, fields {want_keys}")
                    for y in v["ys"]:
                        fv = np_["FormattedValue"][0]
                        R.check(f"{base}/field-never-parenthesised/{qm}/{sig}", isinstance(y["prec"], int) and fv <= y["prec"],
                                f"node_prec(FormattedValue)={fv} slot={y['prec']}", backend="ground")
                finally:
                    sym.set_ctx(None)

        # outer wrapper
        base2 = "expr_unparse.unparse_JoinedStr"

        def run2(c):
            m = Machine(stubs=escaped_stub())
            node = mk_joined("J", qm)
            gen = m.call_value(eu.unparse_JoinedStr, node, qm)
            ys, res = CU.drive(gen)
            return dict(node=node, res=res, spec=[tcat("f", qm, w, qm) for w in joined_production(node, qm)])
        paths = explore(run2)
        if paths_or_undecided(R, f"{base2}/paths/{qm}", paths):
            for p in paths:
                sig = p.ctx.signature()
                if p.kind == "raise":
                    R.fail(f"{base2}/never-refuses-a-literal/{qm}",
                           f"raises {p.value!r}: an f-string whose text needs a backslash cannot be emitted on this host",
                           replay=dict(kind="fstr-backslash"))
                    continue
                sym.set_ctx(p.ctx)
                try:
                    got = tmplcmp.canon(p.ctx, p.value["res"])
                    wants = [tmplcmp.canon(p.ctx, w) for w in p.value["spec"]]
                    R.check(f"{base2}/template/{qm}/{sig}", got in wants, f"real {tmplcmp.show(got)}  production {tmplcmp.show(wants[0])}",
                            replay=dict(kind="fstr"))
                finally:
                    sym.set_ctx(None)


CONV = {-1: "", 115: "!s", 114: "!r", 97: "!a"}


def g_formattedvalue(R, tier):
    eu = _eu()
    base = "expr_unparse.unparse_FormattedValue"
    np_ = c03.real_node_prec()
    for conv, ctext in CONV.items():
        for has_spec in (False, True):
            qm = "'"

            def run(c):
                m = Machine(stubs=escaped_stub())
                spec_node = mk_joined("SP", qm) if has_spec else None
                node = ast.FormattedValue(value=CU.O("value"), conversion=conv, format_spec=spec_node)
                gen = m.call_value(eu.unparse_FormattedValue, node, qm)
                ys, res = CU.drive(gen)
                val = CU.TX(node.value)
                starts_brace = ops.t_edge_char_eq(val, "{", last=False)
                sb = ops.truth(starts_brace)
                alts = []
                specs = joined_production(spec_node, qm) if has_spec else [""]
                for sp in specs:
                    tail = tcat(ctext, (tcat(":", sp) if has_spec else ""), "}")
                    alts.append(tcat("{", " ", val, tail))
                    if not sb:
                        alts.append(tcat("{", val, tail))
                return dict(node=node, ys=ys, res=res, alts=alts, sb=sb)
            paths = explore(run)
            tagc = f"conv={ctext or 'none'}/spec={'yes' if has_spec else 'no'}"
            if not paths_or_undecided(R, f"{base}/paths/{tagc}", paths):
                continue
            for p in paths:
                sig = p.ctx.signature()
                if p.kind != "ok":
                    R.fail(f"{base}/no-unexpected-raise/{tagc}/{sig}", repr(p.value))
                    continue
                sym.set_ctx(p.ctx)
                try:
                    v = p.value
                    # whitespace matters here (it would become part of the format spec):
                    # compare the exact part sequences, not token streams
                    got = exact(p.ctx, v["res"])
                    wants = [exact(p.ctx, a) for a in v["alts"]]
                    R.check(f"{base}/template/{tagc}/{sig}", got in wants,
                            f"real {got}   production {wants[-1]}", replay=dict(kind="fstr"))
                    vals = [y for y in v["ys"] if isinstance(y["child"], Opaque) and y["child"].tag == "value"]
                    R.check(f"{base}/coverage-value/{tagc}/{sig}", len(vals) == 1, f"value requested {len(vals)} times")
                    if vals:
                        slot = G.slot(ast.FormattedValue, "value")
                        n_ok = 0
                        for kname, kcls, kop in G.kinds():
                            if kcls in G.UNPARENABLE:
                                continue
                            npv = np_[kname][0]
                            if (not (npv <= vals[0]["prec"])) or G.admits(slot, kcls, kop):
                                n_ok += 1
                            else:
                                R.fail(f"{base}/slot/value/{kname}/{tagc}/{sig}", f"{kname} bare inside a replacement field", backend="ground",
                                       replay=dict(kind="slot", parent="FormattedValue", label="FormattedValue.value", child=kname))
                        R.ok_many(f"{base}/slot/value/{tagc}/{sig}", n_ok, "ground")
                finally:
                    sym.set_ctx(None)


def exact(c, t):
    """canonical form that keeps blanks (one string per literal run)"""
    out = []
    from olvc.tmpl import as_tmpl
    for part in as_tmpl(t).parts:
        if isinstance(part, str):
            out.append(part)
        else:
            out.append(tmplcmp.show(tmplcmp.canon(c, Tmpl([part]))))
    # merge adjacent literals
    res = []
    for x in out:
        if res and not x.startswith(("{", "JOIN", "replace", "escaped")) and not res[-1].startswith(("{", "JOIN", "replace", "escaped")):
            res[-1] += x
        else:
            res.append(x)
    return " ".join(f"<{x}>" for x in res)


def g_nesting(R, tier):
    """quote alternation is enough only for two nesting levels on hosts before PEP 701"""
    eu = _eu()
    from spec import samples
    srcs = {"depth-2": "f'{f\"{x}\"}'", "depth-3": None}
    inner = ast.JoinedStr(values=[ast.FormattedValue(value=ast.Name("x", ast.Load()), conversion=-1, format_spec=None)])
    d2 = ast.JoinedStr(values=[ast.FormattedValue(value=inner, conversion=-1, format_spec=None)])
    d3 = ast.JoinedStr(values=[ast.FormattedValue(value=d2, conversion=-1, format_spec=None)])
    strin = ast.JoinedStr(values=[ast.FormattedValue(value=ast.Subscript(value=ast.Name("d", ast.Load()), slice=ast.Constant("k"), ctx=ast.Load()), conversion=-1, format_spec=None)])
    for name, node in (("nested-fstring-depth-2", d2), ("nested-fstring-depth-3", d3), ("string-in-field", strin)):
        ok, text, why = samples.roundtrip(eu.expr_unparse, node)
        R.check(f"expr_unparse._Node.__init__/quote-alternation-suffices/{name}", ok, f"{text!r}: {why}",
                backend="exhaustive-finite", replay=dict(kind="nest", name=name))


def g_canary(R, tier):
    bad = per_char_failures(lambda ch, q: ch, "'", 0x20, 0x30)
    R.canary("canary/identity-escaper-refuted", any(c == 0x27 for c, _, _ in bad))
    bad = per_char_failures(lambda ch, q: "\\n" if ch == "\r" else ascii(ch)[1:-1], '"', 0, 0x40)
    R.canary("canary/wrong-escape-refuted", any(c == 0x0D for c, _, _ in bad) and any(c == 0x22 for c, _, _ in bad))


GROUPS = {
    "escaper_homomorphism": g_escaper_homomorphism,
    "escaper_per_char": g_escaper_per_char,
    "constant": g_constant,
    "joinedstr": g_joinedstr,
    "formattedvalue": g_formattedvalue,
    "nesting": g_nesting,
    "node_init": c03.g_node_init,
    "canary": g_canary,
}


# ----------------------------------------------------------------------------------------
def _rt(node):
    from spec import samples
    return samples.roundtrip(_eu().expr_unparse, node)


def replay_char(rp):
    c, qm = rp["cp"], rp["qm"]
    node = ast.Constant(value="a" + chr(c) + "b")
    # the root literal uses the quote opposite to '"'; nest it to force the other one
    if qm == '"':
        node = ast.JoinedStr(values=[ast.FormattedValue(value=node, conversion=-1, format_spec=None)])
    try:
        text = _eu().expr_unparse(node)
        text.encode("utf-8")
        back = ast.parse(text, mode="eval").body
        from spec import samples
        ok = samples.norm_dump(back) == samples.norm_dump(node) and "\n" not in text and "\r" not in text
        return dict(reproduced=not ok, input=ast.dump(node), output=text)
    except Exception as e:  # noqa: BLE001
        return dict(reproduced=True, input=ast.dump(node), error=f"{type(e).__name__}: {e}")


def replay_const(rp):
    inf = float("inf")
    if rp.get("family") == "u-prefix":
        from spec import samples
        for src in ("u'abc'", 'u"a\'b"', "f(u'x', 'y')", "[u'', u'\\n']"):
            ok, text, why = _rt(samples.parse_expr(src))
            if not ok:
                return dict(reproduced=True, input=src, output=text, why=why)
        return dict(reproduced=False)
    val = {"float:+inf": inf, "complex:inf-imag": complex(0, inf)}.get(rp.get("name"))
    if val is None and rp.get("name", "").endswith(":family"):
        for val in (1e20, 2.0, 1e-10, 2.5e300, 120.0, 1e16, 1e22, 0.1, 1e20j, 200j, 2.5j):
            ok, text, why = _rt(ast.Constant(value=val))
            if not ok:
                return dict(reproduced=True, input=f"Constant({val!r})", output=text, why=why)
        return dict(reproduced=False)
    if val is None:
        return dict(reproduced=False)
    ok, text, why = _rt(ast.Constant(value=val))
    return dict(reproduced=not ok, input=f"Constant({val!r})", output=text, why=why)


def replay_fstr(rp):
    from spec import samples
    for src in ["f'{a!r}'", "f'{a!s:>5}'", "f'{a!a}'", "f'{x:{y}}'", "f'{x:{y}>{z}}'", "f'{x:.{p}f}'", "f'{ {1:2}[1] }'",
                "f'a{{b}}c{d}'", "f'{x}}}'", "f'{x:>{w}}{{'", "f\"{x!r:^{w}.{p}}\"", "f'{a}{b!r}{c:d}'"]:
        ok, text, why = _rt(samples.parse_expr(src))
        if not ok:
            return dict(reproduced=True, input=src, output=text, why=why)
    return dict(reproduced=False)


def replay_backslash(rp):
    from spec import samples
    for src in ["f'a\\n{x}'", "f'{x}\\\\'", "f\"{x}\\t\""]:
        ok, text, why = _rt(samples.parse_expr(src))
        if not ok:
            return dict(reproduced=True, input=src, output=text, why=why)
    return dict(reproduced=False)


def replay_nest(rp):
    R_ = []

    class _R:
        def check(self, name, ok, detail, **kw):
            R_.append((name, ok, detail))
    g_nesting(_R(), "quick")
    for name, ok, detail in R_:
        if name.endswith(rp["name"]) and not ok:
            return dict(reproduced=True, case=rp["name"], detail=detail)
    return dict(reproduced=False)


REPLAY = {"char": replay_char, "const": replay_const, "fstr": replay_fstr, "fstr-backslash": replay_backslash,
          "nest": replay_nest, "slot": c03.replay_slot, "quote": c03.replay_quote, "kind": c03.replay_kind}
