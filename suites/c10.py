"""C10 -- conversion is a pure function of (source, options) up to fresh-name choice.

  config/*         Cfg.__set__/__get__: validation before store; the store goes to the
                   instance, never to the descriptor owned by the class; an instance that was
                   never set reads the default whatever was done to other instances
  default-options  convert_code_string(configs=None) uses a fresh Configs() and reads
                   nothing else; the unparser choice depends only on configs.unparser
  frames/*         every function under contract in the lowering suites: no write to an
                   object that outlives the call (module, class, class-level value,
                   module-level AST) -- collected from the symbolic runs of those suites
  ordering/*       no iteration over an unordered container reaches the output
  fresh-names/*    unique_id(): distinct results for every state of the random generator
"""
from __future__ import annotations

import ast
import importlib
import random
import symtable

import z3

from contracts import c_lowering as CL
from olvc import extract, frames, sym
from olvc.evaluator import Machine
from olvc.interp import HFn
from olvc.oblig import Results, paths_or_undecided
from olvc.runner import explore
from olvc.sym import Opaque, Seg, SInt, ctx
from olvc.tmpl import Hole

PROPERTY = "C10"
HOSTS = ["3.12"]
LEVEL = "proof"
TRUSTED_BASE = [
    "olvc heap-write log (every attribute/item store and mutating container method performed by interpreted code is recorded)",
    "olvc.frames.preexisting(): the set of objects reachable from the package's module dictionaries",
    "assumed contracts: ast.parse, symtable.symtable, ast.unparse are pure functions of their arguments",
    "random.choices treated as an arbitrary choice function (any RNG state)",
]
ASSUMPTIONS = ["frame obligations are collected for the functions that are under contract in suites C13 (and, as they are added, the other lowering suites); functions not yet under contract are listed in evidence as uncovered"]
EXPLANATION = "frame conditions by provenance of every heap write in symbolic runs of the real functions"

FRAME_SUITES = ["suites.c13", "suites.c07", "suites.c11", "suites.c12", "suites.c14", "suites.c05", "suites.c06", "suites.c01", "suites.c08"]


def cfgm():
    return extract.repo_module("oneliner.config")


def g_config(R, tier):
    C = cfgm()
    base = "config.Cfg"
    for optname in C.Configs.config_names:
        descr = C.Configs.__dict__[optname]
        legal = list(descr.tp) if isinstance(descr.tp, list) else None
        # --- __set__ with a legal value: frame + last-write-wins on that instance ---------
        for val in (legal or ["x"]):
            def run(c, val=val):
                m = Machine()
                i1, i2 = C.Configs(), C.Configs()
                before = dict(vars(descr))
                m.call_value(C.Cfg.__set__, descr, i1, val)
                got1 = m.call_value(C.Cfg.__get__, descr, i1, C.Configs)
                got2 = m.call_value(C.Cfg.__get__, descr, i2, C.Configs)
                after = dict(vars(descr))
                # undo whatever a defective tree did to the shared descriptor
                vars(descr).clear()
                vars(descr).update(before)
                return dict(got1=got1, got2=got2, same_descr=before == after)
            paths = explore(run)
            nm = f"{base}.__set__/{optname}={val}"
            if not paths_or_undecided(R, nm + "/paths", paths):
                continue
            for p in paths:
                if p.kind != "ok":
                    R.fail(f"{nm}/accepts-legal-value", repr(p.value))
                    continue
                v = p.value
                R.check(f"{nm}/reads-back-on-the-same-object", v["got1"] == val, f"got {v['got1']!r}")
                R.check(f"{nm}/other-object-still-reads-default", v["got2"] == descr.default,
                        f"another Configs object reads {v['got2']!r}, default is {descr.default!r}",
                        replay=dict(kind="leak", opt=optname, val=val))
                R.check(f"{nm}/descriptor-unchanged", v["same_descr"], "the class-level descriptor object was modified",
                        replay=dict(kind="leak", opt=optname, val=val))
        # --- illegal value: raises ValueError and stores nothing ------------------------------
        for bad in ("no-such-value", 1, None):
            def run(c, bad=bad):
                m = Machine()
                i1 = C.Configs()
                m.call_value(C.Cfg.__set__, descr, i1, bad)
                return "stored"
            for p in explore(run):
                R.check(f"{base}.__set__/{optname}/illegal-{type(bad).__name__}-raises-before-store",
                        p.kind == "raise" and isinstance(p.value, ValueError) and not p.ctx.writes,
                        f"{p.kind} {p.value!r} writes={[(k, kk) for k, _, kk in p.ctx.writes]}",
                        replay=dict(kind="illegal", opt=optname, val=repr(bad)))
    # a fresh object reads the declared defaults (property text: default option values)
    R.check("config.Configs/declared-defaults", (C.Configs.__dict__["unparser"].default, C.Configs.__dict__["expr_wrapper"].default,
                                                 C.Configs.__dict__["if_style"].default) == ("ast.unparse", "chain_call", "if_expr"),
            "defaults documented in the option declarations", backend="exhaustive-finite")


def g_default_options(R, tier):
    """convert_code_string: symbolic source, configs None / given"""
    ol = extract.repo_module("oneliner")
    C = cfgm()
    base = "__init__.convert_code_string"
    for given in (False, True):
        for unp in ("ast.unparse", "oneliner"):
            if not given and unp != C.Configs.__dict__["unparser"].default:
                continue

            def run(c):
                calls = []
                code = Hole("code", "str")
                tree, st, out = Opaque("ast_root", ast.Module), Opaque("symtable_root", object), Opaque("out", ast.expr)

                def h_parse(it, args, kw):
                    calls.append(("ast.parse", args))
                    return tree

                def h_symt(it, args, kw):
                    calls.append(("symtable", args))
                    return st

                def h_unparse(it, args, kw):
                    calls.append(("ast.unparse", args))
                    return Hole("unparsed", "str")

                def h_compile(it, args, kw):
                    calls.append(("compile", (args, dict(kw))))
                    return Opaque("code-object", object)

                def s_convert(it, a, s, cfg):
                    calls.append(("convert", (a, s, cfg)))
                    return out

                def s_expr_unparse(it, node):
                    calls.append(("expr_unparse", (node,)))
                    return Hole("unparsed-ol", "str")
                created = []

                def s_configs(it, *a):
                    o = C.Configs()
                    created.append(o)
                    return o
                m = Machine(stubs={"oneliner.convert:convert": s_convert, "oneliner.expr_unparse:expr_unparse": s_expr_unparse,
                                   "oneliner.config:Configs": s_configs},
                            native_stubs={ast.parse: h_parse, symtable.symtable: h_symt, ast.unparse: h_unparse, compile: h_compile})
                cfg = None
                if given:
                    cfg = C.Configs.__new__(C.Configs)
                    cfg = Opaque("cfg", C.Configs, fields=dict(unparser=unp, expr_wrapper=Hole("w", "str"), if_style=Hole("i", "str")))
                res = m.call_value(ol.convert_code_string, code, configs=cfg) if given else m.call_value(ol.convert_code_string, code)
                return dict(res=res, calls=calls, created=created, cfg=cfg, tree=tree, st=st, out=out, code=code)
            paths = explore(run)
            nm = f"{base}/{'given' if given else 'none'}/{unp}"
            if not paths_or_undecided(R, nm + "/paths", paths):
                continue
            for p in paths:
                if p.kind != "ok":
                    R.fail(f"{nm}/no-unexpected-raise", repr(p.value))
                    continue
                v = p.value
                conv = [a for k, a in v["calls"] if k == "convert"]
                if given:
                    R.check(f"{nm}/uses-exactly-the-given-options", len(conv) == 1 and conv[0][2] is v["cfg"] and not v["created"], repr(conv))
                else:
                    R.check(f"{nm}/uses-one-fresh-default-object", len(conv) == 1 and len(v["created"]) == 1 and conv[0][2] is v["created"][0], repr(conv),
                            replay=dict(kind="leak", opt="unparser", val="oneliner"))
                R.check(f"{nm}/parses-the-source-text-it-was-given", [a[0] for k, a in v["calls"] if k in ("ast.parse", "symtable")] == [v["code"], v["code"]]
                        and len(conv) == 1 and conv[0][0] is v["tree"] and conv[0][1] is v["st"], repr(v["calls"])[:300])
                # the compiler sees the program before anything is converted: whatever CPython refuses
                # to compile (break outside a loop, two starred targets, repeated keyword ...) is refused
                order = [k for k, a in v["calls"] if k in ("compile", "convert")]
                comp = [a for k, a in v["calls"] if k == "compile"]
                okc = order == ["compile", "convert"] and len(comp) == 1 and len(comp[0][0]) >= 3 and (comp[0][0][0] is v["tree"] or comp[0][0][0] is v["code"]) \
                    and comp[0][0][2] == "exec"
                R.check(f"{nm}/the-program-is-compiled-for-validation-before-it-is-converted", okc, repr(v["calls"])[:300],
                        replay=dict(kind="srcs-raise"))
                unpk = [k for k, a in v["calls"] if k in ("ast.unparse", "expr_unparse")]
                want = ["expr_unparse"] if unp == "oneliner" else ["ast.unparse"]
                R.check(f"{nm}/unparser-choice-follows-the-option", unpk == want, f"{unpk} expected {want}")
                # what is returned: the unparser's text itself; on the ast.unparse branch with the
                # line feeds deleted and NOTHING else done to it (blanks inside literals matter)
                from olvc.tmpl import Fn, Tmpl, as_tmpl
                if unp == "oneliner":
                    okr = isinstance(v["res"], Hole) and v["res"].tag == "unparsed-ol"
                else:
                    okr = repr(as_tmpl(v["res"])) == repr(Tmpl([Fn("replace", Hole("unparsed", "str"), ("\n", ""))]))
                R.check(f"{nm}/returns-the-unparser-s-text-unchanged-except-for-line-feeds", okr, repr(v["res"]),
                        replay=dict(kind="src-text", src="s = 'a    b'\nt = b'x  y'\nu = f'{s}   {t!r}'\nr = (s, t, u, len(s))\n"))


def g_ordering(R, tier):
    """PendingFunctionDef.get_result builds the seeding dict from nonlocal_parameters (a set):
    the iteration order must not reach the output"""
    pn = CL.pn()
    base = "pending_nodes.PendingFunctionDef.get_result"

    def run(c):
        m = Machine(stubs=CL.base_stubs())
        n = z3.Int("n_NP")
        c.assume(n >= 2)
        j = z3.Int("j_NP")
        mk = lambda unordered: Opaque("nonlocal_parameters", set, unordered=unordered, truthy=None,
                                      as_list=lambda o: [Seg("NP", SInt(n), j, [Hole(("np", j), "ident")])],
                                      len=lambda o: SInt(n))
        params = mk(True)
        params.props["sorted"] = lambda o: [Seg("NPsorted", SInt(n), j, [Hole(("np", j), "ident")])]
        inner = CL.mk_nsp("inner", kinds=("function",), return_value_expr=ast.Name(id=Hole("retv", "ident", fresh=True)),
                          zero_arg_super_used=False, flow_ctrl_return_used=False, return_node_bodies=[],
                          inner_nonlocal_names=Opaque("inner_nonlocal_names", set, len=lambda o: 3, truthy=True),
                          nonlocal_parameters=params, nonlocal_dict_expr=ast.Name(id=Hole("nld", "ident", fresh=True)), is_method=False)
        G = CL.mk_global()
        node = ast.FunctionDef(name="f", args=None, body=CL.fn_body(), decorator_list=[], returns=None)
        self_ = CL.mk_pending(pn.PendingFunctionDef, node, CL.mk_nsp("outer"), G, internal_nsp=inner,
                              converted_args=ast.arguments(posonlyargs=[], args=[], kwonlyargs=[], kw_defaults=[], defaults=[]),
                              converted_body=[])
        res = m.call_value(pn.PendingFunctionDef.get_result, self_)
        return dict(res=res)
    paths = explore(run)
    if not paths_or_undecided(R, base + "/seeding/paths", paths):
        return
    for p in paths:
        if p.kind != "ok":
            R.fail(f"{base}/seeding/no-unexpected-raise", repr(p.value))
            continue
        nd = [e for e in p.ctx.trace if e and e[0] == "nondeterministic-iteration"]
        R.check(f"{base}/seeding/no-set-iteration-order-in-output", not nd,
                f"the output is built while iterating an unordered set: {nd!r} (order depends on PYTHONHASHSEED)",
                replay=dict(kind="hashseed"))


def g_fresh_names(R, tier):
    """unique_id under an arbitrary random generator: results must be pairwise distinct"""
    ut = extract.repo_module("oneliner.utils")
    base = "utils.unique_id"

    def run(c):
        # random.choices is an arbitrary choice function: the adversary returns the same
        # letters every time
        def adversary(it, args, kw):
            return ["a"] * kw.get("k", 1)
        m = Machine(native_stubs={random.choices: adversary})
        a = m.call_value(ut.unique_id)
        b = m.call_value(ut.unique_id)
        return a, b
    for p in explore(run):
        if p.kind != "ok":
            R.undecided(f"{base}/distinct-for-every-rng-state", repr(p.value))
            continue
        a, b = p.value
        R.check(f"{base}/distinct-for-every-rng-state", a != b, f"two calls returned {a!r} and {b!r} under a constant choice function",
                replay=dict(kind="rng"))


def g_frames(R, tier):
    """frame obligations of every function under contract in the lowering suites"""
    n = 0
    uncovered = []
    for modname in FRAME_SUITES:
        try:
            mod = importlib.import_module(modname)
        except ModuleNotFoundError:
            uncovered.append(modname)
            continue
        for gname, fn in mod.GROUPS.items():
            if gname.startswith(("canary", "thorough:", "bounded:")) or gname in getattr(mod, "NO_FRAME_GROUPS", ()):
                continue  # (native stand-ins produce no frame obligations)
            sub = Results("C10", f"frames:{modname.split('.')[-1]}.{gname}")
            try:
                fn(sub, tier)
            except BaseException as e:  # noqa: BLE001
                R.undecided(f"{modname}.{gname}/frame", f"group crashed: {e!r}")
                continue
            for it in sub.items:
                if it["name"].endswith("/frame"):
                    it = dict(it)
                    R.items.append(it)
                    n += 1
    R.check("coverage/frame-obligations-collected", n > 0, f"{n} frame obligations; suites not built yet: {uncovered}")


def g_hidden_state(R, tier):
    hs = frames.hidden_state()
    R.check("package/no-memoising-wrappers-or-bound-state", not hs,
            "; ".join(f"{w}: {what}" for w, what in hs) or "every callable of the package is a plain function or class",
            replay=dict(kind="history"))


def g_preset(R, tier):
    """the module-level preset AST is shared by all conversions: it must be a closed,
    never-mutated term (its ids are in PREEXISTING, so any write is caught by frames/*);
    here: it is the same object before and after a conversion that uses it"""
    ol = extract.repo_module("oneliner")
    pr = extract.repo_module("oneliner.presets.iter_wrapper")
    before = ast.dump(pr.iter_wrapper_body)
    C = cfgm()
    for w in ("list", "chain_call"):
        cfg = C.Configs()
        ol.convert_code_string("for i in range(3):\n    if i: break\n", configs=cfg)
    R.check("presets.iter_wrapper_body/unchanged-by-conversion", ast.dump(pr.iter_wrapper_body) == before, "", backend="exhaustive-finite")


def g_canary(R, tier):
    from olvc.sym import Ctx
    c = Ctx()
    pre = frames.preexisting()
    C = cfgm()
    c.writes.append(("attr", C.Configs.__dict__["unparser"], "value"))
    R.canary("canary/write-to-class-level-descriptor-detected", bool(frames.violations(c)))
    R.canary("canary/preexisting-set-nonempty", len(pre) > 50, f"{len(pre)} objects")


def g_namespace_isolation(R, tier):
    from suites import c06
    c06.g_namespace_isolation(R, tier)


GROUPS = {"namespace_isolation": g_namespace_isolation, "hidden_state": g_hidden_state, "config": g_config, "default_options": g_default_options, "ordering": g_ordering, "fresh_names": g_fresh_names,
          "frames": g_frames, "preset": g_preset, "canary": g_canary}


# ----------------------------------------------------------------------------------------
import os
import subprocess
import sys


def _fresh_process(code, env=None):
    e = dict(os.environ)
    e.update(env or {})
    e["PYTHONPATH"] = extract.REPO
    p = subprocess.run([sys.executable, "-c", code], capture_output=True, text=True, env=e, cwd=extract.REPO)
    return p.stdout.strip(), p.stderr.strip()[-400:]


def replay_leak(rp):
    code = (
        "import oneliner, oneliner.config as C\n"
        "src='if a:\\n    b=1\\nelse:\\n    b=2\\nc=1\\nd=2\\n'\n"
        "import random\nrandom.seed(1)\nbase=oneliner.convert_code_string(src)\n"
        f"o=C.Configs(); setattr(o,{rp['opt']!r},{rp['val']!r})\n"
        "random.seed(1)\nlater=oneliner.convert_code_string(src)\n"
        "print(base==later); print(later[:120])\n"
    )
    out, err = _fresh_process(code)
    same = out.splitlines()[0] == "True" if out else None
    return dict(reproduced=(same is False), program=code, observed=out, stderr=err,
                expected="a conversion without options is unaffected by options set on another object")


def replay_illegal(rp):
    return dict(reproduced=False, note="illegal values: see verifier output")


def replay_hashseed(rp):
    src = "def f(a,b,c,d,e):\n    def g():\n        return a,b,c,d,e\n    return g\n"
    code = f"import oneliner,random,re\nrandom.seed(1)\nprint(re.sub('__ol_[a-z]+_[a-z0-9]+','T',oneliner.convert_code_string({src!r})))\n"
    outs = set()
    for seed in ("1", "2", "3", "4", "5"):
        o, e = _fresh_process(code, {"PYTHONHASHSEED": seed})
        outs.add(o)
    return dict(reproduced=len(outs) > 1, distinct_outputs=len(outs), sample=sorted(outs)[:2], program=code)


def replay_rng(rp):
    code = ("import random, oneliner\nrandom.setstate((3,(0,)*624+(624,),None))\n"
            "out=oneliner.convert_code_string('a,b=1,2\\nc,d=3,4\\n')\nimport re\nnames=re.findall('__ol_assign_[a-z0-9]+ :=',out)\n"
            "print(len(names), len(set(names)))\n")
    out, err = _fresh_process(code)
    try:
        n, d = map(int, out.split())
    except Exception:  # noqa: BLE001
        return dict(reproduced=False, observed=out, stderr=err)
    return dict(reproduced=d < n, temporaries=n, distinct=d, program=code)


HISTORY_PAIRS = [  # (converted first, converted second): the second must not depend on the first
    ("limit = 1\nclass A:\n    f = lambda self: limit\n    g = [limit for q in (1,)]\n", "class Box:\n    limit = 2\n    double = limit * 2\nr = Box.double\n"),
    ("i = 0\nwhile i < 2:\n    i += 1\nimport os\nfor k in range(3):\n    if k:\n        break\n", "x = 1\ny = 2\n"),
    ("def f(a):\n    def g():\n        return a\n    return g\n", "def f(a):\n    return a\nr = f(1)\n"),
    ("class K:\n    def m(self):\n        return super().m()\n", "class K:\n    def m(self):\n        return 1\nr = K().m()\n"),
    ("for i in range(3):\n    if i:\n        continue\n", "for i in range(3):\n    pass\nwhile False:\n    pass\n"),
]


def replay_history_pairs(rp=None):
    """second conversion after another conversion vs the same conversion in a fresh process"""
    import json as _j
    norm = "import re\nnorm=lambda t: re.sub(r'__ol_([a-z]+)_[a-z0-9]+', r'__ol_\\1_N', t)\n"
    for first, second in HISTORY_PAIRS:
        code_a = norm + f"import oneliner, random\noneliner.convert_code_string({first!r})\nrandom.seed(1)\nprint(norm(oneliner.convert_code_string({second!r})))\n"
        code_b = norm + f"import oneliner, random\nrandom.seed(1)\nprint(norm(oneliner.convert_code_string({second!r})))\n"
        a, ea = _fresh_process(code_a)
        b, eb = _fresh_process(code_b)
        if a != b:
            return dict(reproduced=True, first=first, second=second, after_first=a[:400], fresh=b[:400], stderr=(ea or eb)[:200],
                        expected="the text of a conversion does not depend on earlier conversions in the process")
    return dict(reproduced=False, pairs=len(HISTORY_PAIRS))


def replay_srcs_raise(rp):
    from suites import replay_util as RU
    for src in ("*a\n", "o.__debug__ = 1\n", "x = *a\n", "f(a=1, a=2)\n", "for *a, *b in [[1, 2]]:\n    pass\n", "def f():\n    nonlocal q\n", "def f(a, a):\n    pass\n",
                "class A:\n    return 1\n", "def f():\n    x: int = 1\n    global x\n", "lambda: (yield)\nbreak\n"):
        rep = RU.replay_source(src, "raises", opts=[("ast.unparse", "chain_call", "if_expr")])
        if rep.get("reproduced"):
            return rep
    return dict(reproduced=False)


def replay_src_text(rp):
    from suites import replay_util as RU
    return RU.replay_source(rp["src"], "same-globals")


def replay_frame(rp):
    """a write to an object that outlives the call shows up as a dependence on the history of
    the process: try the stored two-conversion histories"""
    for fn in (replay_history, replay_history_pairs, replay_leak):
        try:
            rep = fn(rp)
        except Exception as e:  # noqa: BLE001
            rep = dict(reproduced=False, note=repr(e))
        if rep.get("reproduced"):
            rep["frame_write"] = rp.get("where")
            return rep
    return dict(reproduced=False, note=f"write to {rp.get('where')}: see verifier output; the stored histories do not expose it")


def replay_history(rp=None):
    """same object, option changed between two conversions / helper-needing script first"""
    code = (
        "import oneliner, oneliner.config as C, random, re, subprocess, sys, json\n"
        "norm=lambda t: re.sub(r'__ol_([a-z]+)_[a-z0-9]+', r'__ol_\\1_N', t)\n"
        "src='def f(a):\\n    b=1\\n    c=2\\n    return a\\nx=1\\ny=2\\n'\n"
        "loop='i=0\\nwhile i<2:\\n    i+=1\\nimport os\\nfor k in range(3):\\n    if k: break\\n'\n"
        "cfg=C.Configs()\n"
        "a=oneliner.convert_code_string(src, configs=cfg)\n"
        "cfg.expr_wrapper='list'\n"
        "b=oneliner.convert_code_string(src, configs=cfg)\n"
        "fresh=C.Configs(); fresh.expr_wrapper='list'\n"
        "b2=oneliner.convert_code_string(src, configs=fresh)\n"
        "oneliner.convert_code_string(loop)\n"
        "c1=oneliner.convert_code_string(src)\n"
        # option objects that were modified and have died: later objects (possibly at the same address) start from the defaults
        "dflt=(C.Configs().unparser, C.Configs().expr_wrapper, C.Configs().if_style)\n"
        "for _ in range(300):\n    o=C.Configs(); o.unparser='oneliner'; o.expr_wrapper='list'; o.if_style='short_circuit'; del o\n"
        "later=[C.Configs() for _ in range(64)]\n"
        "clean=all((o.unparser, o.expr_wrapper, o.if_style)==dflt for o in later)\n"
        "c2=oneliner.convert_code_string(src, configs=later[0]); c3=oneliner.convert_code_string(src)\n"
        "print(json.dumps([norm(b)==norm(b2), norm(c1)==norm(a), clean and norm(c2)==norm(a) and norm(c3)==norm(a)]))\n")
    out, err = _fresh_process(code)
    try:
        import json as _j
        ok = _j.loads(out.splitlines()[-1])
    except Exception:  # noqa: BLE001
        return dict(reproduced=False, observed=out, stderr=err)
    return dict(reproduced=not all(ok), same_after_option_change=ok[0], same_after_other_conversion=ok[1], defaults_after_dead_option_objects=ok[2], program=code)


REPLAY = {"srcs-raise": replay_srcs_raise, "src-text": replay_src_text, "history-pairs": replay_history_pairs, "history": replay_history, "leak": replay_leak, "illegal": replay_illegal, "hashseed": replay_hashseed, "rng": replay_rng, "frame": replay_frame}

from suites import thorough as _th
GROUPS["thorough:history"] = _th.bounded_from_replay("bounded/api-history", replay_history)
GROUPS["thorough:history-pairs"] = _th.bounded_from_replay("bounded/two-conversion-histories", replay_history_pairs)

# bounded stand-ins for undecided obligations (olvc/oblig.py::main_check)
STANDINS = {"*": [dict(kind="history"), dict(kind="history-pairs"), dict(kind="hashseed")]}
