"""C08 -- unsupported constructs are rejected, never silently dropped or mistranslated.

  dispatch/*    the REAL convert() on an opaque statement of EVERY ast.stmt class: classes
                outside the supported set raise RuntimeError, supported ones reach their
                Pending class (ground over the finite statement catalogue)
  traversal/*   every statement list of every handled compound statement is handed on
                completely (module body here; if/loops/def/class via C05 iter_nodes and
                iter_branch groups, shared)
  routing/*     every expression-valued field of every handled statement is sent through
                expr_transf (which rejects yield/await/async comprehensions: C06 dispatch
                group, shared) -- dropped or raw fields are named
  placement/*   break/continue outside a loop, return outside a function, second star,
                star import (C05 / C13 / C14 groups, shared)
"""
from __future__ import annotations

import ast

import z3

from contracts import c_lowering as CL
from olvc import extract, ops, sym
from olvc.evaluator import Machine
from olvc.interp import IRaise, IStop
from olvc.oblig import paths_or_undecided
from olvc.runner import explore
from olvc.sym import Opaque, Seg, SInt, _leaf_classes, ctx, tagstr
from olvc.tmpl import Hole
from spec import pysem, target_lang as TL
from suites import c05, c06, c07, c13, c14

PROPERTY = "C08"
HOSTS = ["3.12", "3.11"]
LEVEL = "proof"
TRUSTED_BASE = ["supported statement set = README 'Limitations' complement (spec/pysem.SUPPORTED_STMTS)", "ASDL signatures of the ast classes (read from their docstrings)",
                "contracts of expr_transf and of the children's conversion", "olvc interpreter"]
ASSUMPTIONS = ["statements after a direct break/continue/return in the same block are dead code: they are dropped without being validated (listed finding)"]
EXPLANATION = "symbolic execution of the real dispatch and traversal code over the complete statement catalogue; routing of expression fields from the statement traces"


def g_dispatch(R, tier):
    conv = extract.repo_module("oneliner.convert")
    base = "convert.convert"
    catalogue = sorted(_leaf_classes(ast.stmt), key=lambda k: k.__name__)

    def run(c):
        reached = []
        st = {}
        for k, pc in conv.ast2pending.items():
            def f(it, node, nsp=None, nsp_global=None, pc=pc):
                reached.append((pc.__name__, node, nsp, nsp_global))
                raise IRaise(StopAsyncIteration("dispatched"))  # marker: stop here
            st[f"{pc.__module__}:{pc.__qualname__}"] = f
        G = CL.mk_global()
        st["oneliner.namespaces:generate_nsp"] = lambda it, symt, cfg: G
        m = Machine(stubs=st)
        node = Opaque("stmt", ast.stmt, fields=dict(lineno=3, col_offset=0))
        m.call_value(conv.convert, node, Opaque("symtable", object), Opaque("configs", object))
        return "returned"
    paths = explore(run, max_paths=200)
    if not paths_or_undecided(R, base + "/paths", paths):
        return
    seen = set()
    for p in paths:
        fact = [f for f in p.ctx.facts if f.startswith("type(stmt)=")]
        cls = fact[0].split("=")[1] if fact else "?"
        seen.add(cls)
        k = getattr(ast, cls, None)
        supported = k in pysem.SUPPORTED_STMTS
        if supported:
            R.check(f"{base}/supported-statement-reaches-its-lowering/{cls}", p.kind == "raise" and isinstance(p.value, StopAsyncIteration), repr(p.value), backend="exhaustive-finite")
        else:
            R.check(f"{base}/unsupported-statement-raises/{cls}", p.kind == "raise" and isinstance(p.value, RuntimeError), f"{p.kind} {p.value!r}",
                    backend="exhaustive-finite", replay=dict(kind="unsupported", cls=cls))
    R.check(f"{base}/whole-statement-catalogue-covered", seen >= {k.__name__ for k in catalogue}, f"missing {sorted({k.__name__ for k in catalogue} - seen)}")
    # the table itself
    extra = [k.__name__ for k in conv.ast2pending if k not in pysem.SUPPORTED_STMTS and k is not ast.Module]
    R.check("convert.ast2pending/only-supported-statements", not extra, repr(extra), backend="exhaustive-finite")


def g_module_traversal(R, tier):
    pn = CL.pn()
    base = "pending_nodes.PendingModule"

    def run(c):
        m = Machine(stubs=c13.stubs())
        B1, B2 = CL.seg("B1", c05.plain_stmt), CL.seg("B2", c05.plain_stmt)
        node = ast.Module(body=[B1, c05.plain_stmt("mid"), B2], type_ignores=[])
        G = CL.mk_global()
        self_ = CL.mk_pending(pn.PendingModule, node, G, G, m=m)
        g = self_.iter_node
        sent = None
        asked = []
        while True:
            try:
                y = g.send(sent)
            except IRaise as e:
                if isinstance(e.exc, IStop):
                    break
                raise
            asked.append(tagstr(y.tag))
            sent = [CL.absnode(("R", tagstr(y.tag)), ("R", tagstr(y.tag)))]
        res = m.call_value(pn.PendingModule.get_result, self_)
        return dict(asked=asked, res=res, node=node)
    for p in explore(run):
        if p.kind != "ok":
            R.fail(base + "/no-unexpected-raise", repr(p.value))
            continue
        v = p.value
        exp = [t for t, s in (("(B1 j_B1)", v["node"].body[0]), ("mid", None), ("(B2 j_B2)", v["node"].body[2])) if s is None or not c13._provably_zero(p.ctx, s.length)]
        R.check(f"{base}._iter_nodes/every-top-level-statement-once-in-order/{p.ctx.signature()}", v["asked"] == exp, f"{v['asked']} expected {exp}")
        sym.set_ctx(p.ctx)
        try:
            from spec import control
            sem = control.Sem()
            sem.seq(v["res"])
            got = [(k, t) for k, t, _ in sem.execs]
            want = [("stmts" if t.startswith("(") else "stmt", t) for t in exp]
            R.check(f"{base}.get_result/nothing-lost-nothing-added-without-helpers/{p.ctx.signature()}", got == want, f"{got} expected {want}")
        finally:
            sym.set_ctx(None)


# ----------------------------------------------------------------------------------------
# routing of expression fields


def expr_fields(cls):
    out = []
    for tname, q, fname in ops.asdl_fields(cls):
        if tname == "expr":
            out.append((fname, q))
    return out


def scan_tree(x, transformed, raw, seen=None):
    """all source expressions that occur in an emitted tree: transformed (T nodes) / raw"""
    from olvc.sym import Fold
    seen = seen if seen is not None else set()
    if id(x) in seen:
        return
    seen.add(id(x))
    if isinstance(x, Opaque):
        sem = x.props.get("sem")
        if sem is None:
            if isinstance(x.tag, str):
                raw.add(x.tag)
            return
        if sem[0] == "T":
            transformed.add(tagstr(sem[2].tag))
            return
        for part in sem[1:]:
            scan_tree(part, transformed, raw, seen)
        return
    if isinstance(x, Seg):
        for i in x.items:
            scan_tree(i, transformed, raw, seen)
    elif isinstance(x, Fold):
        scan_tree(x.init, transformed, raw, seen)
        scan_tree(x.step, transformed, raw, seen)
    elif isinstance(x, (list, tuple)):
        for i in x:
            scan_tree(i, transformed, raw, seen)
    elif isinstance(x, ast.AST):
        for f in x._fields:
            scan_tree(getattr(x, f, None), transformed, raw, seen)


def g_routing(R, tier):
    """which expression fields reach the output transformed / raw / not at all"""
    pn = CL.pn()
    cases = {}

    def case(name, cls_name, mk, extra=None, children=()):
        cases[name] = (cls_name, mk, extra or (lambda self_: None), children)
    case("Expr", "PendingExpr", lambda: ast.Expr(value=CL.src("value")))
    case("Assign", "PendingAssign", lambda: ast.Assign(targets=[ast.Name(id="t", ctx=ast.Store())], value=CL.src("value")))
    case("AnnAssign", "PendingAssign", lambda: ast.AnnAssign(target=ast.Name(id="t", ctx=ast.Store()), annotation=CL.src("annotation"), value=CL.src("value"), simple=1))
    # annotated assignments whose target is not a bare name (`node.simple == 0`): the value is stored all the same
    case("AnnAssign:attribute-target", "PendingAssign", lambda: ast.AnnAssign(target=ast.Attribute(value=CL.src("obj"), attr="a", ctx=ast.Store()), annotation=CL.src("annotation"),
                                                                                value=CL.src("value"), simple=0))
    case("AnnAssign:parenthesised-name", "PendingAssign", lambda: ast.AnnAssign(target=ast.Name(id="t", ctx=ast.Store()), annotation=CL.src("annotation"), value=CL.src("value"), simple=0))
    case("AugAssign", "PendingAugAssign", lambda: ast.AugAssign(target=ast.Name(id="t", ctx=ast.Store()), op=ast.Add(), value=CL.src("value")))
    case("Return", "PendingReturn", lambda: ast.Return(value=CL.src("value"), lineno=1, col_offset=0))
    case("If", "PendingIf", lambda: ast.If(test=CL.src("test"), body=[], orelse=[]),
         lambda s: (setattr(s, "converted_body", []), setattr(s, "converted_orelse", [])))
    case("While", "PendingWhile", lambda: ast.While(test=CL.src("test"), body=[], orelse=[]))
    case("For", "PendingFor", lambda: ast.For(target=CL.src("target", ast.expr, only=[ast.Name, ast.Tuple, ast.Attribute, ast.Subscript]), iter=CL.src("iter"), body=[], orelse=[]))
    def mk_def():
        return ast.FunctionDef(name="f", args=ast.arguments(posonlyargs=[], args=[ast.arg(arg="a", annotation=CL.src("arg_annotation"))], kwonlyargs=[],
                                                            kw_defaults=[], defaults=[CL.src("default")]),
                               body=CL.fn_body(), decorator_list=[CL.src("decorator_list")], returns=CL.src("returns"), lineno=7, col_offset=0)
    case("FunctionDef", "PendingFunctionDef", mk_def, lambda s: setattr(s, "converted_body", []))

    def mk_cls():
        return ast.ClassDef(name="C", bases=[CL.src("bases")], keywords=[ast.keyword(arg="k", value=CL.src("keyword_value"))], body=CL.fn_body(),
                            decorator_list=[CL.src("decorator_list")], lineno=3, col_offset=0)
    case("ClassDef", "PendingClassDef", mk_cls, lambda s: setattr(s, "converted_body", []))
    for name, (cls_name, mk, extra, children) in cases.items():
        def run(c):
            m = Machine(stubs=c13.stubs())
            node = mk()
            inner = None
            if name == "FunctionDef":
                inner = c07.mk_function_nsp(node)
            elif name == "ClassDef":
                symt = Opaque(("cls", "symt"), object, methods=dict(get_lineno=lambda o: 3, get_name=lambda o: "C"))
                inner = CL.mk_nsp("cls", kinds=("class",), symt=symt, class_member_dict_expr=ast.Name(id=Hole("clsdict", "ident", fresh=True)))
            nsp = CL.mk_nsp("nsp", kinds=("function",), return_cnt=0, return_value_expr=ast.Name(id=Hole("retv", "ident", fresh=True)), return_node_bodies=[],
                            inner_nsp=[inner] if inner is not None else [])
            self_ = CL.mk_pending(getattr(pn, cls_name), node, nsp, CL.mk_global(), m=m)
            extra(self_)
            res = m.call_value(getattr(pn, cls_name).get_result, self_)
            also = {"FunctionDef": ["arg_annotation", "default"], "ClassDef": ["keyword_value"], "AnnAssign:attribute-target": ["obj"]}.get(name, [])
            return dict(res=res, node=node, also=also)
        paths = explore(run)
        nm = f"pending_nodes.{cls_name}[{name}]"
        if not paths_or_undecided(R, nm + "/routing/paths", paths):
            continue
        cls = getattr(ast, name.split(":")[0])
        for p in paths:
            if p.kind != "ok":
                R.fail(f"{nm}/routing/no-unexpected-raise", repr(p.value))
                continue
            sym.set_ctx(p.ctx)
            try:
                transformed, raw = set(), set()
                scan_tree(p.value["res"], transformed, raw)
                for fname, q in expr_fields(cls) + [(f, "") for f in p.value.get("also", [])]:
                    if fname in ("target", "targets") and name != "For":
                        continue  # assignment targets: C13
                    if ":" in name and fname == "annotation":
                        continue  # (the dropped annotation is the finding of the base case)
                    if fname in transformed:
                        R.ok(f"{nm}/routing/{fname}-goes-through-the-expression-transformer", "structural", "unsupported expression kinds inside it are rejected there")
                    elif fname in raw:
                        R.fail(f"{nm}/routing/{fname}-goes-through-the-expression-transformer",
                               f"{name}.{fname} is copied into the output as it stands: names in it are not resolved and unsupported expressions in it are not rejected",
                               replay=dict(kind="field", stmt=name, field=fname))
                    else:
                        R.fail(f"{nm}/routing/{fname}-goes-through-the-expression-transformer",
                               f"{name}.{fname} does not reach the output at all: it is dropped silently (it is evaluated by Python)",
                               replay=dict(kind="field", stmt=name, field=fname))
            except TL.NotInFragment as e:
                R.undecided(f"{nm}/routing/reading", str(e))
            finally:
                sym.set_ctx(None)


def g_dead_code(R, tier):
    c06.native_finding.__globals__  # noqa: B018
    from suites import replay_util as RU
    src = "while True:\n    break\n    try:\n        pass\n    except Exception:\n        pass\n"
    rep = RU.replay_source(src, "raises")
    if rep.get("reproduced"):
        R.fail("pending_nodes._PendingCompoundStmt._iter_branch/statements-after-a-direct-interrupt-are-validated",
               "an unsupported statement after break/continue/return in the same block is dropped without an error", replay=dict(kind="src", src=src, expect="raises"), backend="witness")
    else:
        R.bounded("pending_nodes._PendingCompoundStmt._iter_branch/statements-after-a-direct-interrupt-are-validated", True, "witness rejected")
    c06.native_finding(R, "pending_nodes.PendingAssign.get_result/W1-target-expressions-of-an-annotation-without-value-are-evaluated",
                       "`f()[g()]: T` without a value evaluates f() and g() (Language Reference 7.2.2: the target is evaluated except for the last store); "
                       "the statement converts to nothing (distinct from the dropped annotation expression itself)",
                       "log = []\ndef f():\n    log.append('f')\n    return {}\ndef g():\n    log.append('g')\n    return 'k'\nf()[g()]: int\nf().attr: int\nr = log\n")
    src2 = "for *a, *b in [[1, 2]]:\n    pass\n"
    rep = RU.replay_source(src2, "raises")
    if rep.get("reproduced"):
        R.fail("pending_nodes.PendingFor.get_result/two-starred-names-in-a-loop-target-are-rejected",
               "the loop target is used raw: `for *a, *b in x` is accepted although CPython refuses to compile it", replay=dict(kind="src", src=src2, expect="raises"), backend="witness")
    else:
        R.bounded("pending_nodes.PendingFor.get_result/two-starred-names-in-a-loop-target-are-rejected", True, "witness rejected")


GROUPS = {
    "dispatch": g_dispatch, "module_traversal": g_module_traversal, "routing": g_routing, "dead_code": g_dead_code,
    "traversal:iter_nodes": c05.g_iter_nodes, "traversal:iter_branch": c05.g_iter_branch,
    "expressions:dispatch": c06.g_transform_dispatch, "expressions:generic-copy": c06.g_transform_generic,
    "placement:interrupts": c05.g_interrupts, "placement:stars": c13.g_tuple_list, "placement:star-import": c14.g_import_from,
    "canary": c13.g_canary,
    "compiler_validation": lambda R, tier: __import__("suites.c10", fromlist=["g_default_options"]).g_default_options(R, tier),
}

UNSUPPORTED_SRC = {
    "Try": "try:\n    pass\nexcept Exception:\n    pass\n", "Raise": "raise ValueError()\n", "With": "with open('x') as f:\n    pass\n", "Assert": "assert True\n",
    "Delete": "x = 1\ndel x\n", "Match": "match 1:\n    case 1:\n        pass\n", "AsyncFunctionDef": "async def f():\n    pass\n",
    "AsyncFor": "async def f():\n    async for i in x:\n        pass\n", "AsyncWith": "async def f():\n    async with x:\n        pass\n",
    "TypeAlias": "type X = int\n", "TryStar": "try:\n    pass\nexcept* Exception:\n    pass\n",
}


def replay_unsupported(rp):
    from suites import replay_util as RU
    src = UNSUPPORTED_SRC.get(rp["cls"])
    if src is None:
        return dict(reproduced=False, note="no source for " + rp["cls"])
    for wrap in ("{}", "def f():\n{}", "class A:\n{}", "for i in range(2):\n{}", "if x:\n    pass\nelse:\n{}", "def f():\n    while 1:\n        if y:\n{}"):
        depth = wrap.count("\n") and (len(wrap.split("\n")[-2]) - len(wrap.split("\n")[-2].lstrip()) + 4) // 4 if wrap != "{}" else 0
        body = "".join("    " * depth + l + "\n" for l in src.splitlines())
        full = wrap.format(body) if wrap != "{}" else src
        try:
            ast.parse(full)
        except SyntaxError:
            continue
        rep = RU.replay_source(full, "raises", opts=[("ast.unparse", "chain_call", "if_expr")])
        if rep.get("reproduced"):
            return rep
    return dict(reproduced=False)


def replay_field(rp):
    from suites import replay_util as RU
    progs = {
        ("AnnAssign", "annotation"): "log = []\ndef a():\n    log.append('ann')\n    return int\nx: a() = 1\n",
        ("AnnAssign:attribute-target", "value"): "log = []\nclass O:\n    pass\no = O()\ndef v():\n    log.append('v')\n    return 3\no.x: int = v()\nd = {}\nd['k']: int = v()\nr = (o.x, d, log)\n",
        ("AnnAssign:attribute-target", "obj"): "log = []\nclass O:\n    pass\no = O()\ndef g():\n    log.append('g')\n    return o\ng().x: int = 3\nr = (o.x, log)\n",
        ("AnnAssign:parenthesised-name", "value"): "log = []\ndef v():\n    log.append('v')\n    return 3\n(x): int = v()\nr = (x, log)\n",
        ("For", "target"): "def f():\n    d = {}\n    k = 'key'\n    def g():\n        return d, k\n    for d[k] in range(2):\n        pass\n    return d\nr = f()\n",
    }
    if (rp["stmt"], rp["field"]) == ("Expr", "value"):
        # an expression statement is evaluated for its effect and must be validated
        rep = RU.replay_source("log = []\nf'{log.append(1)}'\n'doc'\nlog.append(2)\nr = log\n", "same-globals")
        if rep.get("reproduced"):
            return rep
        for src in ("def f():\n    f'{(yield 1)}'\n", "async def g():\n    pass\n", "def f():\n    (yield)\n"):
            rep = RU.replay_source(src, "raises", opts=[("ast.unparse", "chain_call", "if_expr")])
            if rep.get("reproduced"):
                return rep
        return dict(reproduced=False)
    src = progs.get((rp["stmt"], rp["field"]))
    if src is None:
        return dict(reproduced=False)
    return RU.replay_source(src, "same-globals")


REPLAY = dict(c13.REPLAY)
REPLAY.update(c05.REPLAY)
REPLAY.update(c06.REPLAY)
REPLAY.update(c14.REPLAY)
REPLAY.update({"unsupported": replay_unsupported, "field": replay_field})
REPLAY.update({k: v for k, v in __import__("suites.c10", fromlist=["REPLAY"]).REPLAY.items() if k not in REPLAY})
