"""C13 -- assignment, destructuring and augmented assignment store what Python stores.

Functions under contract: PendingAssign.{get_result, assign_auto, assign_name, assign_attribute,
assign_subscript, assign_tuple_list}, utils.convert_slice, PendingAugAssign.{_op_dict,
_aug_assign_expr, get_result}.  Routing of name stores through the namespace is C06.
"""
from __future__ import annotations

import ast

import z3

from contracts import c_lowering as CL
from olvc import ops, sym
from olvc.evaluator import Machine
from olvc.interp import IRaise
from olvc.oblig import paths_or_undecided
from olvc.runner import explore
from olvc.sym import Opaque, Seg, SInt, ctx, tagstr, zint
from olvc.tmpl import Hole
from spec import pysem, target_lang as TL

PROPERTY = "C13"
HOSTS = ["3.12"]
LEVEL = "proof"
TRUSTED_BASE = [
    "spec/target_lang.py: reading of the emitted idioms (tuple() snapshot, negative indices, slices, setattr, __setitem__, walrus)",
    "spec/pysem.py: INPLACE_NAME table and sequence-position reading, from the Language Reference (data model 3.3.7, 3.3.8)",
    "contract of Namespace.get_assign/get_load_name (proved per namespace class in C06)",
    "contract of expr_transf (proved in C06/C07 suites)",
    "olvc interpreter; z3",
]
ASSUMPTIONS = [
    "the unpacked iterable has a legal length (len == number of targets without a star, >= with one): Python raises otherwise and the property is stated for scripts that run to completion",
    "in-place protocol is read as `x.__iop__(v) if hasattr(x, '__iop__') else x op v`; CPython looks the method up on the type and falls back when it returns NotImplemented (listed difference)",
]
EXPLANATION = "symbolic execution of the real assignment lowering with opaque targets/values; index arithmetic discharged by z3 for all pattern and sequence lengths"


def stubs(extra=None):
    s = CL.base_stubs()
    s.update(extra or {})
    return s


def non_starred_target(tag):
    return CL.src(tag, ast.expr, only=[ast.Name, ast.Attribute, ast.Subscript, ast.Tuple, ast.List])


def abstract_value(tag="V"):
    """an already lowered value expression (contract: evaluates source expression `tag`)"""
    return CL.T("S", Opaque(tag, ast.expr))


def assign_auto_stub():
    def f(it, self_, target, value):
        ctx().log("assign_auto", target, value)
        return [CL.absnode(("assign", tagstr(target.tag)), ("assign", target, value))]
    return {"oneliner.pending_nodes:PendingAssign.assign_auto": f}


PURE_CLASSES = frozenset([ast.Name, ast.Constant])
CONSTANT_ONLY = frozenset([ast.Constant])


class PureSet(set):
    """tags of source expressions whose evaluation has no effect.  `reads`: the ones that may
    be a bare NAME.  Evaluating a constant is not observable at all.  Reading a variable has no
    effect either, and reading it twice in a row or two variables in either order is the same --
    but WHEN it is read relative to the evaluation of anything that can run code is observable
    (that code may rebind the variable: `data[idx] = next_value()` where next_value() changes
    idx), so reads keep their place between the effectful events."""

    def __init__(self, *a):
        super().__init__(*a)
        self.reads = set()


class EvalA(TL.Eval):
    """reading extended with the contract of assign_auto: evaluate the value, then perform
    Assign(target, value).  Source expressions that are known (on this path) to be a bare
    name or a constant are PURE: evaluating them has no effect, so their position and
    multiplicity are not observable and are left out of the comparison."""

    def __init__(self, *a, **k):
        super().__init__(*a, **k)
        self.pure = PureSet()

    def abstract(self, o):
        sem = o.props.get("sem")
        if sem and sem[0] == "T" and isinstance(sem[2], Opaque) and (
                (sem[2].cands and sem[2].cands <= PURE_CLASSES) or (o.cands and o.cands <= PURE_CLASSES)):
            # (the transformation preserves the node class: a transformed node known to be
            # a Constant/Name comes from a Constant/Name)
            self.pure.add(tagstr(sem[2].tag))
            k_ = (sem[2].cands or frozenset()) | (o.cands or frozenset())
            if not ((sem[2].cands and sem[2].cands <= CONSTANT_ONLY) or (o.cands and o.cands <= CONSTANT_ONLY)):
                self.pure.reads.add(tagstr(sem[2].tag))  # a bare NAME (or: name or constant)
        if sem and sem[0] == "assign":
            v = self.expr(sem[2])
            self.emit("assign", tagstr(sem[1].tag), v)
            return ("none",)
        if sem is None and isinstance(o.tag, str):
            # a SOURCE node placed into the output as it stands: evaluated, but its names are
            # not routed through the namespace
            self.emit("rawev", o.tag)
            return ("rawval", o.tag)
        if sem and sem[0] == "Tbuilt":
            # a node built by the lowering and passed through expr_transf: its children are
            # evaluated as they stand
            return self.expr(sem[2])
        return super().abstract(o)


# ----------------------------------------------------------------------------------------
def g_op_table(R, tier):
    pn = CL.pn()
    d = getattr(pn.PendingAugAssign, "_op_dict", None)
    if not isinstance(d, dict):
        R.ok("pending_nodes.PendingAugAssign._op_dict/absent", "structural",
             "no operator table on the class: the method names are checked through get_result for all 13 operators (group augassign)")
        return
    for op, name in pysem.INPLACE_NAME.items():
        R.check(f"pending_nodes.PendingAugAssign._op_dict/entry/{op.__name__}", d.get(op) == name,
                f"{op.__name__}: real {d.get(op)!r}, data model {name!r}", backend="exhaustive-finite",
                replay=dict(kind="augop", op=op.__name__))
    extra = set(d) - set(pysem.INPLACE_NAME)
    R.check("pending_nodes.PendingAugAssign._op_dict/no-extra-entries", not extra, repr(extra), backend="exhaustive-finite")


# ----------------------------------------------------------------------------------------
def g_tuple_list(R, tier):
    pn = CL.pn()
    base = "pending_nodes.PendingAssign.assign_tuple_list"
    for shape in ("no-star", "one-star", "two-stars"):
        for tcls in (ast.Tuple, ast.List):
            def run(c):
                m = Machine(stubs=stubs(assign_auto_stub()))
                nsp, G = CL.mk_nsp(), CL.mk_global()
                self_ = CL.mk_pending(pn.PendingAssign, Opaque("stmt", ast.Assign), nsp, G, m=m)
                if shape == "no-star":
                    elts = [CL.seg("E", non_starred_target)]
                elif shape == "one-star":
                    elts = [CL.seg("PRE", non_starred_target), ast.Starred(value=non_starred_target("S"), ctx=ast.Store()),
                            CL.seg("POST", non_starred_target)]
                else:
                    elts = [CL.seg("A", non_starred_target), ast.Starred(value=non_starred_target("S1"), ctx=ast.Store(), lineno=1, col_offset=0),
                            CL.seg("B", non_starred_target), ast.Starred(value=non_starred_target("S2"), ctx=ast.Store(), lineno=1, col_offset=0),
                            CL.seg("C", non_starred_target)]
                target = tcls(elts=elts, ctx=ast.Store())
                V = abstract_value()
                n_before = sum(1 for e in c.trace if e and e[0] == "ol_name")
                res = m.call_value(pn.PendingAssign.assign_tuple_list, self_, target, V)
                n_after = sum(1 for e in c.trace if e and e[0] == "ol_name")
                return dict(res=res, elts=elts, V=V, fresh_range=(n_before, n_after))
            paths = explore(run)
            nm = f"{base}/{shape}/{tcls.__name__}"
            if not paths_or_undecided(R, nm + "/paths", paths):
                continue
            for p in paths:
                sig = p.ctx.signature()
                if shape == "two-stars":
                    R.check(f"{nm}/second-star-raises-SyntaxError/{sig}", p.kind == "raise" and isinstance(p.value, SyntaxError), repr(p.value),
                            replay=dict(kind="srcs", srcs=["a, *b, c, *d = [1,2,3,4]", "a, (*b, *c) = 1, [2, 3]", "[a, [*b, *c], d] = 1, [2, 3], 4", "x = (p, (*q, *r)) = 1, [2]",
                                                           "def f():\n    a, (*b, *c) = 1, [2, 3]\n", "for i in [1]:\n    [*u, *v] = [1]\n"], expect="SyntaxError"))
                    continue
                if p.kind != "ok":
                    R.fail(f"{nm}/no-unexpected-raise/{sig}", repr(p.value))
                    continue
                check_destructure(R, nm, sig, p, shape)


def check_destructure(R, nm, sig, p, shape):
    c, v = p.ctx, p.value
    sym.set_ctx(c)
    try:
        ev = EvalA()
        try:
            ev.seq(v["res"])
        except TL.NotInFragment as e:
            R.undecided(f"{nm}/reading/{sig}", str(e))
            return
        tr = ev.tr
        # 1. the value is evaluated and iterated exactly once, first, into a fresh temporary
        head_ok = (len(tr) >= 3 and tr[0][0] == "ev" and tr[1] == ("iterate", ("val", "V")) and tr[2][0] == "tmpbind"
                   and TL.term_eq(c, tr[2][2], ("tuple", ("val", "V"))))
        R.check(f"{nm}/value-snapshotted-once-with-tuple/{sig}", head_ok and sum(1 for e in _flat(tr) if e[0] == "ev") == 1,
                "expected: ev(V); iterate(V); tmp := tuple(V); then only reads of tmp.\n" + TL.show(tr),
                replay=dict(kind="destructure", shape=shape, what="snapshot"))
        if not head_ok:
            return
        snap = tr[2][2]
        fresh = tr[2][1]
        lo, hi = v.get("fresh_range", (0, 1 << 30))
        own = isinstance(fresh, tuple) and fresh[0] == "id" and any(f"(fresh {k} " in fresh[1] for k in range(lo, hi))
        R.check(f"{nm}/temporary-is-fresh-for-this-call/{sig}", own,
                f"the snapshot temporary {fresh!r} must come from an ol_name() call made by this invocation (calls {lo}..{hi - 1}): "
                "nested patterns recurse through assign_auto and must not share it",
                replay=dict(kind="destructure", shape=shape, what="nested"))
        # 2. every target receives the element Python gives it (Language Reference 7.2)
        L = z3.Int("L")
        elts = v["elts"]
        if shape == "no-star":
            (E,) = elts
            c.pc.append(L == zint(E.length))
            want = [("rep", E.length, E.jvar, False, [("assign", tagstr(E.items[0].tag), ("elem", E.jvar))])] if True else []
        else:
            PRE, ST, POST = elts
            a, b = zint(PRE.length), zint(POST.length)
            c.pc.append(L >= a + b)
            want = [("rep", PRE.length, PRE.jvar, False, [("assign", tagstr(PRE.items[0].tag), ("elem", PRE.jvar))]),
                    ("assign", tagstr(ST.value.tag), ("listof", a, L - b)),
                    ("rep", POST.length, POST.jvar, False, [("assign", tagstr(POST.items[0].tag), ("elem", L - b + POST.jvar))])]
        try:
            got = [e for e in TL.observable(tr[3:]) if e[0] != "ev"]
            got = _read_assign_values(c, got, L, snap)
            want = [w for w in want if not (w[0] == "rep" and _provably_zero(c, w[1]))]
            got = [g for g in got if not (g[0] == "rep" and _provably_zero(c, g[1]))]
            why = []
            ok = pysem.trace_eq(c, got, want, why)
            model_hint = dict(kind="destructure", shape=shape, what="positions")
            R.check(f"{nm}/each-target-gets-pythons-element/{sig}", ok,
                    "; ".join(why)[:700] + "\nlowered:\n" + TL.show(got) + "\nPython:\n" + TL.show(want), replay=model_hint, backend="z3")
        finally:
            c.pc.pop()
    finally:
        sym.set_ctx(None)


def drop_pure(tr, pure):
    """remove evaluation events of constants; bring reads of bare names into normal form: a
    maximal block of adjacent reads is a SET (order and repetition inside it are not observable).
    Recursively."""
    reads = getattr(pure, "reads", set())
    out = []
    for e in tr:
        if e[0] == "ev" and e[2] in pure and e[2] not in reads:
            continue
        if e[0] == "ev" and e[2] in reads:
            if out and out[-1][0] == "reads":
                out[-1] = ("reads", tuple(sorted(set(out[-1][1]) | {(e[1], e[2])})))
            else:
                out.append(("reads", ((e[1], e[2]),)))
            continue
        if e[0] == "rep":
            inner = drop_pure(e[4], pure)
            if inner:
                out.append(("rep", e[1], e[2], e[3], inner))
        elif e[0] == "choice":
            out.append(("choice", e[1], drop_pure(e[2], pure), drop_pure(e[3], pure)))
        elif e[0] == "loop":
            out.append(("loop", e[1], e[2], e[3], drop_pure(e[4], pure)))
        else:
            out.append(e)
    return out


def _provably_zero(c, n):
    ok, _ = c.valid(zint(n) == 0)
    return ok


def _flat(tr):
    for e in tr:
        yield e
        if e[0] == "rep":
            yield from _flat(e[4])
        elif e[0] == "choice":
            yield from _flat(e[2])
            yield from _flat(e[3])


def _read_assign_values(c, tr, L, snap):
    out = []
    for e in tr:
        if e[0] == "rep":
            scope = [e[2] >= 0, e[2] < zint(e[1])]
            c.pc.extend(scope)
            try:
                out.append(("rep", e[1], e[2], e[3], _read_assign_values(c, e[4], L, snap)))
            finally:
                del c.pc[-2:]
        elif e[0] == "assign":
            r = pysem.reading_of_snapshot_value(c, e[2], L, snap)
            out.append(("assign", e[1], r if r is not None else ("unreadable", e[2])))
        else:
            out.append(e)
    return out


# ----------------------------------------------------------------------------------------
def g_assign_auto(R, tier):
    """dispatch on the target class"""
    pn = CL.pn()
    base = "pending_nodes.PendingAssign.assign_auto"
    handlers = {"assign_name": ast.Name, "assign_attribute": ast.Attribute, "assign_subscript": ast.Subscript,
                "assign_tuple_list": (ast.Tuple, ast.List)}

    def run(c):
        calls = []
        st = {}
        for h in handlers:
            def f(it, self_, target, value, h=h):
                calls.append((h, target, value))
                if h == "assign_tuple_list":
                    return [Opaque(("r", h), ast.expr)]
                return Opaque(("r", h), ast.expr)
            st[f"oneliner.pending_nodes:PendingAssign.{h}"] = f
        m = Machine(stubs=stubs(st))
        self_ = CL.mk_pending(pn.PendingAssign, Opaque("stmt", ast.Assign), CL.mk_nsp(), CL.mk_global(), m=m)
        t = CL.src("target", ast.expr)
        V = abstract_value()
        res = m.call_value(pn.PendingAssign.assign_auto, self_, t, V)
        return dict(calls=calls, res=res, t=t, V=V)
    paths = explore(run)
    if not paths_or_undecided(R, base + "/paths", paths):
        return
    seen = set()
    for p in paths:
        sig = p.ctx.signature()
        if p.kind == "raise":
            # only for classes that cannot be assignment targets
            t_cands = None
            R.check(f"{base}/rejects-only-non-targets/{sig}", isinstance(p.value, NotImplementedError), repr(p.value))
            continue
        v = p.value
        t = v["t"]
        ok = len(v["calls"]) == 1
        h = v["calls"][0][0] if ok else None
        want = handlers.get(h)
        ok = ok and want is not None and bool(t.cands) and all(issubclass(k, want) for k in t.cands) and v["calls"][0][1] is t and v["calls"][0][2] is v["V"]
        ok = ok and isinstance(v["res"], list) and len(v["res"]) == 1
        seen.add(h)
        R.check(f"{base}/dispatch/{'|'.join(sorted(k.__name__ for k in t.cands))}", ok, f"calls={v['calls']!r} result={v['res']!r}")
    R.check(f"{base}/all-target-kinds-handled", seen == set(handlers), f"handled {sorted(map(str, seen))}")


def g_leaf_targets(R, tier):
    pn = CL.pn()
    # ---- name
    def run_name(c):
        m = Machine(stubs=stubs())
        self_ = CL.mk_pending(pn.PendingAssign, Opaque("stmt", ast.Assign), CL.mk_nsp(), CL.mk_global(), m=m)
        t = ast.Name(id=Hole("x", "ident"), ctx=ast.Store())
        V = abstract_value()
        return dict(res=m.call_value(pn.PendingAssign.assign_name, self_, t, V))
    _check_trace(R, "pending_nodes.PendingAssign.assign_name", explore(run_name),
                 [("ev", "S", "V"), ("store", "nsp", ("id", "x"), ("val", "V"))], "x = V")

    # ---- attribute:  o.a = v   (value is already evaluated by the caller's contract: it
    #      appears here as the abstract value V; order inside one statement is C07)
    def run_attr(c):
        m = Machine(stubs=stubs())
        self_ = CL.mk_pending(pn.PendingAssign, Opaque("stmt", ast.Assign), CL.mk_nsp(), CL.mk_global(), m=m)
        t = ast.Attribute(value=CL.src("obj"), attr=Hole("a", "ident"), ctx=ast.Store())
        V = abstract_value()
        return dict(res=m.call_value(pn.PendingAssign.assign_attribute, self_, t, V))
    _check_trace(R, "pending_nodes.PendingAssign.assign_attribute", explore(run_attr),
                 [("ev", "nsp", "obj"), ("ev", "S", "V"), ("setattr", ("val", "obj"), ("const", ("str", ("id", "a"))), ("val", "V"))], "obj.a = V")

    # ---- subscript with a plain index and with a slice
    for shape in ("index", "slice", "tuple-with-slices"):
        def run_sub(c):
            m = Machine(stubs=stubs())
            self_ = CL.mk_pending(pn.PendingAssign, Opaque("stmt", ast.Assign), CL.mk_nsp(), CL.mk_global(), m=m)
            if shape == "index":
                sl = CL.src("idx", ast.expr, exclude=[ast.Slice, ast.Tuple])  # (a tuple index: next shape)
            elif shape == "tuple-with-slices":  # obj[a.., lo::st .., b..] = V
                plain = lambda t: CL.src(t, ast.expr, exclude=[ast.Slice, ast.Starred])
                sl = ast.Tuple(elts=[CL.seg("IA", plain), CL.seg("SL", lambda t: ast.Slice(lower=CL.src((t, "lo")), upper=None, step=CL.src((t, "st")))),
                                     CL.seg("IB", plain)], ctx=ast.Load())
            else:
                sl = ast.Slice(lower=CL.src("lo"), upper=None, step=CL.src("st"))
            t = ast.Subscript(value=CL.src("obj"), slice=sl, ctx=ast.Store())
            V = abstract_value()
            return dict(res=m.call_value(pn.PendingAssign.assign_subscript, self_, t, V))
        if shape == "index":
            want = [("ev", "nsp", "obj"), ("ev", "nsp", "idx"), ("ev", "S", "V"), ("setitem", ("val", "obj"), ("val", "idx"), ("val", "V"))]
        elif shape == "tuple-with-slices":
            nA, jA, nB, jB, nS, jS = z3.Int("n_IA"), z3.Int("j_IA"), z3.Int("n_IB"), z3.Int("j_IB"), z3.Int("n_SL"), z3.Int("j_SL")
            from olvc.sym import SInt as _SInt
            want = [("ev", "nsp", "obj"), ("rep", _SInt(nA), jA, False, [("ev", "nsp", "(IA j_IA)")]),
                    ("rep", _SInt(nS), jS, False, [("ev", "nsp", "((SL j_SL) lo)"), ("ev", "nsp", "((SL j_SL) st)")]),
                    ("rep", _SInt(nB), jB, False, [("ev", "nsp", "(IB j_IB)")]), ("ev", "S", "V"),
                    ("setitem", ("val", "obj"), ("tupledisp", (("segvals", _SInt(nA), jA, False, (("val", "(IA j_IA)"),)),
                                                               ("segvals", _SInt(nS), jS, False, (("slice", ("val", "((SL j_SL) lo)"), ("const", None), ("val", "((SL j_SL) st)")),)),
                                                               ("segvals", _SInt(nB), jB, False, (("val", "(IB j_IB)"),)))), ("val", "V"))]
        else:
            want = [("ev", "nsp", "obj"), ("ev", "nsp", "lo"), ("ev", "nsp", "st"), ("ev", "S", "V"),
                    ("setitem", ("val", "obj"), ("slice", ("val", "lo"), ("const", None), ("val", "st")), ("val", "V"))]
        _check_trace(R, f"pending_nodes.PendingAssign.assign_subscript[{shape}]", explore(run_sub), want, "obj[i] = V",
                     replay=dict(kind="src", src="def f(k):\n    d = {}\n    def g():\n        return k\n    d[k] = 1\n    return d\nr = f(3)\n", expect="same-globals"))


def _check_trace(R, base, paths, want, what, replay=None):
    if not paths_or_undecided(R, base + "/paths", paths):
        return
    for p in paths:
        sig = p.ctx.signature()
        if p.kind != "ok":
            R.fail(f"{base}/no-unexpected-raise/{sig}", repr(p.value))
            continue
        sym.set_ctx(p.ctx)
        try:
            ev = EvalA()
            res = p.value["res"]
            try:
                ev.seq(res if isinstance(res, list) else [res])
            except TL.NotInFragment as e:
                R.undecided(f"{base}/reading/{sig}", str(e))
                continue
            got = drop_pure(TL.observable(ev.tr), ev.pure)
            want = drop_pure(want, ev.pure)
            why = []
            ok = pysem.trace_eq(p.ctx, got, want, why)
            R.check(f"{base}/stores-what-python-stores/{sig}", ok,
                    f"{what}: " + "; ".join(why)[:500] + "\nlowered:\n" + TL.show(got) + "\nPython:\n" + TL.show(want), replay=replay)
        finally:
            sym.set_ctx(None)


def g_convert_slice(R, tier):
    ut = CL.utils()
    base = "utils.convert_slice"
    for lo in (False, True):
        for up in (False, True):
            for st in (False, True):
                def run(c):
                    m = Machine()
                    s = ast.Slice(lower=CL.src("lo") if lo else None, upper=CL.src("up") if up else None,
                                  step=CL.src("st") if st else None)
                    return dict(res=m.call_value(ut.convert_slice, s), s=s)
                for p in explore(run):
                    name = f"{base}/slice-call/{'L' if lo else '-'}{'U' if up else '-'}{'S' if st else '-'}"
                    if p.kind != "ok":
                        R.fail(name, repr(p.value))
                        continue
                    r, s = p.value["res"], p.value["s"]
                    ok = (isinstance(r, ast.Call) and isinstance(r.func, ast.Name) and r.func.id == "slice" and not r.keywords
                          and len(r.args) == 3)
                    if ok:
                        for got, src_ in zip(r.args, (s.lower, s.upper, s.step)):
                            if src_ is None:
                                ok = ok and isinstance(got, ast.Constant) and got.value is None
                            else:
                                ok = ok and got is src_
                    R.check(name, ok, ast.dump(r) if isinstance(r, ast.AST) and not any(isinstance(x, Opaque) for x in getattr(r, "args", [])) else repr(getattr(r, "args", r)),
                            replay=dict(kind="src", src="a = list(range(10))\na[2:8:2] = [0, 0, 0]\na[:3] = []\na[5:] = [9]\nb = list(range(10))\nb[::2] = 'abcde'\nb[:6:3] = [7, 7]\nb[1::4] += []\nc = list(range(6))\nc[::-1] = c[:]\nc[:] = c[1:]\n", expect="same-globals"))


# ----------------------------------------------------------------------------------------
def g_get_result(R, tier):
    """PendingAssign.get_result: value evaluated once, every target assigned from it"""
    pn = CL.pn()
    base = "pending_nodes.PendingAssign.get_result"
    for shape in ("Assign", "AnnAssign", "AnnAssign-no-value"):
        def run(c):
            m = Machine(stubs=stubs(assign_auto_stub()))
            nsp = CL.mk_nsp()
            if shape == "Assign":
                T1 = non_starred_target("T0")
                TS = CL.seg("T", non_starred_target)
                node = ast.Assign(targets=[T1, TS], value=CL.src("V"))
            elif shape == "AnnAssign":
                node = ast.AnnAssign(target=non_starred_target("T0"), annotation=CL.src("ann"), value=CL.src("V"), simple=1)
            else:
                node = ast.AnnAssign(target=non_starred_target("T0"), annotation=CL.src("ann"), value=None, simple=1)
            self_ = CL.mk_pending(pn.PendingAssign, node, nsp, CL.mk_global(), m=m)
            return dict(res=m.call_value(pn.PendingAssign.get_result, self_), node=node)
        paths = explore(run)
        if not paths_or_undecided(R, f"{base}[{shape}]/paths", paths):
            continue
        for p in paths:
            sig = p.ctx.signature()
            if p.kind != "ok":
                R.fail(f"{base}[{shape}]/no-unexpected-raise/{sig}", repr(p.value))
                continue
            sym.set_ctx(p.ctx)
            try:
                node = p.value["node"]
                ev = EvalA()
                ev.seq(p.value["res"])
                got = TL.observable(ev.tr)
                if shape == "AnnAssign-no-value":
                    want = []
                elif shape == "AnnAssign":
                    want = [("ev", "nsp", "V"), ("assign", "T0", ("val", "V"))]
                else:
                    TS = node.targets[1]
                    want = [("ev", "nsp", "V"), ("assign", "T0", ("val", "V")),
                            ("rep", TS.length, TS.jvar, False, [("assign", tagstr(TS.items[0].tag), ("val", "V"))])]
                got = [g for g in got if not (g[0] == "rep" and _provably_zero(p.ctx, g[1]))]
                want = [w for w in want if not (w[0] == "rep" and _provably_zero(p.ctx, w[1]))]
                why = []
                ok = pysem.trace_eq(p.ctx, got, want, why)
                R.check(f"{base}[{shape}]/value-once-then-each-target-left-to-right/{sig}", ok,
                        "; ".join(why)[:400] + "\nlowered:\n" + TL.show(got) + "\nPython:\n" + TL.show(want),
                        replay=dict(kind="src", src="log = []\ndef f():\n    log.append('f')\n    return [1]\na = b = f()\nsame = a is b\n", expect="same-globals"))
            finally:
                sym.set_ctx(None)


# ----------------------------------------------------------------------------------------
def g_augassign(R, tier):
    pn = CL.pn()
    base = "pending_nodes.PendingAugAssign.get_result"
    for opcls, iop in pysem.INPLACE_NAME.items():
        for kind in ("name", "attribute", "subscript", "slice", "tuple-index"):
            def run(c):
                m = Machine(stubs=stubs())
                nsp = CL.mk_nsp()
                if kind == "name":
                    t = ast.Name(id=Hole("x", "ident"), ctx=ast.Store())
                elif kind == "attribute":
                    t = ast.Attribute(value=CL.src("obj"), attr=Hole("a", "ident"), ctx=ast.Store())
                elif kind == "subscript":
                    t = ast.Subscript(value=CL.src("obj"), slice=CL.src("idx", ast.expr, exclude=[ast.Slice, ast.Tuple]), ctx=ast.Store())
                elif kind == "tuple-index":  # obj[lo::st, idx] op= V
                    t = ast.Subscript(value=CL.src("obj"), slice=ast.Tuple(elts=[ast.Slice(lower=CL.src("lo"), upper=None, step=CL.src("st")),
                                                                                 CL.src("idx", ast.expr, exclude=[ast.Slice, ast.Starred])], ctx=ast.Load()), ctx=ast.Store())
                else:
                    opt = lambda tag: None if c.branch(z3.Bool(f"{tag}.is_none")) else CL.src(tag)
                    t = ast.Subscript(value=CL.src("obj"), slice=ast.Slice(lower=opt("lo"), upper=opt("up"), step=opt("st")), ctx=ast.Store())
                node = ast.AugAssign(target=t, op=opcls(), value=CL.src("V"))
                self_ = CL.mk_pending(pn.PendingAugAssign, node, nsp, CL.mk_global(), m=m)
                return dict(res=m.call_value(pn.PendingAugAssign.get_result, self_))
            paths = explore(run)
            nm = f"{base}[{kind}]<{opcls.__name__}>"
            if not paths_or_undecided(R, nm + "/paths", paths):
                continue
            for p in paths:
                sig = p.ctx.signature()
                if p.kind != "ok":
                    R.fail(f"{nm}/no-unexpected-raise/{sig}", repr(p.value))
                    continue
                sym.set_ctx(p.ctx)
                try:
                    check_aug(R, nm, sig, p, kind, opcls, iop)
                finally:
                    sym.set_ctx(None)


def check_aug(R, nm, sig, p, kind, opcls, iop):
    c = p.ctx
    ev = EvalA()
    try:
        ev.seq(p.value["res"])
    except TL.NotInFragment as e:
        R.undecided(f"{nm}/reading/{sig}", str(e))
        return
    tr = TL.observable(ev.tr, keep_tmp=False)
    flat = list(_flat(tr))
    # the in-place decision: exactly one choice on hasattr(current value, '__iop__')
    choices = [e for e in flat if e[0] == "choice"]
    okc = len(choices) == 1 and isinstance(choices[0][1], tuple) and choices[0][1][0] == "hasattr" \
        and choices[0][1][2] == ("const", iop)
    R.check(f"{nm}/in-place-method-name/{sig}", okc, f"expected one test hasattr(<current value>, {iop!r}); got {[e[1] for e in choices]!r}",
            replay=dict(kind="augop", op=opcls.__name__))
    if not okc:
        return
    ch = choices[0]
    cur = ch[1][1]
    then, other = ch[2], ch[3]
    # right-hand side evaluated exactly once on either arm, never outside
    n_then = sum(1 for e in _flat(then) if e[:3] == ("ev", "nsp", "V"))
    n_else = sum(1 for e in _flat(other) if e[:3] == ("ev", "nsp", "V"))
    n_out = sum(1 for e in tr if e[:3] == ("ev", "nsp", "V"))
    R.check(f"{nm}/value-evaluated-exactly-once/{sig}", n_then == 1 and n_else == 1 and n_out == 0, f"then={n_then} else={n_else} outside={n_out}")
    # arms compute what the data model says
    calls = [e for e in then if e[0] == "call"]
    ok_then = len(calls) == 1 and TL.term_eq(c, calls[0][1], ("attr", cur, iop)) and TL.term_eq(c, calls[0][2], (("val", "V"),))
    R.check(f"{nm}/in-place-arm-calls-method-on-current-value/{sig}", ok_then, TL.show(then))
    bins = [e for e in other if e[0] == "binop"]
    ok_else = len(bins) == 1 and bins[0][1] == opcls.__name__ and TL.term_eq(c, bins[0][2], cur) and TL.term_eq(c, bins[0][3], ("val", "V"))
    R.check(f"{nm}/fallback-arm-is-the-binary-operator/{sig}", ok_else, TL.show(other),
            replay=dict(kind="augop", op=opcls.__name__))
    # exactly one store of the result to the target, on both arms
    res_then = ("app", ("attr", cur, iop), (("val", "V"),), ())
    res_else = ("binop", opcls.__name__, cur, ("val", "V"))

    def stores(arm_events, result):
        """store events of the target that carry `result` (or the whole conditional)"""
        out = []
        for e in list(arm_events) + [x for x in tr if x[0] != "choice"]:
            if kind == "name" and e[0] == "store" and e[2] == ("id", "x"):
                out.append(e[3])
            if kind == "attribute" and e[0] == "setattr" and e[2] == ("const", ("str", ("id", "a"))):
                out.append(e[3])
            if kind in ("subscript", "slice", "tuple-index") and e[0] == "setitem":
                out.append(e[3])
        return out
    cond_val = ("ifexp", ch[1], res_then, res_else)
    for arm, evs, result in (("in-place", then, res_then), ("fallback", other, res_else)):
        st = stores(evs, result)
        good = len(st) == 1 and (TL.term_eq(c, st[0], result) or _ifexp_selects(c, st[0], ch[1], arm, result))
        R.check(f"{nm}/result-stored-to-target-exactly-once/{arm}/{sig}", good,
                f"stores of the target on the {arm} arm: {st!r}; expected exactly one store of {result!r}",
                replay=dict(kind="src", src="class A:\n    def __init__(self, v):\n        self.v = v\n    def __iadd__(self, o):\n        return A(self.v + o)\nx = A(1)\ny = x\nx += 1\nr = (x.v, y.v, x is y)\n", expect="same-globals"))
    # target object / index expressions evaluated exactly once (Language Reference 7.2.1)
    for atom in {"name": [], "attribute": ["obj"], "subscript": ["obj", "idx"], "slice": ["obj", "lo", "up", "st"], "tuple-index": ["obj", "lo", "st", "idx"]}[kind]:
        n = sum(1 for e in flat if e[:3] == ("ev", "nsp", atom))
        absent, _ = c.valid(z3.Bool(f"{atom}.is_none")) if atom in ("lo", "up", "st") else (False, None)
        if atom in ev.pure:
            continue  # a bare name / constant: multiplicity is not observable
        R.check(f"{nm}/target-part-evaluated-once/{atom}/{sig}", n == (0 if absent else 1), f"{atom} evaluated {n} times",
                replay=dict(kind="src", src="log = []\nclass C:\n    x = 0\nc = C()\ndef f():\n    log.append('f')\n    return c\nf().x += 1\n"
                                                 "def p(n, v):\n    log.append(n)\n    return v\nrec = list(range(8))\nrec[1:7:p('step', 2)] += p('value', [])\nrec[::p('stride', 4)] += []\n"
                                                 "rec[p('lo', 0):4] += p('tail', [])\nrec[p('i', 2)] += p('inc', 10)\nd = {'k': 1}\nd[p('key', 'k')] -= p('dec', 1)\n"
                                                 "class L(list):\n    def __getitem__(self, k):\n        log.append(('get', k))\n        return list.__getitem__(self, k)\n"
                                                 "grid = L([L([1, 2]), L([3, 4])])\ngrid[0][1] += 5\nclass Cell:\n    pass\nholder = Cell()\nholder.c = Cell()\nholder.c.items = L([1])\n"
                                                 "holder.c.items[0] += 1\ngrid[1][0:1] += [9]\nr = (c.x, log, rec, d, grid, holder.c.items)\n", expect="same-globals"))


def _ifexp_selects(c, stored, cond, arm, result):
    """the stored value is the conditional expression itself: on this arm it is `result`"""
    if not (isinstance(stored, tuple) and stored and stored[0] == "ifexp" and TL.term_eq(c, stored[1], cond)):
        return False
    sel = stored[2] if arm == "in-place" else stored[3]
    if isinstance(sel, tuple) and sel and sel[0] == "storeresult":
        sel = sel[1]
    return TL.term_eq(c, sel, result)


def g_canary(R, tier):
    from olvc.sym import Ctx
    c = Ctx()
    sym.set_ctx(c)
    try:
        L, b, j = z3.Ints("L b j")
        c.assume(L >= b)
        c.assume(b > 0)
        c.assume(j >= 0)
        c.assume(j < b)
        # wrong index arithmetic must be refuted: j - b + 1 instead of j - b
        got = pysem.norm_pos(c, j - b + 1, L)
        ok, _ = c.valid(got == L - b + j)
        R.canary("canary/off-by-one-refuted", not ok)
        w = []
        R.canary("canary/trace-mismatch-detected", not pysem.trace_eq(c, [("ev", "s", "a"), ("ev", "s", "b")], [("ev", "s", "b"), ("ev", "s", "a")], w))
    finally:
        sym.set_ctx(None)


def g_declined_inplace(R, tier):
    """x op= v where type(x).__iop__ returns NotImplemented: Python falls back to x op v
    (Language Reference 3.3.8 / 7.2.1).  The emitted idiom `x.__iop__(v) if hasattr(x,
    '__iop__') else x op v` has no place for that test; decided by witnesses."""
    from suites.c06 import native_finding
    pre = ("class U:\n    def __init__(self, v):\n        self.v = v\n    def __iadd__(self, o):\n        return NotImplemented\n"
           "    def __add__(self, o):\n        return U(self.v + o)\nclass H:\n    pass\n")
    for kind, body in (("name", "x = U(1)\nx += 2\nr = x.v\n"), ("attribute", "h = H()\nh.a = U(1)\nh.a += 2\nr = h.a.v\n"),
                       ("subscript", "d = {'k': U(1)}\nd['k'] += 2\nr = d['k'].v\n")):
        native_finding(R, f"pending_nodes.PendingAugAssign.get_result[{kind}]/an-in-place-method-that-returns-NotImplemented-falls-back-to-the-binary-operator",
                       "the result of the in-place method is stored even when it is NotImplemented (Python then evaluates `x op v`)", pre + body)


def g_witness(R, tier):
    """clauses of the property that the reading of the builtins abstracts from (spec/target_lang:
    tuple(x) is read as 'iterate x once', obj.__setitem__(k, v) as 'store v under k'): decided by
    witness programs against the real converter"""
    from suites import c06
    c06.native_finding(R, "pending_nodes.PendingAssign.assign_tuple_list/W1-unpacking-only-iterates-the-value",
                       "Language Reference 7.2: unpacking iterates the value; `tuple(value)` also asks it for a length hint (__len__ / __length_hint__ are called)",
                       "log = []\nclass S:\n    def __iter__(self):\n        return iter((1, 2))\n    def __len__(self):\n        log.append('len')\n        return 2\na, b = S()\nr = (a, b, log)\n")
    c06.native_finding(R, "pending_nodes.PendingAssign.assign_subscript/W2-subscript-stores-go-through-the-type-of-the-object",
                       "data model 3.3.12: `obj[k] = v` looks __setitem__ up on type(obj); `obj.__setitem__(k, v)` is an attribute lookup on obj "
                       "(a class whose metaclass defines __setitem__, an instance attribute named __setitem__)",
                       "class Meta(type):\n    def __setitem__(cls, key, value):\n        cls.registry[key] = value\nclass K(metaclass=Meta):\n    registry = {}\n"
                       "    def __setitem__(self, key, value):\n        self.registry[key] = ('instance', value)\nK['a'] = 1\nr = K.registry\n")


GROUPS = {"witness": g_witness, "declined_inplace": g_declined_inplace, "op_table": g_op_table, "assign_tuple_list": g_tuple_list, "assign_auto": g_assign_auto, "leaf_targets": g_leaf_targets,
          "convert_slice": g_convert_slice, "get_result": g_get_result, "augassign": g_augassign, "canary": g_canary}


# ----------------------------------------------------------------------------------------
# replay against the real converter


def replay_src(rp):
    from suites import replay_util as RU
    return RU.replay_source(rp["src"], rp.get("expect", "same-globals"))


def replay_srcs(rp):
    from suites import replay_util as RU
    for src in rp["srcs"]:
        rep = RU.replay_source(src, rp.get("expect", "same-globals"))
        if rep.get("reproduced"):
            return rep
    return dict(reproduced=False, tried=len(rp["srcs"]))


def replay_augop(rp):
    from suites import replay_util as RU
    sym_ = {"Add": "+", "Sub": "-", "Mult": "*", "MatMult": "@", "Div": "/", "FloorDiv": "//", "Mod": "%", "Pow": "**",
            "LShift": "<<", "RShift": ">>", "BitAnd": "&", "BitXor": "^", "BitOr": "|"}[rp["op"]]
    src = (
        "class M:\n"
        "    def __init__(self, log): self.log = log\n"
        + "".join(f"    def {n}(self, o):\n        self.log.append('{n}')\n        return self\n" for n in pysem.INPLACE_NAME.values())
        + "log = []\nx = M(log)\nd = {'k': M(log)}\nclass H: pass\nh = H()\nh.a = M(log)\n"
        f"x {sym_}= 1\nd['k'] {sym_}= 1\nh.a {sym_}= 1\n"
        f"n = 7\nn {sym_}= 2\nr = (log, n)\n"
    )
    if rp["op"] == "MatMult":
        src = src.replace(f"n = 7\nn {sym_}= 2\nr = (log, n)\n", "r = (log,)\n")
    return RU.replay_source(src, "same-globals", names=["r"])


def replay_destructure(rp):
    from suites import replay_util as RU
    srcs = [
        "a, *b, c = range(6)\nr = (a, b, c)\n", "*a, b = [1, 2, 3]\nr = (a, b)\n", "a, *b = 'xyz'\nr = (a, b)\n",
        "a, b, *c, d, e = iter(range(9))\nr = (a, b, c, d, e)\n", "[a, (b, *c), *d] = [1, (2, 3, 4), 5, 6]\nr = (a, b, c, d)\n",
        "a, b = (i for i in (1, 2))\nr = (a, b)\n", "a, *b, c = [1, 2]\nr = (a, b, c)\n",
        "a, (b, c) = 1, iter([2, 3])\nr = (a, b, c)\n", "i, (j, k) = 0, {1: 'one', 0: 'zero'}\nr = (i, j, k)\n", "(a, (b, *c)), d = (1, (q for q in (2, 3, 4))), 5\nr = (a, b, c, d)\n",
        "[u, [v, [w, x]]] = 1, iter([2, iter([3, 4])])\nr = (u, v, w, x)\n",
        "def outer():\n    a, b = 1, 2\n    def g():\n        return a, b\n    a, b = b, a\n    return g()\nr = outer()\n",
        "w = 0\ndef f():\n    return w\nw, t = 5, f()\nx, y = 1, 2\nx, y = y, x\nr = (w, t, x, y)\n",
        "class K:\n    p, q = 1, 2\n    p, q = q, p\nr = (K.p, K.q)\n",
        # several targets: strictly left to right, whatever their kind (a pattern rebinding a name that a later subscript target reads)
        "grid = [0, 0, 0, 0]\npos = 0\n(pos, step) = grid[pos] = (2, 1)\nr = (grid, pos, step)\n",
        "d = {}\nk = 'a'\nd[k] = (k, v) = ('b', 1)\nd[k] = k, w = 'c', 2\nr = (d, k, v, w)\n",
    ]
    for s in srcs:
        rep = RU.replay_source(s, "same-globals", names=["r"])
        if rep.get("reproduced"):
            return rep
    return dict(reproduced=False, tried=srcs)


REPLAY = {"src": replay_src, "srcs": replay_srcs, "augop": replay_augop, "destructure": replay_destructure}

from suites import thorough as _th
def _statement_order(R, tier):
    """which value a target receives, and where it is stored, depends on WHEN the target's object
    and index expressions are evaluated relative to the value (`data[idx] = next_value()` where
    the call changes idx): the whole-statement obligation of C07, with the real leaf handlers"""
    from suites import c07
    c07.g_assign_statement(R, tier)


GROUPS["assign_statement_order"] = _statement_order
GROUPS["thorough:destructuring-programs"] = _th.bounded_from_replay("bounded/destructuring-programs", replay_destructure)
from suites import progenum as _pg
GROUPS["thorough:enum-assignments"] = _th.only_thorough(_pg.g_f1)
GROUPS["thorough:enum-augmented-assignments"] = _th.only_thorough(_pg.g_f2)

# bounded stand-ins for undecided obligations (olvc/oblig.py::main_check)
STANDINS = {"*": [dict(kind="destructure")]}
