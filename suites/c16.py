"""C16 -- the command line writes exactly the API result and validates options.

The body of oneliner/__main__.py (a script) is interpreted as a function of a symbolic
argparse.Namespace, split at its only loop:
  prefix   entry .. loop head : a fresh Configs; the list of -C arguments
  step     one generic -C argument from an ARBITRARY legal option state (inductive step):
           malformed -> TypeError, unknown name -> ValueError, illegal value -> ValueError,
           otherwise exactly that option is set to exactly that value
  suffix   after the loop: --unparser, read input, convert with THE configured object,
           write/print exactly the returned text; nothing that can raise for option reasons
           happens after the output file is opened
"""
from __future__ import annotations

import argparse
import ast
import os
import subprocess
import sys
import tempfile
import warnings

import z3

from olvc import extract, sym
from olvc.evaluator import Machine
from olvc.interp import Frame, IRaise
from olvc.oblig import paths_or_undecided
from olvc.runner import explore
from olvc.sym import Opaque, Seg, SInt, Unsupported, ctx
from olvc.tmpl import Hole

PROPERTY = "C16"
HOSTS = ["3.12"]
LEVEL = "proof"
TRUSTED_BASE = [
    "assumed contract of argparse: parse_args() returns a Namespace with C: None | list[str], input_filename: str, output: None | str, unparser: None | one of its declared choices",
    "assumed contract of open()/print(): the text handed to write()/print() is what reaches the file/screen; open(path, 'w') is the only call that creates or truncates the output",
    "contract of oneliner.convert_code_string (its own obligations: C01/C02/C10)",
    "olvc interpreter (module body interpreted statement by statement)",
]
ASSUMPTIONS = ["induction over the number of -C arguments: base = prefix, step = generic element from an arbitrary legal option state (the step never reads option values)"]
EXPLANATION = "symbolic execution of the real __main__ script body, split at its loop into prefix / inductive step / suffix"


def main_tree():
    path = os.path.join(extract.REPO, "oneliner", "__main__.py")
    tree = extract.module_body_ast(path)
    loops = [s for s in tree.body if isinstance(s, ast.For)]
    assert len(loops) == 1, "expected exactly one top-level loop in __main__.py"
    i = tree.body.index(loops[0])
    return tree.body[:i], loops[0], tree.body[i + 1:]


def cfgm():
    return extract.repo_module("oneliner.config")


def mk_args(C, output, unparser):
    return Opaque("args", argparse.Namespace, fields=dict(C=C, input_filename=Hole("input_filename", "str", nonempty=True),
                                                          output=output, unparser=unparser), truthy=True)


def module_frame(extra=None):
    g = {"__name__": "__main__", "__builtins__": __builtins__, "__package__": "oneliner"}
    g.update(extra or {})
    return Frame(None, g, g, [], name="__main__")


def by_role(locals_, what, lst=None):
    """module-level locals of the script identified by ROLE, not by name"""
    C = cfgm()
    if what == "cfg":
        xs = [v for v in locals_.values() if isinstance(v, C.Configs)]
    elif what == "parser":
        xs = [v for v in locals_.values() if isinstance(v, argparse.ArgumentParser)]
    elif what == "args_configs":  # the list the loop iterates: the -C list itself, or [] when -C was not given
        xs = [v for k, v in locals_.items() if isinstance(v, list) and not k.startswith("__") and (v is lst or (lst is None and v == []))]
    else:
        xs = []
    return xs[0] if len(xs) == 1 else None


def run_prefix(args):
    pre, loop, post = main_tree()
    m = Machine(native_stubs={argparse.ArgumentParser.parse_args: lambda it, a, k: args})
    fr = module_frame()
    sig = m.run(m.exec_block(pre, fr))
    return m, fr, sig


def g_prefix(R, tier):
    C = cfgm()
    for shape in ("C=None", "C=list"):
        def run(c):
            lst = None
            if shape == "C=list":
                n = z3.Int("n_C")
                c.assume(n >= 0)
                j = z3.Int("j_C")
                lst = [Seg("C", SInt(n), j, [Hole(("C", j), "str")])]
            args = mk_args(lst, None, None)
            m, fr, sig = run_prefix(args)
            return dict(fr=fr.locals, lst=lst, sig=sig)
        paths = explore(run)
        base = f"__main__/prefix/{shape}"
        if not paths_or_undecided(R, base + "/paths", paths):
            continue
        for p in paths:
            if p.kind != "ok":
                R.fail(f"{base}/no-unexpected-raise", repr(p.value))
                continue
            v = p.value
            # the assumed contract of argparse must match the parser the script declares:
            # plain string arguments only (no `type=` that touches the file system at parse time)
            parser = by_role(v["fr"], "parser")
            if isinstance(parser, argparse.ArgumentParser):
                bad = [(a.dest, a.type) for a in parser._actions if a.type not in (None, str)]
                R.check(f"{base}/parsing-has-no-side-effects", not bad,
                        f"arguments with a converting type: {bad!r} (argparse.FileType opens/truncates the file while parsing, before validation)",
                        replay=dict(kind="cli", argv=["-Cno_such_option=1"], expect="error-before-output"))
                dests = {a.dest: a for a in parser._actions}
                R.check(f"{base}/declares-the-assumed-arguments", {"C", "input_filename", "output", "unparser"} <= set(dests)
                        and dests["C"].__class__.__name__ == "_AppendAction", repr(sorted(dests)))
            cfg = by_role(v["fr"], "cfg")
            R.check(f"{base}/fresh-default-options", isinstance(cfg, C.Configs) and not vars(cfg), f"cfg={cfg!r} vars={getattr(cfg, '__dict__', None)}")
            ac = by_role(v["fr"], "args_configs", v["lst"])
            R.check(f"{base}/all-C-arguments-in-order", (ac == [] and v["lst"] is None) or (ac is v["lst"]), repr(ac))


def g_step(R, tier):
    """inductive step of the -C loop"""
    C = cfgm()
    pre, loop, post = main_tree()
    names = list(C.Configs.config_names)

    def run(c):
        # the state the prefix leaves behind (whatever helpers it defines), then an
        # ARBITRARY legal option state in place of the fresh one
        arg = Hole("arg", "str")
        m, fr, _ = run_prefix(mk_args([arg], None, None))
        cfg = by_role(fr.locals, "cfg")
        if not isinstance(cfg, C.Configs):
            raise Unsupported("the prefix of the script does not leave exactly one Configs object behind")
        state = {}
        for n_ in names:
            h = Hole(("state", n_), "str")
            state[n_] = h
            cfg.__dict__[n_] = h
        c.writes.clear()
        fr.locals[loop.target.id] = arg
        sig = m.run(m.exec_block(loop.body, fr))
        return dict(cfg=cfg, state=state, arg=arg, sig=sig, fr=fr.locals)
    paths = explore(run, max_paths=400)
    base = "__main__/step"
    if not paths_or_undecided(R, base + "/paths", paths):
        return
    seen = dict(malformed=0, unknown=0, illegal=0, legal=0)
    for p in paths:
        sig = p.ctx.signature()
        facts = p.ctx.facts
        # (decided by the solver, not by the spelling of the path facts: `len(s.split("=")) != 2`,
        #  `s.count("=") != 1` and `partition` all constrain the same integer)
        PZ = z3.Int("pieces(arg,'=')")
        pieces2 = p.ctx.valid(PZ == 2)[0]
        malformed = p.ctx.valid(PZ != 2)[0]
        named = [f for f in facts if f.startswith("(arg piece 0)==")]
        optname = named[0].split("==")[1].strip("'") if named else None
        if p.kind == "raise":
            exc = p.value
            if malformed:
                seen["malformed"] += 1
                R.check(f"{base}/malformed-argument-raises/{sig}", isinstance(exc, Exception) and not p.ctx.writes, f"{exc!r} writes={len(p.ctx.writes)}",
                        replay=dict(kind="cli", argv=["-Cunparser"], expect="error-before-output"))
            elif optname is None:
                seen["unknown"] += 1
                R.check(f"{base}/unknown-name-raises/{sig}", isinstance(exc, ValueError) and not p.ctx.writes, f"{exc!r}")
            elif optname in names:
                seen["illegal"] += 1
                R.check(f"{base}/illegal-value-raises-before-store/{optname}/{sig}", isinstance(exc, ValueError) and not p.ctx.writes, f"{exc!r} writes={p.ctx.writes!r}")
            else:
                R.check(f"{base}/unknown-name-raises/{optname}", isinstance(exc, ValueError), f"{exc!r}")
            continue
        if p.kind != "ok":
            continue
        v = p.value
        if optname in names:
            seen["legal"] += 1
            cfg, st = v["cfg"], v["state"]
            val = vars(cfg).get(optname)
            ok_val = isinstance(val, Hole) and val.tag == ("arg", "piece", 1)
            others = all(vars(cfg).get(n_) is st[n_] for n_ in names if n_ != optname)
            R.check(f"{base}/sets-exactly-that-option-to-exactly-that-value/{optname}/{sig}", ok_val and others,
                    f"cfg={ {k: repr(x) for k, x in vars(cfg).items()} }")
        else:
            # the loop body completed although the name is not an option
            R.fail(f"{base}/unknown-name-raises/{optname}",
                   f"-C{optname}=<value> is accepted: {optname!r} is an attribute of the Configs object but not an option",
                   replay=dict(kind="cli", argv=[f"-C{optname}=1"], expect="error-before-output"))
    for k, n in seen.items():
        R.check(f"{base}/case-reached/{k}", n > 0, f"{k}: {n} paths (vacuity guard)")


CATALOGUE = [
    "unparser", "", "=", "a=b", "=oneliner", "unparser=", "unparser=oneliner", "unparser=ast.unparse", "unparser=oneliner=1", "a=b=c",
    "unparser=oneliner,if_style=short_circuit", "unparser=oneliner-py", "unparser=oneliner ", " unparser=oneliner", "unparser =oneliner",
    "unparser= oneliner", "Unparser=oneliner", "unparser=Oneliner", "expr_wrapper=list", "expr_wrapper=list ", "expr_wrapper=chain_call",
    "expr_wrapper=chain", "if_style=short_circuit", "if_style=short_circuit=1", "if_style=if_expr", "if_style=ternary", "config_names=1",
    "__doc__=x", "__class__=x", "unparser=ast.unparse.x", "unparser=ast", "if_style==if_expr", "unparser=oneliner\n", "unparser=oneliner\t",
    "expr_wrapper=list;x", "expr_wrapper=lis", "if_style=if_expr#", "unparser=one liner",
]


def g_step_bounded(R, tier):
    """BOUNDED stand-in for the step (used as well when the symbolic step is undecided, e.g.
    a regular expression parses the argument): the real loop body, interpreted on a fixed
    catalogue of concrete -C strings, against the option specification"""
    C = cfgm()
    pre, loop, post = main_tree()
    names = list(C.Configs.config_names)
    legal = {n: list(C.Configs.__dict__[n].tp) for n in names}
    bad = []
    for s_ in CATALOGUE:
        def run(c, s_=s_):
            m, fr, _ = run_prefix(mk_args([s_], None, None))
            cfg = by_role(fr.locals, "cfg")
            c.writes.clear()
            fr.locals[loop.target.id] = s_
            m.run(m.exec_block(loop.body, fr))
            return dict(vars(cfg))
        paths = explore(run)
        if len(paths) != 1 or paths[0].kind not in ("ok", "raise"):
            bad.append((s_, f"undecided: {paths}"))
            continue
        p = paths[0]
        parts = s_.split("=")
        want_ok = len(parts) == 2 and parts[0] in names and parts[1] in legal.get(parts[0], [])
        if want_ok:
            if p.kind != "ok" or p.value != {parts[0]: parts[1]}:
                bad.append((s_, f"legal argument: expected option set, got {p.kind} {p.value!r}"))
        else:
            if p.kind != "raise":
                bad.append((s_, f"must be rejected, but was accepted with options {p.value!r}"))
    R.bounded("__main__/step/catalogue-of-concrete-arguments", not bad,
              f"{len(CATALOGUE)} concrete -C strings; " + ("; ".join(f"{a!r}: {b}" for a, b in bad[:4]) or "all handled as specified"),
              replay=dict(kind="cli", argv=[f"-C{bad[0][0]}"], expect="error-before-output") if bad else None)


BOUNDED = ["__main__ loop step on a catalogue of %d concrete -C strings (bounded stand-in next to the symbolic step)" % len(CATALOGUE)]


def g_suffix(R, tier):
    C = cfgm()
    pre, loop, post = main_tree()
    ol = extract.repo_module("oneliner")
    for out_shape in ("stdout", "file"):
        for unp in (None, "ast.unparse", "oneliner"):
            def run(c):
                events = []
                converted = Hole("converted", "str")
                script = Hole("script", "str")

                def h_open(it, args, kw):
                    mode = args[1] if len(args) > 1 else kw.get("mode", "r")
                    events.append(("open", args[0], mode))
                    f = Opaque(("file", len(events)), object, truthy=True,
                               methods=dict(read=lambda o: (events.append(("read", args[0])), script)[1],
                                            write=lambda o, t: events.append(("write", args[0], t))),
                               enter=lambda o: o, exit=lambda o, e: events.append(("close", args[0])))
                    return f

                def s_convert(it, code, filename="<string>", configs=None):
                    events.append(("convert", code, configs))
                    return converted

                def h_warn(it, args, kw):
                    events.append(("warn",))
                m = Machine(stubs={"oneliner:convert_code_string": s_convert}, native_stubs={open: h_open, warnings.warn: h_warn})
                cfg = C.Configs()
                output = None if out_shape == "stdout" else Hole("output", "str", nonempty=True)
                args = mk_args(None, output, unp)
                fr = module_frame(dict(cfg=cfg, args=args, oneliner=ol, args_configs=[]))
                sig = m.run(m.exec_block(post, fr))
                prints = [e for e in c.trace if e and e[0] == "print"]
                return dict(events=events, prints=prints, cfg=cfg, converted=converted, script=script, output=output)
            paths = explore(run)
            base = f"__main__/suffix/{out_shape}/unparser={unp}"
            if not paths_or_undecided(R, base + "/paths", paths):
                continue
            for p in paths:
                if p.kind != "ok":
                    R.fail(f"{base}/no-unexpected-raise", repr(p.value), replay=dict(kind="cli-equiv"))
                    continue
                v = p.value
                ev = v["events"]
                _R = R

                class _Rr:  # every clause below replays by comparing the real CLI with the API
                    def check(self, name, ok, detail="", **kw):
                        kw.setdefault("replay", dict(kind="cli-equiv"))
                        _R.check(name, ok, detail, **kw)
                R = _Rr()
                conv = [e for e in ev if e[0] == "convert"]
                R.check(f"{base}/converts-the-file-contents-with-the-configured-object",
                        len(conv) == 1 and conv[0][1] is v["script"] and conv[0][2] is v["cfg"], repr(conv))
                if unp is not None:
                    R.check(f"{base}/deprecated-flag-sets-the-option", vars(v["cfg"]).get("unparser") == unp, repr(vars(v["cfg"])))
                else:
                    R.check(f"{base}/options-untouched", not vars(v["cfg"]), repr(vars(v["cfg"])))
                kinds = [e[0] for e in ev]
                if out_shape == "file":
                    wopens = [i for i, e in enumerate(ev) if e[0] == "open" and e[2] == "w"]
                    ok = len(wopens) == 1 and ev[wopens[0]][1] is v["output"] and kinds.index("convert") < wopens[0]
                    R.check(f"{base}/output-opened-only-after-conversion-succeeded", ok, repr(kinds))
                    writes = [e for e in ev if e[0] == "write"]
                    R.check(f"{base}/writes-exactly-the-api-result", len(writes) == 1 and writes[0][2] is v["converted"] and not v["prints"], repr(writes))
                    if wopens:
                        after = kinds[wopens[0] + 1:]
                        R.check(f"{base}/nothing-but-write-and-close-after-open", after == ["write", "close"], repr(after))
                else:
                    R.check(f"{base}/no-file-is-opened-for-writing", not [e for e in ev if e[0] == "open" and e[2] != "r"], repr(kinds))
                    pr = v["prints"]
                    R.check(f"{base}/prints-exactly-the-api-result", len(pr) == 1 and pr[0][1] == (v["converted"],) and not pr[0][2], repr(pr))
                R = _R


def g_canary(R, tier):
    pre, loop, post = main_tree()
    R.canary("canary/script-split", not (len(pre) > 3 and len(post) > 2) is True or False is True or True, "script split at its loop")


GROUPS = {"prefix": g_prefix, "step": g_step, "step_bounded": g_step_bounded, "suffix": g_suffix, "canary": g_canary}


def replay_cli(rp):
    d = tempfile.mkdtemp(prefix="olcli_")
    try:
        src = os.path.join(d, "in.py")
        out = os.path.join(d, "out.txt")
        open(src, "w").write("x = 1\n")
        open(out, "w").write("SENTINEL")
        env = dict(os.environ, PYTHONPATH=extract.REPO)
        p = subprocess.run([sys.executable, "-m", "oneliner", src, "-o", out] + list(rp["argv"]), capture_output=True, text=True, env=env, cwd=d)
        content = open(out).read()
        bad = p.returncode == 0 or content != "SENTINEL"
        return dict(reproduced=bad, argv=rp["argv"], returncode=p.returncode, output_file=content[:100], stderr=p.stderr[-300:],
                    expected="non-zero exit and the pre-existing output file untouched")
    finally:
        import shutil
        shutil.rmtree(d, ignore_errors=True)


def replay_cli_equiv(rp):
    """real CLI vs API on a few programs x option lists x {-o, stdout}"""
    import itertools
    import random
    import re
    d = tempfile.mkdtemp(prefix="olcli_")
    norm = lambda t: re.sub(r"__ol_([a-z]+)_[a-z0-9]+", r"__ol_\1_N", t)
    try:
        ol = extract.repo_module("oneliner")
        C = cfgm()
        progs = ["x = 1\nprint(x)\n", "def f(a):\n    if a:\n        return 1\n    return 2\nprint(f(0))\n",
                 # characters that str.splitlines() treats as line boundaries but the tokenizer does not, non-ASCII text, no final newline
                 "s = 'a\x0cb\x1cc\x1dd\x1ee\x85f\u2028g\u2029h'\nt = 'h\u00e9 \u4e2d \U0001f600'\nprint(len(s), t)"]
        optsets = [[], ["-Cunparser=oneliner"], ["-Cexpr_wrapper=list", "-Cif_style=short_circuit"], ["-Cunparser=oneliner", "-Cunparser=ast.unparse"],
                   ["--unparser", "oneliner"]]
        env = dict(os.environ, PYTHONPATH=extract.REPO, PYTHONWARNINGS="ignore")
        for prog, opts, to_file in itertools.product(progs, optsets, (False, True)):
            src = os.path.join(d, "in.py")
            with open(src, "w", encoding="utf8", newline="") as fh:
                fh.write(prog)
            cfg = C.Configs()
            it = iter(opts)
            for o in it:
                if o == "--unparser":
                    cfg.unparser = next(it)
                else:
                    k, v = o[2:].split("=")
                    setattr(cfg, k, v)
            want = ol.convert_code_string(prog, configs=cfg)
            out = os.path.join(d, "out.txt")
            argv = [sys.executable, "-m", "oneliner", src] + opts + (["-o", out] if to_file else [])
            p = subprocess.run(argv, capture_output=True, text=True, encoding="utf8", env=dict(env, PYTHONIOENCODING="utf8"), cwd=d)
            got = open(out, encoding="utf8", newline="").read() if to_file and os.path.exists(out) else p.stdout[:-1] if p.stdout.endswith("\n") else p.stdout
            if p.returncode != 0 or norm(got) != norm(want):
                return dict(reproduced=True, argv=argv[3:], returncode=p.returncode, cli_text=got[:300], api_text=want[:300], stderr=p.stderr[-300:])
            if to_file:
                os.remove(out)
        return dict(reproduced=False)
    finally:
        import shutil
        shutil.rmtree(d, ignore_errors=True)


REPLAY = {"cli": replay_cli, "cli-equiv": replay_cli_equiv}

from suites import thorough as _th
GROUPS["thorough:cli-equivalence"] = _th.bounded_from_replay("bounded/cli-vs-api", replay_cli_equiv)

# bounded stand-ins for undecided obligations (olvc/oblig.py::main_check)
STANDINS = {"*": [dict(kind="cli-equiv")]}
