"""suites.progenum -- BOUNDED stand-ins of the thorough tier: systematic enumeration of small
whole programs per feature family, each converted by the REAL converter under option
combinations and compared with CPython executing the source (stdout, probe log, final
user globals).  Purpose: (1) validate the trusted reading of the emitted idioms
(spec/target_lang.py, spec/control.py) against CPython on whole programs, (2) find input
shapes the symbolic harnesses do not yet cover (a failure here on the unchanged tree is
either a defect of the repository -- fix or finding -- or it names a shape to add to a
harness).  Every family states its bound; a pass is recorded with weight 0 (never counted
as proved), a failure is a violation with the concrete program.

Programs avoid the constructs listed as known findings (for-targets read after the loop or
rebound, class-body loads of later-bound names, `[x for x in x]` with a captured x, metaclass
evaluated before bases, annotations, rebinding builtins) and function/class metadata.
"""
from __future__ import annotations

import itertools as IT

PRELUDE = '''
log = []
def P(tag, v=None):
    log.append(tag)
    return v
class Rec:
    """container that logs every item/attribute store and item load"""
    def __init__(self, name, items=None):
        object.__setattr__(self, "_n", name)
        object.__setattr__(self, "_d", dict(items or {}))
    @staticmethod
    def _k(k):
        if isinstance(k, slice):
            return ("slice", k.start, k.stop, k.step)
        if isinstance(k, tuple):
            return tuple(Rec._k(x) for x in k)
        return k
    def __getitem__(self, k):
        log.append(("get", self._n, Rec._k(k)))
        return self._d.get(Rec._k(k), 10)
    def __setitem__(self, k, v):
        log.append(("set", self._n, Rec._k(k), v if not isinstance(v, Rec) else v._n))
        self._d[Rec._k(k)] = v
    def __setattr__(self, a, v):
        log.append(("setattr", self._n, a, v if not isinstance(v, Rec) else v._n))
        object.__setattr__(self, a, v)
'''

NAMES = None  # compare all user globals


def _run(R, clause, programs, bound_text, opts=None, prelude=PRELUDE, limit=None):
    from suites import replay_util as RU
    n = 0
    for src in programs:
        if limit is not None and n >= limit:
            break
        n += 1
        rep = RU.replay_source(src, "same-globals", names=NAMES, opts=opts, prelude=prelude)
        if rep.get("reproduced"):
            R.bounded(clause, False, f"program #{n}: {src!r} under {rep.get('options')}: expected {str(rep.get('expected'))[:200]} observed {str(rep.get('observed'))[:300]} "
                      f"differing {str(rep.get('differing_globals'))[:400]}", replay=dict(kind="src", src=prelude + src, expect="same-globals"))
            return
        if rep.get("note"):
            R.bounded(clause, False, f"program #{n} is not a valid witness program (generator bug): {rep['note']}: {src!r}")
            return
    R.bounded(clause, True, f"{n} programs ({bound_text}); all agree with CPython under {len(opts) if opts else 8} option combinations")


TWO_OPTS = [("ast.unparse", "chain_call", "if_expr"), ("oneliner", "list", "short_circuit")]


# ----------------------------------------------------------------------------------------
# F1: assignment targets


def _slices():
    out = []
    for lo, hi, st in IT.product((None, "lo"), (None, "hi"), (None, "st")):
        f = lambda t: "" if t is None else f"P('{t}', 1)"
        out.append(f"{f(lo)}:{f(hi)}" + (f":{f(st)}" if st else ""))
    return out


def leaf_targets():
    """(target text, needs) -- side-effecting object/index expressions are probes"""
    yield "x"
    yield "o.a"
    yield "P('obj', o).a"
    yield "d[P('k', 1)]"
    yield "P('d', d)[P('k', 1)]"
    yield "d[1]"
    yield "d[()]"
    yield "d[P('i', 1), P('j', 2)]"
    yield "d[P('i', 1),]"
    for s in _slices():
        yield f"d[{s}]"
    for s in _slices()[:4]:
        yield f"d[P('i', 0), {s}]"
        yield f"d[{s}, {s}]"
    yield "d[..., P('i', 0)]"
    yield "o.b.c"
    yield "d[P('k', 1)][P('m', 2)]"
    yield "P('obj', o).b.c"


_BASE = "o = Rec('o')\no.b = Rec('ob')\nd = Rec('d', {1: Rec('d1')})\nx = 0\n"


def f1_single():
    for t in leaf_targets():
        yield _BASE + f"{t} = P('val', 5)\nr = (x, log)\n"
        yield _BASE + f"def f():\n    global x\n    {t} = P('val', 5)\nf()\nr = (x, log)\n"
        # in a function where the container and the name are captured by an inner function
        t2 = t.replace("d[", "dd[").replace("(d)", "(dd)").replace("'d', d", "'d', dd").replace("o.", "oo.").replace("'obj', o)", "'obj', oo)")
        yield _BASE + f"def f(dd, oo, x):\n    def g():\n        return dd, oo, x\n    {t2} = P('val', 5)\n    return g()[2]\nr = (f(d, o, 1), log)\n"


def f1_chained():
    ts = list(leaf_targets())
    pick = [ts[i] for i in (0, 1, 2, 4, 9, 11, 17)]
    for a, b in IT.product(pick, repeat=2):
        if a == b == "x":
            continue
        b2 = b.replace("'k'", "'k2'").replace("'d'", "'d2'").replace("'obj'", "'obj2'").replace("'lo'", "'lo2'").replace("'hi'", "'hi2'").replace("'st'", "'st2'").replace("'i'", "'i2'")
        yield _BASE + f"{a} = {b2} = P('val', 5)\nr = (x, log)\n"
    for a in pick:
        yield _BASE + f"{a} = y = z = P('val', [1])\nr = (x, y is z, log)\n"


def patterns(depth=2):
    """tuple/list patterns with <= 3 elements, <= 1 star, nesting <= depth; leaves n0, n1, ..."""
    counter = IT.count()

    def leaf():
        return f"n{next(counter)}"

    def gen(d):
        for n in (1, 2, 3):
            for star in [None] + list(range(n)):
                for nested in ([None] + list(range(n)) if d > 1 else [None]):
                    if nested is not None and nested == star:
                        continue
                    yield (n, star, nested)
    return list(gen(depth))


def render_pattern(n, star, nested, brackets, inner=(2, None, None)):
    names = []
    parts = []
    for i in range(n):
        if i == nested:
            m, s2, _ = inner
            sub = []
            for j in range(m):
                nm = f"m{j}"
                names.append(nm)
                sub.append(("*" if j == s2 else "") + nm)
            parts.append("(" + ", ".join(sub) + ("," if m == 1 else "") + ")")
        else:
            nm = f"n{i}"
            names.append(nm)
            parts.append(("*" if i == star else "") + nm)
    body = ", ".join(parts) + ("," if n == 1 and brackets != "[]" else "")
    txt = {"": body, "()": f"({body})", "[]": f"[{body}]"}[brackets]
    return txt, names


def value_for(n, star, nested, inner=(2, None, None), extra=0):
    """an iterable text that fits the pattern (with `extra` more elements for the star)"""
    vals = []
    k = 0
    for i in range(n):
        if i == star:
            for _ in range(extra):
                vals.append(str(100 + k)); k += 1
        elif i == nested:
            m, s2, _ = inner
            iv = [str(200 + j) for j in range(m + (1 if s2 is not None else 0))]
            vals.append(("iter([" if (n + m) % 2 else "[") + ", ".join(iv) + ("])" if (n + m) % 2 else "]"))  # nested values: lists and one-shot iterators
        else:
            vals.append(str(k)); k += 1
    return "[" + ", ".join(vals) + "]"


def f1_patterns():
    for (n, star, nested) in patterns(2):
        for br in ("", "()", "[]"):
            for inner in ((2, None, None), (2, 0, None), (1, None, None), (3, 1, None)):
                if nested is None and inner != (2, None, None):
                    continue
                t, names = render_pattern(n, star, nested, br, inner)
                for extra in ((0, 2) if star is not None else (0,)):
                    v = value_for(n, star, nested, inner, extra)
                    tup = "[" + ", ".join(names) + "]"
                    yield f"{t} = P('val', {v})\nr = {tup}\n"
                    yield f"{t} = iter(P('val', {v}))\nr = {tup}\n"
                    yield f"def f():\n    {t} = (q for q in P('val', {v}))\n    return {tup}\nr = f()\n"
                    # chained with a plain name afterwards and before
                    yield f"{t} = whole = P('val', {v})\nr = ({tup}, whole)\n"
                    yield f"whole = {t} = P('val', {v})\nr = ({tup}, whole)\n"
    # leaves that are attributes / subscripts, captured names, class body
    yield _BASE + "o.a, d[P('k', 1)], x = P('val', [1, 2, 3])\nr = (x, log)\n"
    yield _BASE + "(o.a, *d[P('lo', 0):P('hi', 2)]), x = P('val', [[1, 2, 3], 4])\nr = (x, log)\n"
    yield "def f(a):\n    def g():\n        return a, b\n    a, (b, *c) = P('val', [1, [2, 3, 4]])\n    return g(), c\nr = f(0)\n"
    yield "class K:\n    a, *b = P('val', [1, 2, 3])\n    (c, d), e = [b, 5]\nr = (K.a, K.b, K.c, K.d, K.e)\n"
    yield "def f():\n    global ga, gb\n    ga, (gb, gc) = 1, (2, 3)\n    return gc\nr = (f(), ga, gb)\n"
    yield "a, b = b, a = 1, 2\nr = (a, b)\n"
    yield "x = [0, 0]\ni, x[i] = 1, 5\nr = (i, x)\n"
    yield "s = 'ab'\n(a, b), c = s, s\nr = (a, b, c)\n"
    yield "[] = []\n() = ()\nr = 1\n"


# ----------------------------------------------------------------------------------------
# F2: augmented assignment

AUG_OPS = ["+", "-", "*", "@", "/", "//", "%", "**", "<<", ">>", "&", "^", "|"]

_AUG_PRE = '''
class N:
    """number-like without in-place methods"""
    def __init__(self, v):
        self.v = v
    def _b(self, o, s):
        log.append(s)
        return N((self.v, s, getattr(o, "v", o)))
''' + "".join(f"    def __{n}__(self, o):\n        return self._b(o, '{n}')\n" for n in
              ("add", "sub", "mul", "matmul", "truediv", "floordiv", "mod", "pow", "lshift", "rshift", "and", "xor", "or")) + '''
class I(N):
    """with in-place methods that return self"""
''' + "".join(f"    def __i{n}__(self, o):\n        log.append('i{n}')\n        self.v = (self.v, 'i{n}', getattr(o, 'v', o))\n        return self\n" for n in
              ("add", "sub", "mul", "matmul", "truediv", "floordiv", "mod", "pow", "lshift", "rshift", "and", "xor", "or")) + '''
class J(N):
    """in-place methods that return a NEW object"""
''' + "".join(f"    def __i{n}__(self, o):\n        log.append('i{n}')\n        return J((self.v, 'new', getattr(o, 'v', o)))\n" for n in
              ("add", "sub", "mul", "matmul", "truediv", "floordiv", "mod", "pow", "lshift", "rshift", "and", "xor", "or")) + '''
class U(N):
    """in-place method that declines"""
''' + "".join(f"    def __i{n}__(self, o):\n        log.append('i{n}-declined')\n        return NotImplemented\n" for n in
              ("add", "sub", "mul", "matmul", "truediv", "floordiv", "mod", "pow", "lshift", "rshift", "and", "xor", "or")) + '''
def show(x):
    return (type(x).__name__, x.v) if isinstance(x, N) else x
'''


def f2_aug():
    targets = ["x", "o.a", "P('obj', o).a", "d[P('k', 1)]", "P('d', d)[P('k', 1)]", "d[P('lo', 0):P('hi', 2)]", "d[P('i', 0), P('lo', 0):]", "d[P('k', 1)][P('m', 2)]"]
    for op in AUG_OPS:
        for cls in ("N", "I", "J", "U"):
            for t in targets:
                init = {"x": f"x = {cls}(1)\nalias = x\n", "o.a": f"o.a = {cls}(1)\nalias = o.a\n", "P('obj', o).a": f"o.a = {cls}(1)\nalias = o.a\n"}.get(t)
                if init is None:
                    init = f"alias = {cls}(1)\nd._d[1] = alias\nd._d[('slice', 0, 2, None)] = alias\nd._d[(0, ('slice', 0, None, None))] = alias\ninner = Rec('inner', {{2: alias}})\n"
                    if "[P('m', 2)]" in t:
                        init += "d._d[1] = inner\n"
                if cls == "U":
                    continue  # an in-place method that returns NotImplemented: listed finding (C13 witness), not part of this family
                src = _BASE + init + "del log[:]\n" + f"{t} {op}= P('val', 3)\n" + "r = (show(alias), show(x), log)\n"
                yield src.replace("del log[:]\n", "log.clear()\n")
    # plain numbers / lists / strings on names, in functions and classes
    for op, a, b in (("+", "[1]", "[2]"), ("*", "[1]", "2"), ("+", "'a'", "'b'"), ("**", "-2", "3"), ("//", "7.5", "2"), ("%", "'%s'", "(1,)"), ("|", "{1}", "{2}"), ("&", "{1, 2}", "{2}"),
                      ("-", "5", "7"), ("<<", "1", "4"), (">>", "64", "2"), ("^", "6", "3"), ("/", "1", "4"), ("@", "N(1)", "N(2)")):
        yield f"x = {a}\nalias = x\nx {op}= {b}\nr = (show(x), show(alias), x is alias)\n"
        yield f"def f():\n    x = {a}\n    alias = x\n    def g():\n        return x\n    x {op}= {b}\n    return show(x), show(alias), x is alias, show(g())\nr = f()\n"
        yield f"x = {a}\ndef f():\n    global x\n    x {op}= {b}\nf()\nr = show(x)\n"
        yield f"class K:\n    x = {a}\n    alias = x\n    x {op}= {b}\n    same = x is alias\nr = (show(K.x), show(K.alias), K.same)\n"
        yield f"def f():\n    x = {a}\n    def g():\n        nonlocal x\n        x {op}= {b}\n    g()\n    return show(x)\nr = f()\n"


# ----------------------------------------------------------------------------------------
# F3: function signatures and calls


def f3_functions():
    from suites.c03 import lambda_shapes
    calls = ["f()", "f(1)", "f(1, 2)", "f(1, 2, 3)", "f(1, 2, 3, 4, 5)", "f(a0=1)", "f(1, a1=2)", "f(p0=1)", "f(1, k0=2)", "f(k0=1, k1=2)", "f(1, 2, k1=3)", "f(1, z=9)",
             "f(*[1, 2], **{'k0': 3})", "f(1, 2, 3, k0=4, k1=5, z=6)", "f(a0=1, a1=2, k0=3, k1=4)", "f(k1=1)"]
    for (p, a, d, va, k, mask, ka) in lambda_shapes(2, 2, 2):
        params = [f"p{i}" for i in range(p)] + [f"a{i}" for i in range(a)]
        dflt = [None] * (len(params) - d) + [f"P('D{i}', 'd{i}')" for i in range(d)]
        parts = []
        for i, (nm, df) in enumerate(zip(params, dflt)):
            parts.append(nm + (f"={df}" if df else ""))
            if i == p - 1:
                parts.append("/")
        if va:
            parts.append("*va")
        elif k:
            parts.append("*")
        for i in range(k):
            parts.append(f"k{i}" + (f"=P('K{i}', 'kd{i}')" if mask[i] else ""))
        if ka:
            parts.append("**ka")
        allnames = params + (["va"] if va else []) + [f"k{i}" for i in range(k)] + (["ka"] if ka else [])
        body = "(" + ", ".join(allnames) + ("," if len(allnames) == 1 else "") + ")"
        src = f"def f({', '.join(parts)}):\n    return {body}\n"
        src += "res = []\n"
        src += "for c in (" + ", ".join(f"lambda: {c}" for c in calls) + "):\n    try:\n        res.append(c())\n    except TypeError:\n        res.append('TypeError')\n"
        # (try/except is not convertible: the call battery runs in the prelude-free tail below)
        yield (p, a, d, va, k, mask, ka), f"def f({', '.join(parts)}):\n    return {body}\n", calls


def run_f3(R, clause, limit=None):
    """the def is converted; the call battery runs natively on both results"""
    import random
    from olvc import extract
    from suites import replay_util as RU
    ol = extract.repo_module("oneliner")
    n = 0
    for shape, src, calls in f3_functions():
        if limit is not None and n >= limit:
            break
        n += 1
        for opts in RU.OPTS[::3] + [RU.OPTS[-1]]:
            random.seed(1)
            out = ol.convert_code_string(src, configs=RU._configs(*opts))
            g0, _, e0 = RU.run(src, "exec", PRELUDE)
            g1, _, e1 = RU.run(out, "eval", PRELUDE)
            if e0 or e1:
                R.bounded(clause, False, f"shape {shape}: {src!r}: original {e0}, converted {e1}")
                return
            if g0["log"] != g1["log"]:
                R.bounded(clause, False, f"shape {shape}: {src!r} under {opts}: defaults evaluated {g1['log']} instead of {g0['log']}")
                return
            for c in calls:
                outs = []
                for g in (g0, g1):
                    try:
                        outs.append(repr(eval(c, {"f": g["f"]})))  # noqa: S307
                    except TypeError:
                        outs.append("TypeError")
                if outs[0] != outs[1]:
                    R.bounded(clause, False, f"shape {shape}: {src!r} under {opts}: {c} gives {outs[1]} instead of {outs[0]}")
                    return
    R.bounded(clause, True, f"{n} signature shapes (<=2 positional-only, <=2 ordinary, <=2 keyword-only, all default counts/masks, */** or not) x {16} call shapes x 4 option sets")


# ----------------------------------------------------------------------------------------
# F8: every expression form inside scopes whose names live in cells / class dicts / globals

EXPRS = [
    "x + y * x", "-x ** 2", "not x or y and x", "x if y else z", "x < y <= z != x", "(x, y, *zs)", "[x, *zs, y]", "{x, y, *zs}", "{x: y, **{z: x}}",
    "fn(x, *zs, k=y, **{'m': z})", "fn(x)(y)", "obj.attr + obj.m(x)", "zs[x]", "zs[x:y]", "zs[::y]", "zs[x:y:z]", "mat[x, y]", "mat[x:y, z]", "mat[..., x]",
    "[q + x for q in zs]", "[q for q in zs if q > x]", "{q: x for q in zs}", "{q + y for q in zs}", "sum(q * x for q in zs)", "[[p + q + x for p in zs] for q in zs]",
    "[p + q for p in zs for q in range(p) if q < x]", "[(lambda: q + x)() for q in zs]", "(lambda q, w=x: q + w + y)(1)", "(lambda *a, k=y, **kw: (a, k, kw, x))(1, 2, m=3)",
    "(lambda: (lambda: x + y)())()", "f'{x}-{y!r:>{z}}-{zs[0]:03d}'", "f'{x + y=}'", "(w := x + 1) + w", "[w := x, w + y]", "[(v := q + x) for q in zs] + [v]",
    "x.__class__.__name__", "(x).real", "x @ x if False else y", "x // y + x % y", "x << y >> 1 | x & y ^ z", "~x", "+x", "x is y", "x is not None", "x in zs", "x not in zs",
    "'%s-%s' % (x, y)", "b'abc'[x]", "zs[-1]", "(yield_ := 3)", "...", "1_000 + 0x10 + 1e3 + 2j.imag", "'a' 'b' + str(x)", "print(x, y, sep='-')", "len(zs) + max(zs)",
    "sorted(zs, key=lambda q: -q * x)", "[*map(lambda q: q + x, zs)]", "dict(a=x, **{'b': y})", "{**{'a': x}, 'b': y}", "[x][0]", "(x,)[0]", "((x))", "x if x else y if y else z",
    "(lambda x: x + 1)(y)", "(lambda x=x: x)()", "[x for x in zs]", "[y for x in zs for y in range(x)]",
]

_F8_PRE = '''
class Obj:
    attr = 3
    def m(self, v):
        return v * 2
obj = Obj()
def fn(*a, **k):
    if a and not k and len(a) == 1:
        return lambda y: (a[0], y)
    return (a, sorted(k.items()))
class Mat:
    def __getitem__(self, k):
        return repr(k)
mat = Mat()
'''


def f8_scopes():
    for e in EXPRS:
        # module level
        yield f"x, y, z, zs = 2, 3, 1, [1, 2, 3]\nr = {e}\n"
        # function with all names captured and re-bound by an inner function (cell dict)
        yield (f"def f(x, y):\n    z = 1\n    zs = [1, 2, 3]\n    def g():\n        nonlocal z\n        z = z + 0\n        return x, y, zs\n    g()\n    x = x + 0\n    return {e}\nr = f(2, 3)\n")
        # names are globals declared in the function
        yield (f"x, y, z, zs = 2, 3, 1, [1, 2, 3]\ndef f():\n    global x, y\n    x = x + 0\n    return {e}\nr = f()\n")
        # method body reading names of the enclosing function
        yield (f"def f(x, y, z, zs):\n    class K:\n        def m(self):\n            return {e}\n    return K().m()\nr = f(2, 3, 1, [1, 2, 3])\n")
        # class body (names bound in the class body before use)
        if "for" not in e and "lambda" not in e:  # (class-scope names are invisible to nested scopes in Python too; keep the family simple)
            yield (f"class K:\n    x, y, z, zs = 2, 3, 1, [1, 2, 3]\n    r = {e}\nr = K.r\n")
        # lambda body / default (a walrus inside a lambda is refused by the converter: KeyError)
        if ":=" in e:
            continue
        yield (f"def f(x, y, z, zs):\n    def g():\n        return x\n    h = lambda: {e}\n    return h()\nr = f(2, 3, 1, [1, 2, 3])\n")


# ----------------------------------------------------------------------------------------
# groups


def g_f1(R, tier):
    _run(R, "bounded/enumerated-assignment-programs/single-target", f1_single(), "every leaf target shape (names, attributes, subscripts with all 8 slice forms, tuple indexes with slices) x module/function/captured")
    _run(R, "bounded/enumerated-assignment-programs/chained", f1_chained(), "7 x 7 target pairs and three-target chains", opts=TWO_OPTS)
    _run(R, "bounded/enumerated-assignment-programs/patterns", f1_patterns(), "tuple/list patterns: <=3 elements, <=1 star, one nested pattern, 3 bracket styles, list/iterator/generator values, chained with a name",
         opts=TWO_OPTS)


def g_f2(R, tier):
    _run(R, "bounded/enumerated-augmented-assignments", f2_aug(), "13 operators x 4 operand classes (no in-place method / returns self / returns new / declines) x 8 target shapes + builtin operand types in 5 scopes",
         opts=TWO_OPTS, prelude=PRELUDE + _AUG_PRE)


def g_f3(R, tier):
    run_f3(R, "bounded/enumerated-function-signatures")


def g_f8(R, tier):
    _run(R, "bounded/enumerated-expressions-in-scopes", f8_scopes(), f"{len(EXPRS)} expression forms x 6 scope placements (module, cell variables, globals, method, class body, lambda)",
         opts=TWO_OPTS, prelude=PRELUDE + _F8_PRE)


# ----------------------------------------------------------------------------------------
# F4: binding forms x inner scope kinds (C06)

BINDS = [  # (how `v` gets bound in the outer function, parameter list, call arguments)
    ("v = 1", "", ""), ("v = 0\n    v += 1", "", ""), ("(v := 1)", "", ""), ("pass", "v", "1"), ("pass", "*v", "1"), ("pass", "*, v=1", ""), ("pass", "**v", "k=1"),
    ("v, w = 1, 2", "", ""), ("[v, *w] = [1, 2, 3]", "", ""), ("import math as v", "", ""), ("from math import pi as v", "", ""),
    ("def v():\n        return 1", "", ""), ("class v:\n        a = 1", "", ""), ("if True:\n        v = 1", "", ""), ("[(v := q) for q in (1,)]", "", ""),
]
INNERS = [  # (definition of `probe` (a callable or value) in the outer function, expression that uses it)
    ("def probe():\n        return v", "probe()"),
    ("probe = lambda: v", "probe()"),
    ("class C:\n        a = v\n    probe = C", "probe.a"),
    ("class C:\n        def m(self):\n            return v\n    probe = C()", "probe.m()"),
    ("probe = [v for q in (1,)]", "probe[0]"),
    ("probe = [[v for p in (1,)] for q in (1,)]", "probe[0][0]"),
    ("def probe():\n        def deeper():\n            return v\n        return deeper()", "probe()"),
    ("def probe():\n        return [v for q in (1,)][0]", "probe()"),
    ("def probe():\n        return (lambda: v)()", "probe()"),
    ("probe = lambda a=v: a", "probe()"),
    ("def probe(a=v):\n        return a", "probe()"),
]
WRITERS = [
    "def bump():\n        nonlocal v\n        v = 2\n    bump()",
    "def bump():\n        nonlocal v\n        v2 = v\n        v = 2\n    bump()",
    "def bump():\n        def deeper():\n            nonlocal v\n            v = 2\n        deeper()\n    bump()",
    "class B:\n        def m(self):\n            nonlocal v\n            v = 2\n    B().m()",
    "v = 2",
    "(v := 2)",
    "[(v := q) for q in (2,)]",
    "",
]


_F4_PRE = '''
def show(x):
    import types
    if isinstance(x, types.ModuleType):
        return ("module", x.__name__)
    if isinstance(x, type):
        return ("class", getattr(x, "a", None))
    if callable(x):
        return ("call", x())
    return x
'''


def _show(v):
    return f"show({v})"


def f4_bindings():
    for (bind, params, args) in BINDS:
        for (inner, use) in INNERS:
            for wr in WRITERS:
                if wr and ("import" in bind or "def v" in bind or "class v" in bind) and False:
                    continue
                body = f"    {bind}\n    {inner}\n" + (f"    {wr}\n" if wr else "")
                res = f"({_show(use)}, {_show('v')})"
                yield f"def outer({params}):\n{body}    return {res}\nr = repr(outer({args}))\n"
    # module level: globals written from functions / class bodies / comprehensions
    for wr in ("def f():\n    global v\n    v = 2\nf()\n", "def f():\n    global v\n    v += 1\nf()\n", "def f():\n    def g():\n        global v\n        v = 2\n    g()\nf()\n",
               "class K:\n    global v\n    v = 2\n", "[(v := q) for q in (2,)]\n", "def f():\n    global v\n    [(v := q) for q in (2,)]\nf()\n", "def f():\n    global v\n    import math as v\nf()\nv = v.sqrt(4)\n",
               "def f():\n    global v\n    def v():\n        return 3\nf()\nv = v()\n", "def f():\n    global v\n    class v:\n        a = 4\nf()\nv = v.a\n"):
        for rd in ("def g():\n    return v\nr = (g(), v)\n", "class C:\n    a = v\nr = (C.a, v)\n", "r = ((lambda: v)(), [v for q in (1,)], v)\n"):
            yield "v = 1\n" + wr + rd
    # class level
    yield "class K:\n    v = 1\n    w = v + 1\n    def m(self):\n        return self.v, K.w\n    v += 1\nr = (K().m(), K.v)\n"
    yield "def outer():\n    v = 1\n    class K:\n        w = v\n        def m(self):\n            return v + self.w\n    v = 5\n    return K().m(), K.w\nr = outer()\n"
    yield "v = 1\nclass K:\n    v = 2\n    def m(self):\n        return v\nr = (K().m(), K.v, v)\n"
    yield "def outer(v):\n    class K:\n        v = 2\n        def m(self):\n            return v\n    return K().m(), K.v\nr = outer(1)\n"


# ----------------------------------------------------------------------------------------
# F6: class statements (C12)

_F6_PRE = '''
class M(type):
    def __new__(m, n, b, d, **k):
        c = super().__new__(m, n, b, d)
        c.kw = sorted(k.items())
        return c
    def __init__(c, n, b, d, **k):
        pass
class Base:
    base_attr = 'b'
    def who(self):
        return 'Base'
    @classmethod
    def cm(cls):
        return 'Base.cm:' + cls.tag()
    @classmethod
    def tag(cls):
        return 'T'
    def __init_subclass__(cls, **kw):
        cls.isc = sorted(kw.items())
class Mixin:
    def who(self):
        return 'Mixin>' + super().who()
def deco1(c):
    c.d1 = getattr(c, 'd2', 'no') + '+1'
    return c
def deco2(c):
    c.d2 = 'two'
    return c
'''

MEMBERS = [
    "    x = 1\n",
    "    x = 1\n    y = x + 1\n    def m(self):\n        return self.x + self.y\n",
    "    @staticmethod\n    def s(v):\n        return v + 1\n    @classmethod\n    def c(cls):\n        return cls.__mro__[0] is cls\n    @property\n    def p(self):\n        return 7\n",
    "    def who(self):\n        return 'K>' + super().who()\n",
    "    def who(self):\n        return 'K2>' + super(K, self).who()\n",
    "    @classmethod\n    def cm(cls):\n        return 'K.cm>' + super().cm()\n",
    "    class Inner:\n        z = 3\n        def m(self):\n            return K.__mro__[0] is K\n    inner = Inner()\n",
    "    if base_flag:\n        x = 'yes'\n    else:\n        x = 'no'\n    total = 0\n    n = 0\n    while n < 3:\n        n += 1\n        total += n\n",
    # (a function nested in a method that names `super` is refused by the converter with an AssertionError: CPython gives such a
    #  function an implicit free `__class__`; a refusal is not a mistranslation, so the shape is left out of the family)
    "    def m(self):\n        def helper():\n            return self.who() if hasattr(self, 'who') else 'none'\n        return helper()\n",
    "    def __init__(self, v=3):\n        self.v = v\n    def __eq__(self, o):\n        return self.v == o.v\n    def __hash__(self):\n        return self.v\n",  # (no __slots__: consumed from the namespace at class creation, out of the property's reach like the other creation-time hooks)
    "    def K(self):\n        return 'method-named-like-the-class'\n",
    "    x = [q * 2 for q in range(3)]\n    f = lambda self, n=3: n\n",
]


def f6_classes():
    headers = []
    for bases in ("", "Base", "Mixin, Base"):
        for meta in ("", "metaclass=M"):
            for kw in ("", "flag=1"):
                if kw and not (meta or "Base" in bases):
                    continue  # object.__init_subclass__ takes no keywords
                if meta and kw and "Base" in bases:
                    continue  # M swallows the keywords before __init_subclass__ (valid, but keep one consumer)
                args = ", ".join(a for a in (bases, meta, kw) if a)
                headers.append(f"({args})" if args else "")
    for h in headers:
        for decs in ("", "@deco1\n", "@deco1\n@deco2\n"):
            for mem in MEMBERS:
                if ("super()" in mem or "super(K" in mem) and "Base" not in h:
                    continue
                src = "base_flag = True\n" + decs + f"class K{h}:\n" + mem
                src += ("def describe(c):\n    o = c() if not isinstance(c, type(None)) else None\n    out = [[k.__name__ for k in c.__mro__], type(c).__name__]\n"
                        "    out.append(sorted((k, repr(v) if not callable(v) and not isinstance(v, (staticmethod, classmethod, property, type)) else 'callable') "
                        "for k, v in vars(c).items() if not (k.startswith('__') and k.endswith('__')) and k not in ('inner',)))\n"
                        "    for nm in ('who', 'm', 'p', 'cm', 'K'):\n        a = getattr(o, nm, None)\n        out.append((nm, a() if callable(a) else a))\n"
                        "    out.append((getattr(c, 'kw', None), getattr(c, 'isc', None), getattr(c, 'd1', None), getattr(c, 'd2', None)))\n"
                        "    out.append(c.s(1) if hasattr(c, 's') else None)\n    out.append(c.c() if hasattr(c, 'c') else None)\n"
                        "    out.append(o.inner.m() if hasattr(o, 'inner') else None)\n    return out\n"
                        "r = describe(K)\n")
                yield src
    # classes in functions / nested / bound in cells
    yield "def mk():\n    class A:\n        def m(self):\n            return A\n    return A\nA = mk()\nr = A().m() is A\n"
    yield "def mk(n):\n    class A:\n        size = n\n        def m(self):\n            return n + self.size\n    def g():\n        return A\n    return g()\nr = mk(3)().m()\n"
    yield "class A:\n    class B:\n        class C:\n            v = 1\n        w = C.v + 1\nr = (A.B.C.v, A.B.w)\n"
    yield "class A:\n    def m(self):\n        return __class__ is A\nr = A().m()\n"


# ----------------------------------------------------------------------------------------
# F7: imports over a vendored package (C14)


def run_f7(R, clause):
    import os
    import shutil
    import sys
    import tempfile
    from suites import replay_util as RU
    d = tempfile.mkdtemp(prefix="olimp7_")
    try:
        pk = os.path.join(d, "olpkg_w")
        os.makedirs(os.path.join(pk, "sub", "deep"))
        log = "import builtins\nbuiltins.__dict__.setdefault('_ol_import_log', []).append(__name__)\n"
        open(os.path.join(pk, "__init__.py"), "w").write(log + "top = 1\n")
        open(os.path.join(pk, "mod.py"), "w").write(log + "value = 2\n")
        open(os.path.join(pk, "other.py"), "w").write(log + "ov = 5\n")
        open(os.path.join(pk, "sub", "__init__.py"), "w").write(log + "subv = 3\n")
        open(os.path.join(pk, "sub", "leaf.py"), "w").write(log + "leafv = 4\n")
        open(os.path.join(pk, "sub", "deep", "__init__.py"), "w").write(log + "deepv = 6\n")
        open(os.path.join(pk, "sub", "deep", "bottom.py"), "w").write(log + "bv = 7\n")
        sys.path.insert(0, d)
        forms = [  # (statement, expression over the bound names)
            ("import olpkg_w", "olpkg_w.top"), ("import olpkg_w.mod", "(olpkg_w.top, olpkg_w.mod.value)"), ("import olpkg_w.sub.leaf", "olpkg_w.sub.leaf.leafv"),
            ("import olpkg_w.sub.deep.bottom", "olpkg_w.sub.deep.bottom.bv"), ("import olpkg_w.mod as m", "m.value"), ("import olpkg_w.sub.leaf as l", "l.leafv"),
            ("import olpkg_w.sub.deep.bottom as b", "b.bv"), ("import olpkg_w.mod, olpkg_w.sub.leaf as l2, olpkg_w.other", "(olpkg_w.mod.value, l2.leafv, olpkg_w.other.ov)"),
            ("import olpkg_w.sub.leaf as l3, olpkg_w.mod as m3", "(l3.leafv, m3.value)"), ("from olpkg_w import top", "top"), ("from olpkg_w import mod", "mod.value"),
            ("from olpkg_w import mod as m4", "m4.value"), ("from olpkg_w import mod as m5, top as t5, other", "(m5.value, t5, other.ov)"), ("from olpkg_w.sub import leaf as l6, subv", "(l6.leafv, subv)"),
            ("from olpkg_w.sub.deep import bottom as b7, deepv as d7", "(b7.bv, d7)"), ("from olpkg_w.sub.deep.bottom import bv", "bv"),
            ("from . import leaf as rl", "rl.leafv"), ("from .leaf import leafv as rv", "rv"), ("from .. import mod as rm, top as rt", "(rm.value, rt)"), ("from ..other import ov as ro", "ro"),
            ("from .deep import bottom as rb", "rb.bv"), ("from .deep.bottom import bv as rbv", "rbv"), ("from . import deep", "deep.deepv"),
        ]
        scopes = [
            lambda st, ex: f"{st}\nr = {ex}\n",
            lambda st, ex: f"def f():\n    {st}\n    return {ex}\nr = f()\n",
            lambda st, ex: f"def f():\n    {st}\n    def g():\n        return {ex}\n    return g()\nr = f()\n",
            lambda st, ex: f"class K:\n    {st}\n    val = {ex}\nr = K.val\n",
            lambda st, ex: f"if True:\n    {st}\nr = {ex}\n",
            lambda st, ex: f"for _q in (1, 2):\n    {st}\nr = {ex}\n",
        ]
        pre = ("import builtins, sys\nbuiltins._ol_import_log = []\n[sys.modules.pop(k) for k in [k for k in sys.modules if k.startswith('olpkg_w')]]\n"
               "__package__ = 'olpkg_w.sub'\n")
        n = 0
        for st, ex in forms:
            for sc in scopes:
                src = sc(st, ex) + "ilog = list(__import__('builtins')._ol_import_log)\n"
                n += 1
                rep = RU.replay_source(src, "same-globals", names=["r", "ilog"], prelude=pre, opts=TWO_OPTS)
                if rep.get("reproduced") or rep.get("note"):
                    R.bounded(clause, False, f"program #{n}: {src!r}: {str({k: v for k, v in rep.items() if k not in ('source', 'output')})[:700]}")
                    return
        R.bounded(clause, True, f"{n} programs ({len(forms)} import forms incl. relative levels 1-2 x {len(scopes)} placements) over a vendored package tree; bound objects and import log agree")
    finally:
        if d in sys.path:
            sys.path.remove(d)
        for k in [k for k in sys.modules if k.startswith("olpkg_w")]:
            del sys.modules[k]
        shutil.rmtree(d, ignore_errors=True)


def g_f4(R, tier):
    _run(R, "bounded/enumerated-binding-forms", f4_bindings(), f"{len(BINDS)} binding forms x {len(INNERS)} inner scopes x {len(WRITERS)} later writers, + module/class level forms", opts=TWO_OPTS,
         prelude=PRELUDE + _F4_PRE)


def g_f6(R, tier):
    _run(R, "bounded/enumerated-class-statements", f6_classes(), "bases x metaclass x keyword x 0-2 decorators x 12 member sets + classes in functions", opts=TWO_OPTS, prelude=PRELUDE + _F6_PRE)


def g_f7(R, tier):
    run_f7(R, "bounded/enumerated-import-forms")
