"""Extra groups of the THOROUGH tier: bounded native stand-ins (never counted as proved),
the interpreter-vs-CPython cross-check and the validation of the trusted specs against
CPython.  A failure of a stand-in is a violation with a concrete input; a failure of the
cross-check or of the spec validation is a CHECKER ERROR (an alarm or a pass could be the
machinery's fault)."""
from __future__ import annotations

import ast
import glob
import itertools
import os
import random

from olvc import extract
from olvc.oblig import ERROR


def only_thorough(fn):
    def g(R, tier):
        if tier != "thorough":
            R.bounded("thorough-tier-only", True, "runs in the thorough tier")
            return
        fn(R, tier)
    return g


def bounded_from_replay(name, replay_fn, rp=None):
    @only_thorough
    def g(R, tier):
        rep = replay_fn(dict(rp or {}))
        R.bounded(name, not rep.get("reproduced"), str({k: v for k, v in rep.items() if k != "source"})[:600],
                  replay=None)
    return g


@only_thorough
def g_crosscheck(R, tier):
    """the whole of convert_code_string run through the olvc interpreter on concrete inputs
    must equal the native result (same RNG seed), for the project's own test scripts and a
    corpus, under all 8 option combinations"""
    from olvc.evaluator import Machine
    from olvc.runner import explore
    ol = extract.repo_module("oneliner")
    cfgm = extract.repo_module("oneliner.config")
    files = sorted(glob.glob(os.path.join(extract.REPO, "oneliner_tests", "test_cases", "*.py")))
    corpus = [open(f, encoding="utf8").read() for f in files]
    corpus += ["class A:\n    f = lambda self, n=3: n\n    x = [i for i in range(2)]\n", "import os.path, json as J\nfrom os import sep as s\n",
               "def f(a, /, b=1, *c, d, e=2, **g):\n    return a\n", "x = f'{1!r:>{2}}' + f'{ {1: 2}[1] }'\na, *b = 1, 2, 3\n"]
    n = 0
    for src in corpus:
        for u, w, i in itertools.product(["ast.unparse", "oneliner"], ["list", "chain_call"], ["if_expr", "short_circuit"]):
            def mk():
                c = cfgm.Configs()
                c.unparser, c.expr_wrapper, c.if_style = u, w, i
                return c
            random.seed(7)
            try:
                native = ol.convert_code_string(src, configs=mk())
            except Exception as e:  # noqa: BLE001
                native = ("raise", type(e).__name__)

            def run(c):
                random.seed(7)
                m = Machine()
                return m.call_value(ol.convert_code_string, src, configs=mk())
            ps = explore(run)
            got = ps[0].value if len(ps) == 1 and ps[0].kind == "ok" else ("raise", type(ps[0].value).__name__) if len(ps) == 1 and ps[0].kind == "raise" else ("engine", repr(ps))
            # the counter in unique_id advances on both runs: compare up to temporaries
            import re
            norm = lambda t: re.sub(r"__ol_([a-z]+)_[a-z0-9]+", r"__ol_\1_N", t) if isinstance(t, str) else t
            n += 1
            if norm(got) != norm(native):
                R._add(f"interpreter-vs-cpython/{n}", ERROR, "crosscheck", f"options {u}/{w}/{i}: interpreted {str(got)[:200]!r} != native {str(native)[:200]!r}")
                return
    R.bounded("interpreter-vs-cpython", True, f"{n} whole conversions interpreted by olvc equal the native result")


@only_thorough
def g_spec_validate_grammar(R, tier):
    """spec/pygrammar against CPython's parser: wherever the spec ADMITS a child kind bare in a
    slot, the text rendered from the spec's own productions must parse back to the tree"""
    import sys
    from contracts import c_expr_unparse as CU
    from olvc import sym
    from olvc.sym import Ctx
    from spec import pygrammar as G, samples
    from olvc.tmpl import as_tmpl

    def render(node):
        """concrete text from the SPEC productions, children bare"""
        if isinstance(node, ast.Constant):
            return repr(node.value) if node.value is not Ellipsis else "..."
        if isinstance(node, (ast.JoinedStr, ast.Lambda, ast.FormattedValue, ast.ListComp, ast.SetComp, ast.DictComp)):
            return ast.unparse(node)  # kinds whose production needs symbolic scaffolding: CPython's text
        if isinstance(node, ast.GeneratorExp):
            return ast.unparse(node)[1:-1]  # bare
        saved = CU.TX
        CU.TX = render
        try:
            t = CU.production(node)
        finally:
            CU.TX = saved
        t = t[0] if isinstance(t, list) else t
        parts = as_tmpl(t).parts if not isinstance(t, str) else [t]
        out = []
        for p in parts:
            if isinstance(p, str):
                out.append(p)
            else:
                from olvc.tmpl import Join
                if isinstance(p, Join):
                    sep = "".join(x for x in p.sep.parts)
                    out.append(sep.join(x if isinstance(x, str) else "".join(as_tmpl(x).parts) for x in p.items))
                else:
                    raise TypeError(p)
        return "".join(out)
    c = Ctx()
    sym.set_ctx(c)
    bad, n = [], 0
    try:
        labels = ["Attribute.value", "Subscript.value", "Call.func", "Call.args", "Call.args[sole]", "keyword.value", "Starred.value", "BinOp.left", "BinOp.right",
                  "UnaryOp.operand", "BoolOp.values", "Compare.left", "Compare.comparators", "IfExp.test", "IfExp.body", "IfExp.orelse", "List.elts", "Tuple.elts",
                  "Set.elts", "Dict.keys", "Dict.values", "Dict.values[double_star]", "comprehension.iter", "comprehension.ifs", "ListComp.elt", "DictComp.key",
                  "NamedExpr.value", "Yield.value", "YieldFrom.value", "Await.value", "Slice.lower", "Subscript.slice"]
        parents = {"BinOp.left": [f"BinOp.{o.__name__}" for o in G.BINOP_LEVEL], "BinOp.right": [f"BinOp.{o.__name__}" for o in G.BINOP_LEVEL],
                   "UnaryOp.operand": [f"UnaryOp.{o.__name__}" for o in G.UNARY_LEVEL], "BoolOp.values": [f"BoolOp.{o.__name__}" for o in G.BOOL_LEVEL]}
        for label in labels:
            for parent in parents.get(label, [label.split(".")[0]]):
                for kname, kcls, kop in G.kinds():
                    if kcls in G.UNPARENABLE or kname in ("Yield", "YieldFrom"):
                        continue
                    try:
                        child = samples.child_sample(kname)
                        node = samples.make_parent(parent, label, child)
                    except (KeyError, IndexError):
                        continue
                    pcls = type(node)
                    field, case = label.split(".")[1], None
                    if "[" in field:
                        field, case = field.split("[")[0], field.split("[")[1].rstrip("]")
                    op = type(node.op) if hasattr(node, "op") and not isinstance(node, ast.Compare) else None
                    pc = ast.keyword if label == "keyword.value" else ast.comprehension if label.startswith("comprehension.") else pcls
                    try:
                        slot = G.slot(pc, field, op=op, case=case)
                    except KeyError:
                        continue
                    if not G.admits(slot, kcls, kop):
                        continue
                    if label == "Attribute.value" and kname == "Constant":
                        continue  # digits before '.': governed by the gluing obligation, not by the ladder
                    if isinstance(node, (ast.ListComp, ast.SetComp, ast.DictComp, ast.GeneratorExp, ast.Lambda)) and not label.startswith(("comprehension", "ListComp", "DictComp")):
                        pass
                    n += 1
                    try:
                        text = "(" + render(node) + ")"  # the parent itself stands in a group
                        back = ast.parse(text, mode="eval").body
                        ok = samples.norm_dump(back) == samples.norm_dump(node)
                    except Exception as e:  # noqa: BLE001
                        ok, text = False, f"<{type(e).__name__}: {e}>"
                    if not ok:
                        bad.append((label, parent, kname, text))
    finally:
        sym.set_ctx(None)
    if bad:
        R._add("spec-validation/pygrammar-admits-is-sound", ERROR, "spec", f"{len(bad)} of {n} admitted (slot, kind) pairs do not round-trip through CPython's parser: {bad[:5]}")
    else:
        R.bounded("spec-validation/pygrammar-admits-is-sound", True, f"{n} admitted (slot, kind) pairs rendered from the spec productions parse back to the same tree")
