"""C06 -- every name resolves to the same variable after lowering of scopes.

  birthplace/*   NamespaceFunction.__init__ / NamespaceClass.__init__: for a free name the map
                 points to the nearest enclosing FUNCTION scope in which the name is local,
                 for all flag valuations the symtable axioms allow (z3), classes skipped,
                 any number of intermediate scopes (per-scope step: the search test must be
                 false on intermediates and true at the binding scope)
  access/*       get_assign / get_load_name of the three namespace classes against the
                 location table of Python's scoping rules; store and load agree
  transform/*    ExpressionTransformer: dispatch, generic copy (every expr child once, in
                 field order, input not mutated), Name, NamedExpr, comprehensions
  walk/*         generate_nsp: generic steps of the symtable walk
  seeding/*      captured parameters are copied into the cell dict before the body runs
"""
from __future__ import annotations

import ast
import sys

import z3

from contracts import c_lowering as CL
from olvc import extract, ops, sym
from olvc.evaluator import Machine
from olvc.interp import Frame, HFn, IRaise, IStop, ifunc_of
from olvc.oblig import paths_or_undecided
from olvc.runner import explore
from olvc.sym import Opaque, Seg, SInt, Unsupported, ctx, mk_bool, tagstr
from olvc.tmpl import Hole
from spec import target_lang as TL
from suites import c13

PROPERTY = "C06"
HOSTS = ["3.12", "3.11"]
LEVEL = "proof"
TRUSTED_BASE = [
    "spec: Python name resolution (Language Reference 4.2.2): local -> this scope; free -> nearest enclosing function scope where the name is local, class scopes skipped; global -> module",
    "assumed symtable axioms (validated natively on 3.11 and 3.12): for a function scope exactly one of is_local/is_free/is_global; parameter => local; declared nonlocal => free; is_assigned/is_imported say nothing about the scope class; a free name has a binding function scope above it and is free in every function scope in between",
    "reading of the access forms: plain Name / walrus = local or (in a lambda, unbound) global lookup; D['x'] / D.__setitem__('x', v) with D a cell-dict or class-dict name = that cell; globals().__setitem__ = module variable",
    "olvc interpreter; z3",
]
ASSUMPTIONS = ["class-body loads are resolved statically by the code although Python resolves them dynamically (class dict, then globals): listed finding", "lambda parameters and for-loop targets are outside the namespace machinery: listed findings"]
EXPLANATION = "symbolic execution of the real namespace constructors and access functions over symbolic symbol flags constrained by the symtable axioms; z3 for the flag case analysis"

NS = lambda: CL.nsmod()


def native_finding(R, clause, what, src):
    """An obligation the contracts cannot express (the code has no place where it could
    hold): decided by its witness program against the REAL converter -- fails as long as
    the witness reproduces, and is discharged (exhaustive over the one witness) once the
    converter handles it.  Listed in KNOWN_FINDINGS.txt while it fails."""
    from suites import replay_util as RU
    rep = RU.replay_source(src, "same-globals")
    if rep.get("reproduced"):
        R.fail(clause, what + f"; witness: {src!r}: {str(rep.get('observed'))[:200]}", replay=dict(kind="src", src=src, expect="same-globals"), backend="witness")
    else:
        R.bounded(clause, True, "witness program converts correctly now")


# ----------------------------------------------------------------------------------------
# symbolic symbols and scopes

FLAGS = ("local", "free", "glob", "assigned", "param", "declared_global", "nonlocal_", "imported")


def mk_symbol(tag):
    f = {k: z3.Bool(f"{tag}.{k}") for k in FLAGS}
    c = ctx()
    # symtable axioms
    c.assume(z3.PbEq([(f["local"], 1), (f["free"], 1), (f["glob"], 1)], 1))
    c.assume(z3.Implies(f["param"], f["local"]))
    c.assume(z3.Implies(f["nonlocal_"], f["free"]))
    c.assume(z3.Implies(f["declared_global"], f["glob"]))
    c.assume(z3.Implies(f["imported"], z3.Not(f["free"])))
    c.assume(z3.Implies(f["local"], z3.Or(f["assigned"], f["param"], f["imported"])))
    meth = {
        "is_local": lambda o: mk_bool(f["local"]), "is_free": lambda o: mk_bool(f["free"]), "is_global": lambda o: mk_bool(f["glob"]),
        "is_assigned": lambda o: mk_bool(f["assigned"]), "is_parameter": lambda o: mk_bool(f["param"]),
        "is_declared_global": lambda o: mk_bool(f["declared_global"]), "is_nonlocal": lambda o: mk_bool(f["nonlocal_"]),
        "is_imported": lambda o: mk_bool(f["imported"]), "get_name": lambda o: "x", "is_referenced": lambda o: True,
    }
    return Opaque(tag, object, methods=meth), f


def mk_symt(tag, name="f", symbols=None, frees=(), nonlocals=(), methods=(), kind="function"):
    symbols = symbols or {}

    def lookup(o, n):
        if n in symbols:
            return symbols[n]
        raise IRaise(KeyError(n))
    return Opaque((tag, "symt"), object, methods=dict(
        lookup=lookup, get_name=lambda o: name, get_frees=lambda o: list(frees), get_nonlocals=lambda o: list(nonlocals),
        get_methods=lambda o: tuple(methods), get_symbols=lambda o: list(symbols.values()), get_lineno=lambda o: 1,
        get_type=lambda o: kind))


def mk_scope(tag, kind, symbols=None, **over):
    ns = NS()
    cls = {"function": ns.NamespaceFunction, "class": ns.NamespaceClass, "global": ns.NamespaceGlobal}[kind]
    f = dict(symt=mk_symt(tag, symbols=symbols, kind=kind), inner_nsp=[], inner_nonlocal_names=set(), nonlocal_parameters=set(),
             outer_nonlocal_map={}, nonlocal_dict_expr=ast.Name(id=Hole(("celldict", tag), "ident", fresh=True)),
             class_member_dict_expr=ast.Name(id=Hole(("classdict", tag), "ident", fresh=True)), loop_stack=[], comp_stack=[],
             shadowed_global_names=set())   # (the non-trivial case: g_declared_global_under_a_shadow, real constructors)
    f.update(over)
    return Opaque(tag, None, cands=frozenset([cls]), fields=f, setattr=CL._setattr_field)


def stubs():
    return CL.base_stubs()


# ----------------------------------------------------------------------------------------
def g_birthplace(R, tier):
    ns = NS()
    for new_kind in ("function", "class"):
        for mid_kind in ("none", "function", "class"):
            def run(c):
                m = Machine(stubs=stubs())
                sB, fB = mk_symbol("B.x")
                # B is the binding scope: x is local there
                c.assume(fB["local"])
                B = mk_scope("B", "function", {"x": sB})
                stack = [mk_scope("G", "global"), B]
                fX = None
                if mid_kind == "function":
                    sX, fX = mk_symbol("X.x")
                    c.assume(fX["free"])  # axiom: free in every function scope in between
                    stack.append(mk_scope("X", "function", {"x": sX}))
                elif mid_kind == "class":
                    sX, fX = mk_symbol("X.x")
                    stack.append(mk_scope("X", "class", {"x": sX}))
                sT, fT = mk_symbol("T.x")
                c.assume(fT["free"])
                symt = mk_symt("T", symbols={"x": sT}, frees=["x"], nonlocals=[], kind=new_kind)
                cls = ns.NamespaceFunction if new_kind == "function" else ns.NamespaceClass
                obj = m.call_value(cls, symt, stack)
                return dict(obj=obj, B=B, stack=stack, fB=fB, fX=fX)
            paths = explore(run)
            cname = "NamespaceFunction" if new_kind == "function" else "NamespaceClass"
            nm = f"namespaces.{cname}.__init__[intermediate={mid_kind}]"
            if not paths_or_undecided(R, nm + "/paths", paths):
                continue
            for p in paths:
                sig = p.ctx.signature()
                rp = dict(kind="scope", facts=sig, mid=mid_kind, new=new_kind)
                if p.kind == "raise":
                    R.fail(f"{nm}/binding-scope-found/{sig}", f"raises {p.value!r} although the name is local in an enclosing function", replay=rp)
                    continue
                if p.kind != "ok":
                    continue
                v = p.value
                obj, B = v["obj"], v["B"]
                got = obj.outer_nonlocal_map.get("x")
                R.check(f"{nm}/free-name-maps-to-the-nearest-function-where-it-is-local/{sig}", got is B,
                        f"mapped to {got!r}, Python resolves it in B (flags on this path: {sig})", backend="z3", replay=rp)
                if got is B:
                    R.check(f"{nm}/binding-scope-keeps-the-name-in-its-cell-dict/{sig}", "x" in B.fields["inner_nonlocal_names"], repr(B.fields["inner_nonlocal_names"]))
                    is_param, _ = p.ctx.valid(v["fB"]["param"])
                    not_param, _ = p.ctx.valid(z3.Not(v["fB"]["param"]))
                    inp = "x" in B.fields["nonlocal_parameters"]
                    # (if the path does not decide the flag, any fixed answer is wrong for one valuation)
                    R.check(f"{nm}/captured-parameter-is-seeded-iff-it-is-a-parameter/{sig}", (inp and is_param) or (not inp and not_param),
                            f"nonlocal_parameters={B.fields['nonlocal_parameters']!r}; parameter flag on this path: {'true' if is_param else 'false' if not_param else 'undecided'}",
                            backend="z3", replay=dict(kind="scope"))
                R.check(f"{nm}/registered-as-child-of-the-enclosing-namespace/{sig}", v["stack"][-1].fields["inner_nsp"] == [obj], repr(v["stack"][-1].fields["inner_nsp"]))


def g_namespace_isolation(R, tier):
    """every namespace object owns its loop stack, comprehension stack and child list: a
    `def`/class inside a loop starts with NO enclosing loop (break/continue/return placement,
    C05/C08), and state never leaks between namespaces or conversions (C10)"""
    from olvc import frames
    import symtable as ST
    ns = NS()
    pre = frames.preexisting()
    for kind in ("global", "function", "class"):
        def run(c):
            m = Machine(stubs=stubs())
            if kind == "global":
                objs = [m.call_value(ns.NamespaceGlobal, ST.symtable("", "<h>", "exec"), []) for _ in range(2)]
            else:
                cls = ns.NamespaceFunction if kind == "function" else ns.NamespaceClass
                objs = []
                for i in range(2):
                    symt = mk_symt(f"T{i}", symbols={}, frees=[], nonlocals=[], kind=kind)
                    objs.append(m.call_value(cls, symt, [mk_scope("G", "global")]))
            return dict(objs=objs, fresh=set(c.fresh_objs))
        for p in explore(run):
            nm = f"namespaces.Namespace.__init__[{kind}]"
            if p.kind != "ok":
                R.fail(nm + "/no-unexpected-raise", repr(p.value))
                continue
            a, b = p.value["objs"]
            for attr in ("loop_stack", "comp_stack", "inner_nsp"):
                la, lb = getattr(a, attr, None), getattr(b, attr, None)
                ok = isinstance(la, list) and isinstance(lb, list) and la == [] and lb == [] and la is not lb and id(la) not in pre and id(lb) not in pre \
                    and id(la) in p.value["fresh"]
                R.check(f"{nm}/owns-a-fresh-empty-{attr}", ok,
                        f"{attr}: {'shared between namespace objects' if la is lb else ''} {'class/module-level object ' + pre.get(id(la), '') if id(la) in pre else ''}",
                        replay=dict(kind="src", src="log = []\nfor i in range(3):\n    def f():\n        for j in range(2):\n            if j:\n                return j\n        return 0\n    log.append(f())\nelse:\n    log.append('else')\n", expect="same-globals"))
            # every mutable container reachable as an attribute -- instance attributes AND
            # class-level fallbacks (annotated or assigned on the class or a base) -- belongs
            # to this object alone: created by its constructor, not shared with the class, a
            # module or the sibling object
            names = set(vars(a)) | set(vars(b))
            for k_ in type(a).__mro__:
                if (getattr(k_, "__module__", "") or "").startswith("oneliner"):
                    names |= set(getattr(k_, "__annotations__", {})) | {n_ for n_, v_ in vars(k_).items() if not callable(v_) and not n_.startswith("__")}
            shared = []
            for n_ in sorted(names):
                va, vb = getattr(a, n_, None), getattr(b, n_, None)
                if isinstance(va, (list, dict, set)) and not isinstance(va, type):
                    if va is vb:
                        shared.append(f"{n_}: one object for both namespaces")
                    elif id(va) in pre:
                        shared.append(f"{n_}: {pre[id(va)]}")
            R.check(f"{nm}/every-mutable-container-attribute-is-owned-by-the-instance", not shared, "; ".join(shared),
                    replay=dict(kind="history-pairs"))


def g_method_super(R, tier):
    """a method that uses zero-argument super() has the implicit free name __class__; its
    other free names must still be resolved (in either order of the free-name list)"""
    ns = NS()
    for order in (("__class__", "x"), ("x", "__class__")):
        def run(c):
            m = Machine(stubs=stubs())
            sB, fB = mk_symbol("B.x")
            c.assume(fB["local"])
            B = mk_scope("B", "function", {"x": sB})
            sC, fC = mk_symbol("C.x")
            C = mk_scope("C", "class", {"x": sC})
            C.fields["symt"].props["methods"]["get_methods"] = lambda o: ("m",)
            sT, fT = mk_symbol("T.x")
            c.assume(fT["free"])
            symt = mk_symt("T", name="m", symbols={"x": sT}, frees=list(order), kind="function")
            obj = m.call_value(ns.NamespaceFunction, symt, [mk_scope("G", "global"), B, C])
            return dict(obj=obj, B=B)
        paths = explore(run)
        nm = f"namespaces.NamespaceFunction.__init__[method-with-super,frees={'+'.join(order)}]"
        if not paths_or_undecided(R, nm + "/paths", paths):
            continue
        for p in paths:
            sig = p.ctx.signature()
            rp = dict(kind="src", src="class P:\n    def m(self):\n        return 1\ndef outer():\n    x = 5\n    y = 6\n    class A(P):\n        def m(self):\n            return super().m() + x + y\n    return A().m()\nr = outer()\n", expect="same-globals")
            if p.kind != "ok":
                R.fail(f"{nm}/no-unexpected-raise/{sig}", repr(p.value), replay=rp)
                continue
            obj = p.value["obj"]
            R.check(f"{nm}/zero-argument-super-detected/{sig}", obj.is_method is True and obj.zero_arg_super_used is True, f"is_method={obj.is_method} super={obj.zero_arg_super_used}")
            R.check(f"{nm}/other-free-names-still-resolved/{sig}", obj.outer_nonlocal_map.get("x") is p.value["B"] and "__class__" not in obj.outer_nonlocal_map,
                    f"outer_nonlocal_map={obj.outer_nonlocal_map!r}", replay=rp)


# ----------------------------------------------------------------------------------------
# location table (Language Reference 4.2.2 + reading of the access forms)


def loc_of_store(e, c):
    """location written by a store form; value term ignored"""
    if isinstance(e, ast.NamedExpr) and isinstance(e.target, ast.Name):
        return ("plain", TL.nk(e.target.id))
    if isinstance(e, ast.Call) and isinstance(e.func, ast.Attribute) and e.func.attr == "__setitem__" and len(e.args) == 2:
        d = e.func.value
        key = e.args[0].value if isinstance(e.args[0], ast.Constant) else None
        if isinstance(d, ast.Call) and isinstance(d.func, ast.Name) and d.func.id == "globals" and not d.args:
            return ("global", key)
        if isinstance(d, ast.Name):
            return ("dict", TL.nk(d.id), key)
    return ("unreadable", ast.dump(e) if isinstance(e, ast.AST) else repr(e))


def loc_of_load(e, c):
    if isinstance(e, ast.Name):
        return ("plain", TL.nk(e.id))
    if isinstance(e, ast.Subscript) and isinstance(e.value, ast.Call) and isinstance(e.value.func, ast.Name) and e.value.func.id == "globals" \
            and not e.value.args and isinstance(e.slice, ast.Constant):
        return ("global", e.slice.value)
    if isinstance(e, ast.Subscript) and isinstance(e.value, ast.Name) and isinstance(e.slice, ast.Constant):
        return ("dict", TL.nk(e.value.id), e.slice.value)
    return ("unreadable", ast.dump(e) if isinstance(e, ast.AST) else repr(e))


def g_access_function(R, tier):
    ns = NS()
    base = "namespaces.NamespaceFunction"

    def run(c):
        m = Machine(stubs=stubs())
        sT, fT = mk_symbol("T.x")
        B = mk_scope("B", "function")
        role = c.choose(4)
        c.facts.append(["role=local", "role=captured-local", "role=free", "role=global"][role])
        fields = {}
        if role == 0:
            c.assume(fT["local"])
        elif role == 1:
            c.assume(fT["local"])
            fields["inner_nonlocal_names"] = {"x"}
        elif role == 2:
            c.assume(fT["free"])
            fields["outer_nonlocal_map"] = {"x": B}
        else:
            c.assume(fT["glob"])
        T = mk_scope("T", "function", {"x": sT}, **fields)
        V = Opaque("V", ast.expr)
        st = m.call_value(ns.NamespaceFunction.get_assign, T, "x", V)
        ld = m.call_value(ns.NamespaceFunction.get_load_name, T, "x")
        return dict(st=st, ld=ld, T=T, B=B, role=role, fT=fT, V=V)
    paths = explore(run)
    if not paths_or_undecided(R, base + ".access/paths", paths):
        return
    for p in paths:
        sig = p.ctx.signature()
        if p.kind != "ok":
            R.fail(f"{base}.access/no-unexpected-raise/{sig}", repr(p.value))
            continue
        v = p.value
        c = p.ctx
        T, B = v["T"], v["B"]
        own = ("dict", TL.nk(T.fields["nonlocal_dict_expr"].id), "x")
        outer = ("dict", TL.nk(B.fields["nonlocal_dict_expr"].id), "x")
        dg, _ = c.valid(v["fT"]["declared_global"])
        want_store = {0: ("plain", "x"), 1: own, 2: outer, 3: ("global", "x") if dg else ("plain", "x")}[v["role"]]
        want_load = {0: ("plain", "x"), 1: own, 2: outer, 3: ("plain", "x")}[v["role"]]
        got_s, got_l = loc_of_store(v["st"], c), loc_of_load(v["ld"], c)
        if v["role"] == 3 and not dg:
            # an implicitly global name is never assigned in this scope (it would be local)
            R.check(f"{base}.get_load_name/reads-the-variable-python-reads/{sig}", got_l == want_load, f"{got_l} expected {want_load}", replay=dict(kind="scope-access"))
            continue
        R.check(f"{base}.get_assign/writes-the-variable-python-writes/{sig}", got_s == want_store, f"{got_s} expected {want_store}", replay=dict(kind="scope-access"))
        R.check(f"{base}.get_load_name/reads-the-variable-python-reads/{sig}", got_l == want_load, f"{got_l} expected {want_load}", replay=dict(kind="scope-access"))
        val_ok = (isinstance(v["st"], ast.NamedExpr) and v["st"].value is v["V"]) or (isinstance(v["st"], ast.Call) and v["st"].args[-1] is v["V"])
        R.check(f"{base}.get_assign/stores-the-given-value/{sig}", bool(val_ok), repr(v["st"]))

    # comprehension targets stay plain names
    def run_comp(c):
        m = Machine(stubs=stubs())
        comp = Opaque("comp", object, fields=dict(target_names={"x"}))
        T = mk_scope("T", "function", {}, inner_nonlocal_names={"x"}, comp_stack=[comp])
        return m.call_value(ns.NamespaceFunction.get_load_name, T, "x")
    for p in explore(run_comp):
        R.check(f"{base}.get_load_name/comprehension-target-shadows", p.kind == "ok" and loc_of_load(p.value, p.ctx) == ("plain", "x"), repr(p.value))


def g_access_class(R, tier):
    ns = NS()
    base = "namespaces.NamespaceClass"

    def run(c):
        m = Machine(stubs=stubs())
        sT, fT = mk_symbol("T.x")
        B = mk_scope("B", "function")
        role = c.choose(3)
        c.facts.append(["role=class-member", "role=free", "role=global"][role])
        fields = {}
        if role == 0:
            c.assume(fT["local"])
        elif role == 1:
            c.assume(fT["free"])
            fields["outer_nonlocal_map"] = {"x": B}
        else:
            c.assume(fT["glob"])
        fields["globals_used_in_comp"] = set()
        T = mk_scope("T", "class", {"x": sT}, **fields)
        V = Opaque("V", ast.expr)
        st = m.call_value(ns.NamespaceClass.get_assign, T, "x", V)
        ld = m.call_value(ns.NamespaceClass.get_load_name, T, "x")
        return dict(st=st, ld=ld, T=T, B=B, role=role, fT=fT, V=V)
    paths = explore(run)
    if not paths_or_undecided(R, base + ".access/paths", paths):
        return
    for p in paths:
        sig = p.ctx.signature()
        if p.kind != "ok":
            R.fail(f"{base}.access/no-unexpected-raise/{sig}", repr(p.value))
            continue
        v = p.value
        c = p.ctx
        T, B = v["T"], v["B"]
        member = ("dict", TL.nk(T.fields["class_member_dict_expr"].id), "x")
        outer = ("dict", TL.nk(B.fields["nonlocal_dict_expr"].id), "x")
        dg, _ = c.valid(v["fT"]["declared_global"])
        got_s, got_l = loc_of_store(v["st"], c), loc_of_load(v["ld"], c)
        if v["role"] == 2 and not dg:
            R.check(f"{base}.get_load_name/reads-the-variable-python-reads/{sig}", got_l == ("plain", "x"), f"{got_l}", replay=dict(kind="scope-access"))
            continue
        want_store = {0: member, 1: outer, 2: ("global", "x")}[v["role"]]
        want_load = {0: member, 1: outer, 2: ("plain", "x")}[v["role"]]
        R.check(f"{base}.get_assign/writes-the-variable-python-writes/{sig}", got_s == want_store, f"{got_s} expected {want_store}", replay=dict(kind="scope-access"))
        R.check(f"{base}.get_load_name/reads-the-variable-python-reads/{sig}", got_l == want_load, f"{got_l} expected {want_load}", replay=dict(kind="scope-access"))
    # ---- reads from positions INSIDE a lambda / comprehension nested in the class body: the
    # class scope is invisible there (Language Reference 4.2.2: "the scope of names defined in
    # a class block is limited to the class block; it does not extend to the code blocks of
    # methods -- this includes comprehensions and generator expressions")
    for inside in (False, True):
        for in_gset in (False, True):   # does a nested lambda/comprehension use x as a global?
            def run2(c):
                m = Machine(stubs=stubs())
                sT, fT = mk_symbol("T.x")
                B = mk_scope("B", "function")
                role = c.choose(3)
                c.facts.append(["role=class-member", "role=free", "role=global"][role])
                fields = {}
                if role == 0:
                    c.assume(fT["local"])
                elif role == 1:
                    if in_gset:
                        # symtable axiom: a name bound in an enclosing function is FREE in a
                        # lambda/comprehension nested in the class, never global there
                        from olvc.sym import PathAbort
                        raise PathAbort()
                    c.assume(fT["free"])
                    fields["outer_nonlocal_map"] = {"x": B}
                else:
                    c.assume(fT["glob"])
                fields["globals_used_in_comp"] = {"x"} if in_gset else set()
                binder = Opaque("enclosing-lambda-or-comprehension", object, fields=dict(target_names={"other"}))
                fields["comp_stack"] = [binder] if inside else []
                T = mk_scope("T", "class", {"x": sT}, **fields)
                ld = m.call_value(ns.NamespaceClass.get_load_name, T, "x")
                return dict(ld=ld, T=T, B=B, role=role)
            for p in explore(run2):
                sig = p.ctx.signature()
                nm2 = f"{base}.get_load_name[{'inside-a-nested-lambda-or-comprehension' if inside else 'directly-in-the-class-body'},{'also-a-global-of-a-nested-scope' if in_gset else 'not-used-by-nested-scopes'}]"
                if p.kind != "ok":
                    R.fail(f"{nm2}/no-unexpected-raise/{sig}", repr(p.value))
                    continue
                v = p.value
                T, B = v["T"], v["B"]
                member = ("dict", TL.nk(T.fields["class_member_dict_expr"].id), "x")
                outer = ("dict", TL.nk(B.fields["nonlocal_dict_expr"].id), "x")
                got = loc_of_load(v["ld"], p.ctx)
                if v["role"] == 1:
                    want = outer                      # a variable of an enclosing function: visible everywhere
                elif v["role"] == 2:
                    want = ("plain", "x")
                else:
                    want = ("plain", "x") if inside else member   # the member is visible in the class body only
                R.check(f"{nm2}/reads-the-variable-python-reads/{sig}", got == want, f"{got} expected {want}", replay=dict(kind="scope"))
    # dynamic class-scope lookup (LOAD_NAME: class namespace first, then globals): a name that
    # is bound LATER in the class body is read from the globals until then; a static choice
    # cannot express that
    native_finding(R, f"{base}.get_load_name/class-scope-load-is-dynamic",
                   "a class body that reads a global name before binding the same name reads the class dict (KeyError): static resolution of LOAD_NAME",
                   "x = 1\nclass A:\n    y = x\n    x = 2\nr = (A.y, A.x)\n")


def g_access_global(R, tier):
    ns = NS()

    def run(c):
        m = Machine(stubs=stubs())
        G = CL.mk_global()
        V = Opaque("V", ast.expr)
        return dict(st=m.call_value(ns.NamespaceGlobal.get_assign, G, "x", V), ld=m.call_value(ns.NamespaceGlobal.get_load_name, G, "x"), V=V)
    for p in explore(run):
        ok = p.kind == "ok" and loc_of_store(p.value["st"], p.ctx) == ("plain", "x") and loc_of_load(p.value["ld"], p.ctx) == ("plain", "x") and p.value["st"].value is p.value["V"]
        R.check("namespaces.NamespaceGlobal.access/module-names-are-plain-names", ok, repr(p.value))


# ----------------------------------------------------------------------------------------
# expression transformer


def et():
    return extract.repo_module("oneliner.expr_transform")


def g_transform_dispatch(R, tier):
    E = et()
    base = "expr_transform.ExpressionTransformer.get_pending"
    want = {ast.NamedExpr: "PendingNamedExpr", ast.Name: "PendingName", ast.ListComp: "PendingComp", ast.SetComp: "PendingComp",
            ast.DictComp: "PendingComp", ast.GeneratorExp: "PendingComp", ast.Lambda: "PendingLambda"}

    # the state of the transformer when a node is dispatched: nothing pending, or inside a lambda /
    # a comprehension of the script (the answer must not depend on it: C08 "at any nesting depth and position")
    for pending in ("nothing-pending", "inside-a-lambda", "inside-a-comprehension", "inside-a-comprehension-inside-a-lambda"):
        _dispatch_case(R, E, base if pending == "nothing-pending" else f"{base}[{pending}]", want, pending)


def _dispatch_case(R, E, base, want, pending):
    def run(c):
        made = []
        st = {}
        for cname in ("PendingNamedExpr", "PendingName", "PendingComp", "PendingExpr", "PendingLambda", "PendingZeroArgSuper"):
            if not hasattr(E, cname):
                continue
            def f(it, node, nsp=None, cname=cname):
                made.append((cname, node, nsp))
                return Opaque(("pending", cname), object)
            st[f"oneliner.expr_transform:{cname}"] = f
        m = Machine(stubs=st)
        # (a method that uses zero-argument super(), first parameter `me`; C12/zero_argument_super has the other cases)
        nsp = CL.mk_nsp(zero_arg_super_used=True, first_parameter="me")
        tr = m.call_value(E.ExpressionTransformer, nsp)
        lam = lambda: Opaque("pending-lambda", None, cands=frozenset([E.PendingLambda]), fields=dict(target_names={"p"}))
        comp = lambda: Opaque("pending-comp", None, cands=frozenset([E.PendingComp]), fields=dict(target_names={"q"}))
        tr.pending_stack.extend({"nothing-pending": [], "inside-a-lambda": [lam()], "inside-a-comprehension": [comp()],
                                 "inside-a-comprehension-inside-a-lambda": [lam(), comp()]}[pending])
        node = CL.src("node")
        m.call_value(E.ExpressionTransformer.get_pending, tr, node)
        return dict(made=made, node=node, nsp=nsp)
    paths = explore(run)
    if not paths_or_undecided(R, base + "/paths", paths):
        return
    seen = set()
    from spec import pysem
    for p in paths:
        sig = p.ctx.signature()
        if p.kind == "raise":
            cands = None
            R.check(f"{base}/rejects-only-unsupported-kinds/{sig}", isinstance(p.value, (RuntimeError, SyntaxError, NotImplementedError)), repr(p.value))
            seen.add("rejected:" + sig)
            continue
        if p.kind != "ok":
            continue
        v = p.value
        node = v["node"]
        ok = len(v["made"]) == 1 and v["made"][0][1] is node
        cname = v["made"][0][0] if ok else None
        for k in node.cands:
            exp = want.get(k, "PendingExpr")
            if k in pysem.UNSUPPORTED_EXPRS:
                R.fail(f"{base}/unsupported-expression-kind-is-rejected/{k.__name__}", f"{k.__name__} is accepted and copied into the output (README: not convertible)",
                       replay=dict(kind="srcs", srcs=["def g():\n    yield 1\nr = list(g())\n", "def g(items):\n    for item in items:\n        cb = lambda v=(yield item): v\nr = list(g([1]))\n",
                                                      "def g(it):\n    r = [(lambda: (yield from it)) for _ in (0,)]\n    return r\n", "def g(it):\n    return [x for x in (yield it)]\n"]
                                   if k is not ast.Await else ["async def g():\n    await x\n", "async def g():\n    f = lambda: 0\n    return [await x for x in y]\n"], expect="raises"))
                continue
            if k is ast.Call:
                # PEP 3135: `super()` -- a call of the plain name super without arguments -- is the
                # one call whose meaning depends on the function it sits in; every other call is generic
                c = p.ctx
                f = node.fields.get("func")
                is_name = isinstance(f, Opaque) and f.cands == frozenset([ast.Name])
                fid = f.fields.get("id") if is_name else None
                named_super = isinstance(fid, Hole) and c.valid(fid.fact("=='super'"))[0]
                def empty(field):
                    x = node.fields.get(field)
                    return x is not None and all(isinstance(i, Seg) and c13._provably_zero(c, i.length) for i in x)
                in_function = v["nsp"].cands == frozenset([NS().NamespaceFunction])
                zero_arg_super = bool(named_super and empty("args") and empty("keywords") and in_function)
                exp = "PendingZeroArgSuper" if zero_arg_super else "PendingExpr"
                R.check(f"{base}/dispatch/Call/{'zero-argument-super' if zero_arg_super else 'any-other-call'}/{sig}", ok and cname == exp and (cname == "PendingExpr" or v["made"][0][2] is v["nsp"]),
                        f"Call (func={f!r} id={fid!r}) -> {v['made']!r}, expected {exp}", replay=dict(kind="src", src=__import__("suites.c07", fromlist=["_SUPER_SRC"])._SUPER_SRC, expect="same-globals"))
                continue
            R.check(f"{base}/dispatch/{k.__name__}", ok and cname == exp and (cname == "PendingExpr" or v["made"][0][2] is v["nsp"]), f"{k.__name__} -> {v['made']!r}")


def g_transform_generic(R, tier):
    """PendingExprGeneric: every expression child requested once, in field order; the result is
    a NEW node of the same class whose fields are the answers in place; the input is not
    mutated"""
    E = et()
    base = "expr_transform.PendingExprGeneric"
    shapes = {
        "BinOp": lambda: ast.BinOp(left=CL.src("left"), op=ast.Add(), right=CL.src("right")),
        "Call": lambda: ast.Call(func=CL.src("func"), args=[CL.seg("args", lambda t: CL.src(t))], keywords=[CL.seg("kws", lambda t: CL.src(t, ast.keyword))]),
        "keyword": lambda: ast.keyword(arg="k", value=CL.src("value")),
        "IfExp": lambda: ast.IfExp(test=CL.src("test"), body=CL.src("body"), orelse=CL.src("orelse")),
        "Dict": lambda: ast.Dict(keys=[CL.seg("keys", lambda t: CL.src(t))], values=[CL.seg("values", lambda t: CL.src(t))]),
        "Subscript": lambda: ast.Subscript(value=CL.src("value"), slice=CL.src("slice"), ctx=ast.Load()),
        "Slice": lambda: ast.Slice(lower=CL.src("lower"), upper=None, step=CL.src("step")),
        "Attribute": lambda: ast.Attribute(value=CL.src("value"), attr="a", ctx=ast.Load()),
        "Compare": lambda: ast.Compare(left=CL.src("left"), ops=[ast.Lt(), ast.Gt()], comparators=[CL.src("c1"), CL.src("c2")]),
        "comprehension": lambda: ast.comprehension(target=CL.src("target"), iter=CL.src("iter"), ifs=[CL.seg("ifs", lambda t: CL.src(t))], is_async=0),
        "Starred": lambda: ast.Starred(value=CL.src("value"), ctx=ast.Load()),
        "JoinedStr": lambda: ast.JoinedStr(values=[CL.seg("values", lambda t: CL.src(t))]),
        "FormattedValue": lambda: ast.FormattedValue(value=CL.src("value"), conversion=114, format_spec=CL.src("spec")),
        "Constant": lambda: ast.Constant(value=3, kind=None),
    }
    for sname, mk in shapes.items():
        def run(c):
            m = Machine()
            node = mk()
            before = {f: (list(v) if isinstance(v, list) else v) for f, v in vars(node).items()}
            pend = m.call_value(E.PendingExpr, node)
            asked = []
            sent = None
            g = pend.iter_fields
            while True:
                try:
                    y = g.send(sent)
                except IRaise as e:
                    if isinstance(e.exc, IStop):
                        break
                    raise
                asked.append(y)
                sent = Opaque(("A", tagstr(y.tag)), ast.expr) if isinstance(y, Opaque) else y
            res = m.call_value(E.PendingExprGeneric.get_result, pend)
            after = {f: (list(v) if isinstance(v, list) else v) for f, v in vars(node).items()}
            return dict(node=node, asked=asked, res=res, same=all(_same(before[f], after.get(f)) for f in before) and set(before) == set(after))
        paths = explore(run)
        nm = f"{base}[{sname}]"
        if not paths_or_undecided(R, nm + "/paths", paths):
            continue
        for p in paths:
            sig = p.ctx.signature()
            if p.kind != "ok":
                R.fail(f"{nm}/no-unexpected-raise/{sig}", repr(p.value))
                continue
            v = p.value
            node, res = v["node"], v["res"]
            # expected requests: expression-valued fields in _fields order
            exp = []
            for f in node._fields:
                val = getattr(node, f, None)
                if isinstance(val, list):
                    for x in val:
                        if isinstance(x, Seg):
                            if not c13._provably_zero(p.ctx, x.length):
                                exp.append(tagstr(x.items[0].tag))
                        else:
                            exp.append(tagstr(x.tag) if isinstance(x, Opaque) else repr(x))
                elif isinstance(val, Opaque) or isinstance(val, ast.expr):
                    exp.append(tagstr(val.tag) if isinstance(val, Opaque) else repr(val))
            got = [tagstr(y.tag) if isinstance(y, Opaque) else repr(y) for y in v["asked"]]
            R.check(f"{nm}/every-expression-child-once-in-field-order/{sig}", got == exp, f"asked {got}, fields {exp}")
            ok = type(res) is type(node) and res is not node
            if ok:
                for f in node._fields:
                    a, b = getattr(node, f, None), getattr(res, f, None)
                    if isinstance(a, Opaque):
                        ok = ok and isinstance(b, Opaque) and b.tag == ("A", tagstr(a.tag))
                    elif isinstance(a, list):
                        ok = ok and isinstance(b, list) and len(a) == len(b) and b is not a
                        for x, y in zip(a, b):
                            if isinstance(x, Seg):
                                ok = ok and isinstance(y, Seg) and TL.term_eq(p.ctx, x.length, y.length) and y.items[0].tag == ("A", tagstr(x.items[0].tag))
                            elif isinstance(x, Opaque):
                                ok = ok and isinstance(y, Opaque) and y.tag == ("A", tagstr(x.tag))
                            else:
                                ok = ok and (x is y or type(x) is type(y))
                    else:
                        ok = ok and (a is b or a == b)
            R.check(f"{nm}/result-is-a-new-node-with-the-answers-in-place/{sig}", ok, repr(vars(res)) if isinstance(res, ast.AST) else repr(res))
            R.check(f"{nm}/input-node-not-mutated/{sig}", v["same"], "the source tree is shared with the caller")
    # Lambda: parameters shadow and defaults are evaluated -- the arguments object is copied as it stands
    g_lambda(R, tier)


def g_lambda(R, tier):
    """a lambda binds its parameters: they shadow outer names in the body (which is
    transformed while they are on the shadow stack) and the default expressions are
    transformed in the enclosing scope, before the body"""
    E = et()
    nm = "expr_transform.PendingLambda"
    if not hasattr(E, "PendingLambda"):
        native_finding(R, nm + "/lambda-parameters-shadow-and-defaults-are-transformed",
                       "Lambda.args is copied untransformed and names bound by the lambda are rewritten in its body",
                       "def f(x):\n    def g():\n        return x\n    h = lambda x: x + 1\n    k = lambda y=x: y\n    return h(10), k()\nr = f(1)\n")
        return

    def run(c):
        m = Machine()
        nsp = CL.mk_nsp()
        a = lambda t: ast.arg(arg=Hole((t, "arg"), "ident"), annotation=None)
        KW, KW2 = CL.seg("KW", a), CL.seg("KW2", a)
        args = ast.arguments(
            posonlyargs=[CL.seg("PO", a)], args=[CL.seg("AR", a)], vararg=a("VA") if not c.branch(z3.Bool("vararg.is_none")) else None,
            kwonlyargs=[KW, KW2],
            kw_defaults=[CL.seg("KD", lambda t: Opaque(t, ast.expr, cands=CL.EXPR_LEAVES, none=z3.Bool("KD.is_none")), like=KW),
                         CL.seg("KD2", lambda t: Opaque(t, ast.expr, cands=CL.EXPR_LEAVES, none=z3.Bool("KD2.is_none")), like=KW2)],
            kwarg=a("KA") if not c.branch(z3.Bool("kwarg.is_none")) else None, defaults=[CL.seg("DF", lambda t: CL.src(t))])
        node = ast.Lambda(args=args, body=CL.src("body"))
        pend = m.call_value(E.PendingLambda, node, nsp)
        g = pend.iter_fields
        sent = None
        asked = []
        while True:
            try:
                y = g.send(sent)
            except IRaise as e:
                if isinstance(e.exc, IStop):
                    break
                raise
            asked.append((tagstr(y.tag), list(nsp.fields["comp_stack"]), tuple(x[0].tag for x in c.generic)))
            sent = Opaque(("A", tagstr(y.tag)), ast.expr)
        res = m.call_value(E.PendingExprGeneric.get_result, pend)
        return dict(node=node, pend=pend, asked=asked, res=res, after=list(nsp.fields["comp_stack"]))
    paths = explore(run)
    if not paths_or_undecided(R, nm + "/paths", paths):
        return
    for p in paths:
        sig = p.ctx.signature()
        if p.kind != "ok":
            R.fail(f"{nm}/no-unexpected-raise/{sig}", repr(p.value))
            continue
        v = p.value
        c = p.ctx
        node, pend, res = v["node"], v["pend"], v["res"]
        a = node.args
        # requests: defaults (positional, then keyword-only without the None holes), then the body
        exp = []
        if not c13._provably_zero(c, a.defaults[0].length):
            exp.append("(DF j_DF)")
        for KD, flag in zip(a.kw_defaults, ("KD.is_none", "KD2.is_none")):
            if not c.valid(z3.Bool(flag))[0] and not c13._provably_zero(c, KD.length):
                exp.append(tagstr(KD.items[0].tag))
        exp.append("body")
        got = [t for t, _, _ in v["asked"]]
        R.check(f"{nm}/defaults-left-to-right-then-the-body/{sig}", got == exp, f"asked {got}, expected {exp}")
        shadow_ok = all((stack == [pend]) == (t == "body") and (t == "body" or stack == []) for t, stack, _ in v["asked"]) and v["after"] == []
        R.check(f"{nm}/parameters-shadow-in-the-body-only/{sig}", shadow_ok, repr([(t, st) for t, st, _ in v["asked"]]),
                replay=dict(kind="src", src="def f(x):\n    def g():\n        return x\n    h = lambda x: x + 1\n    k = lambda y=x: y\n    x = 7\n    return h(10), k(), g()\nr = f(1)\n"
                                                 "def f2(x, factor):\n    def g():\n        nonlocal factor\n        factor = factor * 2\n        return x\n    g()\n"
                                                 "    s = lambda v, factor=factor: v * factor\n    t = lambda *, x=x: x\n    return s(2), t(), factor\nr2 = f2(1, 30)\n"
                                                 "class K:\n    w = 3\n    u = lambda q, w=w: q + w\nr3 = K.u(1)\n", expect="same-globals"))
        # every parameter name is a shadowing name
        names = pend.target_names
        want_names = set()
        sym.set_ctx(c)
        try:
            okn = True
            holes = []
            for lst in (a.posonlyargs, a.args, a.kwonlyargs):
                for x in lst:
                    if isinstance(x, Seg) and not c13._provably_zero(c, x.length):
                        holes.append(x.items[0].arg)
            for x in (a.vararg, a.kwarg):
                if x is not None:
                    holes.append(x.arg)
            flat_names = []
            for n in names:
                flat_names.extend(n.items if isinstance(n, Seg) else [n])
            okn = all(any(h is n for n in flat_names) for h in holes)
        finally:
            sym.set_ctx(None)
        R.check(f"{nm}/every-parameter-kind-shadows/{sig}", okn, f"shadowing names {names!r}, parameters {holes!r}")
        # result: a Lambda with the same parameters, the answers as defaults (None holes kept), the answer as body
        ok = isinstance(res, ast.Lambda) and res is not node and isinstance(res.body, Opaque) and res.body.tag == ("A", "body")
        if ok:
            ra = res.args
            ok = ok and ra is not a and ra.posonlyargs == a.posonlyargs and ra.args == a.args and ra.kwonlyargs == a.kwonlyargs and ra.vararg is a.vararg and ra.kwarg is a.kwarg
            ok = ok and len(ra.defaults) == 1 and isinstance(ra.defaults[0], Seg) and ra.defaults[0].items[0].tag == ("A", "(DF j_DF)")
            for KDs, KDr, flag in zip(a.kw_defaults, ra.kw_defaults, ("KD.is_none", "KD2.is_none")):
                none = c.valid(z3.Bool(flag))[0]
                ok = ok and isinstance(KDr, Seg) and TL.term_eq(c, KDr.length, KDs.length) and ((KDr.items[0] is None) if none else (KDr.items[0].tag == ("A", tagstr(KDs.items[0].tag))))
        R.check(f"{nm}/result-keeps-the-signature-and-carries-the-transformed-defaults/{sig}", bool(ok), repr(vars(res.args)) if isinstance(res, ast.Lambda) else repr(res))


def _same(a, b):
    if isinstance(a, list):
        return isinstance(b, list) and len(a) == len(b) and all(x is y for x, y in zip(a, b))
    return a is b or a == b


def g_transform_names(R, tier):
    E = et()
    # ---- Name
    for ctxk in (ast.Load, ast.Store):
        def run(c):
            m = Machine()
            nsp = CL.mk_nsp()
            node = ast.Name(id=Hole("x", "ident"), ctx=ctxk())
            pend = m.call_value(E.PendingName, node, nsp)
            asked = []
            try:
                asked.append(pend.iter_fields.send(None))
            except IRaise as e:
                if not isinstance(e.exc, IStop):
                    raise
            return dict(res=m.call_value(E.PendingName.get_result, pend), asked=asked, node=node)
        for p in explore(run):
            nm = f"expr_transform.PendingName[{ctxk.__name__}]"
            if p.kind != "ok":
                R.fail(nm + "/no-unexpected-raise", repr(p.value))
                continue
            res = p.value["res"]
            if ctxk is ast.Load:
                sem = res.props.get("sem") if isinstance(res, Opaque) else None
                R.check(nm + "/load-goes-through-the-namespace", sem is not None and sem[0] == "load" and sem[1] == "nsp" and sem[2] is p.value["node"].id and not p.value["asked"], repr(res))
            else:
                R.check(nm + "/binding-occurrence-stays-a-plain-name", isinstance(res, ast.Name) and res.id is p.value["node"].id and isinstance(res.ctx, ast.Store) and res is not p.value["node"], repr(res))

    # ---- NamedExpr
    def run_ne(c):
        m = Machine()
        nsp = CL.mk_nsp()
        node = ast.NamedExpr(target=ast.Name(id=Hole("x", "ident"), ctx=ast.Store()), value=CL.src("V"))
        pend = m.call_value(E.PendingNamedExpr, node, nsp)
        asked = [pend.iter_fields.send(None)]
        ans = Opaque("answer", ast.expr)
        try:
            pend.iter_fields.send(ans)
        except IRaise as e:
            if not isinstance(e.exc, IStop):
                raise
        return dict(res=m.call_value(E.PendingNamedExpr.get_result, pend), asked=asked, node=node, ans=ans)
    paths = explore(run_ne)
    nm = "expr_transform.PendingNamedExpr"
    if paths_or_undecided(R, nm + "/paths", paths):
        for p in paths:
            sig = p.ctx.signature()
            if p.kind != "ok":
                R.fail(f"{nm}/no-unexpected-raise/{sig}", repr(p.value))
                continue
            v = p.value
            res = v["res"]
            R.check(f"{nm}/value-requested-once/{sig}", v["asked"] == [v["node"].value], repr(v["asked"]))
            sym.set_ctx(p.ctx)
            try:
                ev = c13.EvalA()
                ev.abstract_orig = ev.abstract
                val = ev.expr(res)
                tr = [e for e in ev.tr]
                stores = [e for e in tr if e[0] == "store"]
                R.check(f"{nm}/stores-through-the-namespace-once/{sig}", len(stores) == 1 and stores[0][1] == "nsp" and stores[0][2] == ("id", "x"), TL.show(tr))
                # the value of the walrus expression is the stored value: either the store
                # form itself is a walrus, or the variable is read back THROUGH THE NAMESPACE
                direct = isinstance(res, Opaque) and res.props.get("sem", (0,))[0] == "store"
                loads = [e for e in tr if e[0] == "load" and e[2] == ("id", "x")]
                plain_reads = [r_ for r_ in ev.refs if r_[0] == ("id", "x")]
                R.check(f"{nm}/value-of-the-expression-is-read-back-through-the-namespace/{sig}", direct or (len(loads) == 1 and not plain_reads),
                        f"namespace loads {loads}, plain-name reads {plain_reads}: a captured/class/global variable is not a plain name",
                        replay=dict(kind="src", src="def f():\n    n = 0\n    def g():\n        return n\n    r = [(n := n + 1) for _ in range(3)]\n    return r, n, g()\nr = f()\n", expect="same-globals"))
            except TL.NotInFragment as e:
                R.undecided(f"{nm}/reading/{sig}", str(e))
            finally:
                sym.set_ctx(None)


def g_transform_comp(R, tier):
    """Language Reference 6.2.4: the iterable of the FIRST for clause is evaluated in the
    enclosing scope; the element, the conditions, the targets and every other iterable are
    evaluated in the comprehension's own scope, where its target names shadow.  Every child
    is transformed exactly once and the result has the same clause structure."""
    E = et()
    nm = "expr_transform.PendingComp"
    for kind in ("ListComp", "SetComp", "GeneratorExp", "DictComp"):
        def run(c):
            m = Machine()
            nsp = CL.mk_nsp()
            tnames = ast.Tuple(elts=[ast.Name(id="a", ctx=ast.Store()), ast.List(elts=[ast.Name(id="b", ctx=ast.Store())], ctx=ast.Store())], ctx=ast.Store())
            t2 = ast.Name(id="c", ctx=ast.Store())
            gens = [ast.comprehension(target=tnames, iter=CL.src("it1"), ifs=[CL.src("if1a"), CL.src("if1b")], is_async=0),
                    ast.comprehension(target=t2, iter=CL.src("it2"), ifs=[CL.src("if2")], is_async=0)]
            if kind == "DictComp":
                node = ast.DictComp(key=CL.src("key"), value=CL.src("value"), generators=gens)
            else:
                node = getattr(ast, kind)(elt=CL.src("elt"), generators=gens)
            pend = m.call_value(E.PendingComp, node, nsp)
            names = set(pend.target_names)
            g = pend.iter_fields
            sent = None
            asked = []
            while True:
                try:
                    y = g.send(sent)
                except IRaise as e:
                    if isinstance(e.exc, IStop):
                        break
                    raise
                asked.append((y, pend in nsp.fields["comp_stack"], len(nsp.fields["comp_stack"])))
                sent = Opaque(("converted", getattr(y, "tag", None) or id(y)), ast.expr, sem=("conv", y))
            res = m.call_value(E.PendingComp.get_result, pend)
            return dict(names=names, pend=pend, after=list(nsp.fields["comp_stack"]), res=res, node=node, asked=asked, gens=gens, tnames=tnames, t2=t2)
        for p in explore(run):
            if p.kind != "ok":
                R.fail(f"{nm}[{kind}]/no-unexpected-raise", repr(p.value))
                continue
            v = p.value
            node, gens = v["node"], v["gens"]
            R.check(f"{nm}[{kind}]/all-target-names-collected", v["names"] == {"a", "b", "c"}, repr(v["names"]))
            inside = {id(y): sh for y, sh, _ in v["asked"]}
            first = gens[0].iter
            rest = [getattr(node, f) for f in ("elt", "key", "value") if hasattr(node, f)] + [gens[1].iter] + gens[0].ifs + gens[1].ifs
            R.check(f"{nm}[{kind}]/first-iterable-is-transformed-in-the-enclosing-scope", inside.get(id(first)) is False,
                    f"targets shadow while the first iterable is transformed: {inside.get(id(first))}",
                    replay=dict(kind="src", src="def f(x):\n    def g():\n        return x\n    x = [5, 6]\n    return [x for x in x], {x: x for x in x}, list(x for x in x), g()\nr = f([1, 2])\n", expect="same-globals"))
            R.check(f"{nm}[{kind}]/element-conditions-and-inner-iterables-are-transformed-under-the-shadow", all(inside.get(id(x)) is True for x in rest),
                    repr([(getattr(x, "tag", x), inside.get(id(x))) for x in rest]), replay=dict(kind="scope"))
            ids = [id(y) for y, _, _ in v["asked"]]
            must = [id(first)] + [id(x) for x in rest]
            R.check(f"{nm}[{kind}]/every-expression-child-transformed-exactly-once", all(ids.count(i) == 1 for i in must) and len(set(ids)) == len(ids),
                    f"requested {len(ids)} children, {len(set(ids))} distinct; missing {[i for i in must if i not in ids]}")
            R.check(f"{nm}[{kind}]/shadow-removed-afterwards", v["after"] == [], repr(v["after"]))
            res = v["res"]
            conv_of = lambda x: isinstance(x, Opaque) and x.props.get("sem", (0, 0))[0] == "conv" and x.props["sem"][1]
            ok = type(res) is type(node) and res is not node and len(res.generators) == 2
            if ok:
                for rg, sg in zip(res.generators, gens):
                    ok = ok and conv_of(rg.iter) is sg.iter and [conv_of(i) for i in rg.ifs] == list(sg.ifs) and rg.is_async == sg.is_async \
                        and (conv_of(rg.target) is sg.target or rg.target is sg.target)
                for f in ("elt", "key", "value"):
                    if hasattr(node, f):
                        ok = ok and conv_of(getattr(res, f)) is getattr(node, f)
            R.check(f"{nm}[{kind}]/result-is-the-same-comprehension-with-every-child-in-its-place", bool(ok), _safe_show(res) if not isinstance(res, Opaque) else repr(res))


def _safe_show(res):
    try:
        return ast.dump(res)[:400]
    except Exception:  # noqa: BLE001
        return repr(res)


def g_nested_binders(R, tier):
    """integration of transformer and namespace (no stubs): a name bound by an OUTER
    comprehension or lambda and read inside an INNER lambda or comprehension stays a plain
    name, although the function keeps a captured variable of the same name in its cell dict;
    a name bound by neither is read from the cell dict"""
    E = et()
    ns = NS()
    N = lambda n, c=ast.Load: ast.Name(id=n, ctx=c())
    comp = lambda tgt, it: ast.comprehension(target=N(tgt, ast.Store), iter=it, ifs=[], is_async=0)
    lam = lambda params, body: ast.Lambda(args=ast.arguments(posonlyargs=[], args=[ast.arg(arg=p) for p in params], kwonlyargs=[], kw_defaults=[], defaults=[]), body=body)
    shapes = {
        "comprehension-in-comprehension": lambda: ast.ListComp(elt=ast.ListComp(elt=ast.Tuple(elts=[N("x"), N("y"), N("z")], ctx=ast.Load()), generators=[comp("y", N("seq"))]), generators=[comp("x", N("seq"))]),
        "lambda-in-comprehension": lambda: ast.ListComp(elt=lam(["y"], ast.Tuple(elts=[N("x"), N("y"), N("z")], ctx=ast.Load())), generators=[comp("x", N("seq"))]),
        "comprehension-in-lambda": lambda: lam(["x"], ast.ListComp(elt=ast.Tuple(elts=[N("x"), N("y"), N("z")], ctx=ast.Load()), generators=[comp("y", N("seq"))])),
        "lambda-in-lambda": lambda: lam(["x"], lam(["y"], ast.Tuple(elts=[N("x"), N("y"), N("z")], ctx=ast.Load()))),
    }
    for kind in ("function", "class"):
        for sname, mk in shapes.items():
            def run(c):
                m = Machine(stubs={"oneliner.reserved_identifiers:ol_name": CL.stub_ol_name()})  # the REAL transformer and namespace
                syms = {}
                for n_ in ("x", "y", "z", "seq"):
                    sy, f = mk_symbol(f"T.{n_}")
                    c.assume(f["local"])
                    syms[n_] = sy
                symt = mk_symt("T", symbols=syms, frees=[], nonlocals=[], kind=kind)
                cls = ns.NamespaceFunction if kind == "function" else ns.NamespaceClass
                nsp = m.call_value(cls, symt, [mk_scope("G", "global")])
                if kind == "function":
                    nsp.inner_nonlocal_names.update({"x", "y", "z"})  # all three are ALSO captured variables of the function
                tree = mk()
                res = m.call_value(E.expr_transf, nsp, tree)
                return dict(res=res, nsp=nsp)
            paths = explore(run)
            nm = f"expr_transform.expr_transf[{kind},{sname}]"
            if not paths_or_undecided(R, nm + "/paths", paths):
                continue
            for p in paths:
                if p.kind != "ok":
                    R.fail(f"{nm}/no-unexpected-raise", repr(p.value), replay=dict(kind="scope"))
                    continue
                res = p.value["res"]
                tuples = [n for n in ast.walk(res) if isinstance(n, ast.Tuple) and len(n.elts) == 3]
                ok = len(tuples) == 1
                if ok:
                    ex, ey, ez = tuples[0].elts
                    plain = lambda e, n_: isinstance(e, ast.Name) and e.id == n_
                    celled = lambda e, n_="z": isinstance(e, ast.Subscript) and isinstance(e.slice, ast.Constant) and e.slice.value == n_
                    # function: z is a captured variable -> read from the cell dict.  class: the
                    # class scope is INVISIBLE inside a lambda/comprehension (Language Reference
                    # 4.2.2), so the member z is not what is read there: a plain (global) name
                    ok = plain(ex, "x") and plain(ey, "y") and (celled(ez) if kind == "function" else plain(ez, "z"))
                R.check(f"{nm}/names-bound-by-enclosing-binders-stay-plain-others-go-to-the-cell", ok,
                        _safe_show(res), replay=dict(kind="scope"))
                # the iterable of the FIRST for clause of the OUTERMOST comprehension is evaluated
                # in the enclosing scope (class member / captured variable `seq`); an inner
                # comprehension's first iterable is evaluated inside the outer binder
                if isinstance(res, ast.ListComp):
                    outer_it = res.generators[0].iter
                    R.check(f"{nm}/outermost-first-iterable-is-read-in-the-enclosing-scope",
                            celled(outer_it, "seq") if kind == "class" else plain(outer_it, "seq"),
                            _safe_show(outer_it), replay=dict(kind="scope"))
                    inner = [n for n in ast.walk(res.elt) if isinstance(n, ast.ListComp)]
                    if inner and kind == "class":
                        R.check(f"{nm}/inner-first-iterable-does-not-see-the-class-scope", plain(inner[0].generators[0].iter, "seq"),
                                _safe_show(inner[0].generators[0].iter), replay=dict(kind="scope"))


# ----------------------------------------------------------------------------------------
# symtable walk: generic steps


def g_walk(R, tier):
    ns = NS()
    ifn = ifunc_of(ns.generate_nsp)
    loops = [s for s in ifn.node.body if isinstance(s, ast.While)]
    base = "namespaces.generate_nsp/step"
    if len(loops) != 1:
        R.undecided(base + "/shape", "expected exactly one while loop")
        return
    loop = loops[0]
    pre = ifn.node.body[:ifn.node.body.index(loop)]

    def entry_frame(m, made):
        symt = mk_symt("ROOT", kind="module")
        symt.props["methods"]["get_children"] = lambda o: [Opaque("child0", object)]
        cfg = extract.repo_module("oneliner.config").Configs()
        fr = Frame(ifn, dict(symt=symt, configs=cfg), ifn.globals, [], name="generate_nsp")
        m.run(m.exec_block(pre, fr))
        return fr

    # (before 3.12 a comprehension is a function table named listcomp/... WITH the implicit
    #  parameter .0; a user function that merely has such a name is an ordinary function)
    cases = ["exhausted", "function", "lambda", "class", "function-named-listcomp"] + (["comprehension"] if sys.version_info < (3, 12) else [])
    for case in cases:
        def run(c):
            made = []

            def mkns(kind):
                def f(it, symt, stack):
                    o = Opaque(("nsp", kind, len(made)), None, cands=frozenset([getattr(ns, kind)]))
                    made.append((kind, symt, list(stack), o))
                    return o
                return f
            upd = []
            m = Machine(stubs={"oneliner.namespaces:NamespaceFunction": mkns("NamespaceFunction"), "oneliner.namespaces:NamespaceClass": mkns("NamespaceClass"),
                               "oneliner.namespaces:update_globals_from_lambda_or_comp": lambda it, s, st: upd.append((s, list(st)))})
            fr = entry_frame(m, made)
            root = fr.locals.get("root")
            # arbitrary state: lower part opaque, one frame on top
            import symtable as ST
            kids = [Opaque("grandchild", object)]
            name = {"function": "f", "lambda": "lambda", "class": "C", "comprehension": "listcomp", "function-named-listcomp": "listcomp"}.get(case, "f")
            params = (".0",) if case == "comprehension" else ()
            cls = ST.Class if case == "class" else ST.Function
            child = Opaque("child", None, cands=frozenset([cls]), methods=dict(
                get_name=lambda o: name, get_children=lambda o: kids, get_parameters=lambda o: params,
                get_type=lambda o: "class" if case == "class" else "function"))

            def nxt(o):
                if case == "exhausted":
                    raise IRaise(IStop(None))
                return child
            it_top = Opaque("iter-top", object, next=nxt)
            lowerW, lowerG = Opaque("lowerW", object), Opaque("lowerG", object)
            topns = Opaque("top-namespace", None, cands=frozenset([ns.NamespaceFunction]))
            # (the two stacks are identified by ROLE in the locals the real prefix left -- the
            #  namespace stack holds the root namespace, the walk stack the iterator over the
            #  root's children -- and changed in place)
            L = fr.locals
            rootns = [v_ for v_ in L.values() if isinstance(v_, ns.NamespaceGlobal)]
            g_lists = [k for k, v_ in L.items() if isinstance(v_, list) and len(v_) == 1 and rootns and v_[0] is rootns[0]]
            w_lists = [k for k, v_ in L.items() if isinstance(v_, list) and len(v_) == 1 and k not in g_lists]
            if not (len(g_lists) == 1 and len(w_lists) == 1):
                raise Unsupported(f"loop state of generate_nsp() not identified: namespace stack {g_lists}, walk stack {w_lists}")
            W, Gs = L[w_lists[0]], L[g_lists[0]]
            W[:] = [lowerW, it_top]
            Gs[:] = [lowerG, topns]
            sig = m.run(m.exec_block(loop.body, fr))
            return dict(W=W, G=Gs, made=made, upd=upd, child=child, kids=kids, it_top=it_top, topns=topns, lowerW=lowerW, lowerG=lowerG, sig=sig)
        paths = explore(run)
        nm = f"{base}[{case}]"
        if not paths_or_undecided(R, nm + "/paths", paths):
            continue
        for p in paths:
            if p.kind != "ok":
                R.fail(f"{nm}/no-unexpected-raise", repr(p.value))
                continue
            v = p.value
            W, Gs = v["W"], v["G"]
            if case == "exhausted":
                R.check(f"{nm}/both-stacks-popped-together", W == [v["lowerW"]] and Gs == [v["lowerG"]] and not v["made"], f"{W} {Gs}")
            elif case in ("lambda", "comprehension"):
                R.check(f"{nm}/no-namespace-for-an-expression-scope", W == [v["lowerW"], v["it_top"]] and Gs == [v["lowerG"], v["topns"]] and not v["made"], f"{W} {Gs}")
                R.check(f"{nm}/its-global-names-are-recorded-for-the-enclosing-scope", len(v["upd"]) == 1 and v["upd"][0][0] is v["child"] and v["upd"][0][1] == [v["lowerG"], v["topns"]], repr(v["upd"]))
            else:
                want_kind = "NamespaceClass" if case == "class" else "NamespaceFunction"
                ok = len(v["made"]) == 1 and v["made"][0][0] == want_kind and v["made"][0][1] is v["child"] and v["made"][0][2] == [v["lowerG"], v["topns"]]
                R.check(f"{nm}/namespace-created-with-the-ancestor-chain-as-its-stack", ok, repr(v["made"]))
                R.check(f"{nm}/pushed-on-both-stacks", ok and Gs == [v["lowerG"], v["topns"], v["made"][0][3]] and len(W) == 3 and W[:2] == [v["lowerW"], v["it_top"]], f"{W} {Gs}")


# ----------------------------------------------------------------------------------------
def g_seeding(R, tier):
    from suites import c07
    pn = CL.pn()
    base = "pending_nodes.PendingFunctionDef.get_result"

    def run(c):
        m = Machine(stubs=stubs())
        # def f(p, a, c, *b, k, **d): a, b, d captured by inner scopes (every parameter kind
        # can be), p, c, k not; `loc` is a captured plain local
        A = lambda n: ast.arg(arg=n, annotation=None)
        node = ast.FunctionDef(name="f", args=ast.arguments(posonlyargs=[A("p")], args=[A("a"), A("c")], vararg=A("b"), kwonlyargs=[A("k")], kw_defaults=[None],
                                                            kwarg=A("d"), defaults=[]),
                               body=CL.fn_body(), decorator_list=[], returns=None, lineno=7, col_offset=0)
        inner = c07.mk_function_nsp(node, inner_nonlocal_names={"a", "b", "d", "loc"}, nonlocal_parameters={"a", "b", "d"})
        outer = CL.mk_nsp("outer", inner_nsp=[inner])
        self_ = CL.mk_pending(pn.PendingFunctionDef, node, outer, CL.mk_global(), m=m)
        self_.converted_body = [CL.seg("BODY", lambda t: CL.absnode(("R", t), ("R", tagstr(t))))]
        return dict(res=m.call_value(pn.PendingFunctionDef.get_result, self_), inner=inner)
    for p in explore(run):
        if p.kind != "ok":
            R.fail(base + "/seeding/no-unexpected-raise", repr(p.value))
            continue
        res, inner = p.value["res"], p.value["inner"]
        lam = res[0].props["sem"][3] if isinstance(res[0], Opaque) and res[0].props.get("sem", (0,))[0] == "store" else None
        elts = lam.body.value.elts if isinstance(lam, ast.Lambda) and isinstance(lam.body, ast.Subscript) and isinstance(lam.body.value, ast.List) else []
        dkey = TL.nk(inner.fields["nonlocal_dict_expr"].id)
        idx = [i for i, e in enumerate(elts) if isinstance(e, ast.NamedExpr) and TL.nk(e.target.id) == dkey]
        body_idx = [i for i, e in enumerate(elts) if isinstance(e, Seg) or (isinstance(e, Opaque) and e.props.get("sem", (0,))[0] in ("R", "seq"))]
        ok = len(idx) == 1 and (not body_idx or idx[0] < min(body_idx))
        R.check(base + "/seeding/cell-dict-created-before-the-body", ok, repr(elts))
        if ok:
            d = elts[idx[0]].value
            pairs = sorted((k.value, getattr(v, "id", None)) for k, v in zip(d.keys, d.values)) if isinstance(d, ast.Dict) else None
            R.check(base + "/seeding/exactly-the-captured-parameters-are-copied-in", pairs == [("a", "a"), ("b", "b"), ("d", "d")], repr(pairs), replay=dict(kind="scope"))


def g_globals_from_nested_scopes(R, tier):
    """update_globals_from_lambda_or_comp(symt, stack): when the innermost namespace is a class,
    exactly the names that are GLOBAL in the lambda/comprehension `symt` or in any scope nested in
    it are added to that class namespace's set (they are what get_load_name reads as globals
    inside nested binders); any other innermost namespace: no effect.  All flag valuations."""
    import symtable as ST
    ns = NS()
    base = "namespaces.update_globals_from_lambda_or_comp"
    for top_kind in ("class", "function", "global"):
        def run(c):
            m = Machine(stubs=stubs())
            flags = {}

            def sym_(node, name):
                sy, f = mk_symbol(f"{node}.{name}")
                sy.props["methods"]["get_name"] = lambda o, name=name: name
                flags[(node, name)] = f
                return sy

            def table(tag, names, children):
                syms = [sym_(tag, n_) for n_ in names]
                return Opaque((tag, "symt"), None, cands=frozenset([ST.Function]), methods=dict(
                    get_symbols=lambda o: list(syms), get_children=lambda o: list(children), get_name=lambda o: "lambda"))
            leaf2 = table("L2", ["a", "d"], [])
            leaf1 = table("L1", ["b"], [leaf2])
            other = table("L3", ["c", "a"], [])
            root = table("L0", ["a", "b", "e"], [leaf1, other])
            top = mk_scope("T", top_kind, globals_used_in_comp={"kept"})
            stack = [mk_scope("G", "global"), top]
            m.call_value(ns.update_globals_from_lambda_or_comp, root, stack)
            return dict(top=top, flags=flags)
        paths = explore(run, max_paths=2000)
        nm = f"{base}[innermost={top_kind}]"
        if not paths_or_undecided(R, nm + "/paths", paths):
            continue
        bad = []
        for p in paths:
            if p.kind != "ok":
                R.fail(f"{nm}/no-unexpected-raise/{p.ctx.signature()[:80]}", repr(p.value))
                continue
            got = set(p.value["top"].fields["globals_used_in_comp"])
            if top_kind != "class":
                if got != {"kept"}:
                    bad.append((p.ctx.signature()[:120], got))
                continue
            want = {"kept"} | {name for (node, name), f in p.value["flags"].items() if p.ctx.valid(f["glob"])[0]}
            undecided = [k for k, f in p.value["flags"].items() if not p.ctx.valid(f["glob"])[0] and not p.ctx.valid(z3.Not(f["glob"]))[0]]
            if got != want or undecided:
                bad.append((p.ctx.signature()[:160], sorted(got), sorted(want), undecided))
        R.check(f"{nm}/" + ("adds-exactly-the-names-global-in-the-nested-scopes" if top_kind == "class" else "no-effect"), not bad,
                f"{len(paths)} flag valuations; first mismatch: {bad[:1]}", replay=dict(kind="scope"))


def g_declared_global_under_a_shadow(R, tier):
    """`global x` in a function or class nested in a function that has its OWN variable x
    (Language Reference 7.12): reads and writes of x denote the module global.  In the lowered
    form functions are nested lambdas, where a PLAIN name x would be captured from the
    enclosing lambda: the access must name the global explicitly.  REAL constructors and
    access functions, every flag valuation of the enclosing function's x."""
    ns = NS()
    for kind in ("function", "class"):
        for depth in (1, 2, 3):
            def run(c):
                m = Machine(stubs=stubs())
                sT, fT = mk_symbol("T.x")
                # x is a GLOBAL name of the scope: declared here, or -- 4.2.2, "resolved using the nearest enclosing
                # scope" -- because a function in between declares it global (then it is an implicit global here)
                c.assume(fT["glob"])
                sB, fB = mk_symbol("B.x")
                B = mk_scope("B", "function", {"x": sB})
                stack = [mk_scope("G", "global"), B]
                if depth == 2:
                    stack.append(mk_scope("M", "function", {}))   # a function in between that does not mention x
                if depth == 3:
                    sM, fM = mk_symbol("M.x")
                    c.assume(fM["declared_global"])
                    stack.append(mk_scope("M", "function", {"x": sM}))   # a function in between that declares x global
                symt = mk_symt("T", symbols={"x": sT}, frees=[], nonlocals=[], kind=kind)
                cls = ns.NamespaceFunction if kind == "function" else ns.NamespaceClass
                T = m.call_value(cls, symt, stack)
                V = Opaque("V", ast.expr)
                # (a name that is global without a declaration in this very scope is never written here)
                st = m.call_value(cls.get_assign, T, "x", V) if c.branch(fT["declared_global"]) else None
                ld = m.call_value(cls.get_load_name, T, "x")
                # inside a comprehension / lambda of this scope whose own variable is called x, x is THAT variable
                T.comp_stack.append(Opaque("binder", None, cands=frozenset([et().PendingComp]), fields=dict(target_names={"x"})))
                ld_in = m.call_value(cls.get_load_name, T, "x")
                T.comp_stack.pop()
                return dict(st=st, ld=ld, ld_in=ld_in, fB=fB)
            paths = explore(run)
            nm = f"namespaces.Namespace{kind.capitalize()}[global-name,enclosing-function-{ {1: 'directly-around', 2: 'two-levels-up', 3: 'two-levels-up-behind-a-function-that-declares-it-global'}[depth]}]"
            if not paths_or_undecided(R, nm + "/paths", paths):
                continue
            for p in paths:
                sig = p.ctx.signature()
                if p.kind != "ok":
                    R.fail(f"{nm}/no-unexpected-raise/{sig}", repr(p.value))
                    continue
                v = p.value
                # a plain name is right only on paths where the enclosing function provably has NO variable x
                unshadowed, _ = p.ctx.valid(z3.Not(v["fB"]["local"]))
                shadowed = not unshadowed
                got_l = loc_of_load(v["ld"], p.ctx)
                if v["st"] is not None:
                    got_s = loc_of_store(v["st"], p.ctx)
                    R.check(f"{nm}/writes-the-module-global/{sig}", got_s == ("global", "x"), repr(got_s), replay=dict(kind="scope"))
                R.check(f"{nm}/a-comprehension-or-lambda-variable-of-that-name-wins/{sig}", loc_of_load(v["ld_in"], p.ctx) == ("plain", "x"), repr(loc_of_load(v["ld_in"], p.ctx)),
                        replay=dict(kind="scope"))
                ok_l = got_l == ("global", "x") or (got_l == ("plain", "x") and unshadowed)
                R.check(f"{nm}/reads-the-module-global-not-the-enclosing-function-s-variable/{sig}", ok_l,
                        f"{got_l}; the enclosing function may have its own x: {shadowed}", replay=dict(kind="scope"))


def g_own_namespace_selection(R, tier):
    """a def / class statement picks, among the namespaces nested in the current one, the one
    created for ITS symbol table: same first line AND same name (siblings may share either);
    no such namespace: an error, never somebody else's namespace"""
    from suites import c07
    pn = CL.pn()

    def decoy(tag, lineno, name, kind):
        symt = Opaque((tag, "symt"), object, methods=dict(get_lineno=lambda o: lineno, get_name=lambda o: name))
        return CL.mk_nsp(tag, kinds=(kind,), symt=symt)
    for what, cls, kind in (("def", pn.PendingFunctionDef, "function"), ("class", pn.PendingClassDef, "class")):
        for present in (True, False):
            def run(c):
                m = Machine(stubs=stubs())
                if what == "def":
                    node = ast.FunctionDef(name="f", args=ast.arguments(posonlyargs=[], args=[], kwonlyargs=[], kw_defaults=[], defaults=[]), body=CL.fn_body(), decorator_list=[],
                                           returns=None, lineno=7, col_offset=0)
                    match = c07.mk_function_nsp(node, tag="match")
                else:
                    node = ast.ClassDef(name="f", bases=[], keywords=[], body=CL.fn_body(), decorator_list=[], lineno=7, col_offset=0)
                    symt = Opaque(("match", "symt"), object, methods=dict(get_lineno=lambda o: 7, get_name=lambda o: "f"))
                    match = CL.mk_nsp("match", kinds=("class",), symt=symt, class_member_dict_expr=ast.Name(id=Hole("clsdict", "ident", fresh=True)))
                sibs = [decoy("same-name-other-line", 3, "f", kind), decoy("same-line-other-name", 7, "g", kind)] + ([match] if present else []) + [decoy("later", 9, "f", kind)]
                outer = CL.mk_nsp("outer", inner_nsp=sibs)
                self_ = CL.mk_pending(cls, node, outer, CL.mk_global(), m=m)
                return dict(self_=self_, match=match)
            for p in explore(run):
                nm = f"pending_nodes.{cls.__name__}.__init__[{'own-namespace-among-siblings' if present else 'no-own-namespace'}]"
                if present:
                    ok = p.kind == "ok" and p.value["self_"].internal_nsp is p.value["match"]
                    R.check(f"{nm}/picks-the-namespace-of-its-own-symbol-table", ok, repr(p.value if p.kind != "ok" else p.value["self_"].internal_nsp),
                            replay=dict(kind="src", src="def f():\n    return 1\nif f():\n    def f(): return 2\n    def g(): return 3\nclass f2:\n    v = 1\nclass f2:\n    v = 2\nr = (f(), g(), f2.v)\n", expect="same-globals"))
                else:
                    R.check(f"{nm}/raises-instead-of-taking-a-sibling", p.kind == "raise" and isinstance(p.value, RuntimeError), repr(p.value))


def g_small_contracts(R, tier):
    """functions no other group runs (found by tools/harness_coverage.py)"""
    ns = NS()
    import symtable as ST

    # NamespaceFunction.get_flow_ctrl_expr: hands out the return flag and remembers that it is used
    def run(c):
        m = Machine(stubs=stubs())
        symt = mk_symt("T", symbols={}, frees=[], nonlocals=[], kind="function")
        nsp = m.call_value(ns.NamespaceFunction, symt, [mk_scope("G", "global")])
        before = nsp.flow_ctrl_return_used
        e1 = m.call_value(ns.NamespaceFunction.get_flow_ctrl_expr, nsp)
        e2 = m.call_value(ns.NamespaceFunction.get_flow_ctrl_expr, nsp)
        return dict(nsp=nsp, before=before, e1=e1, e2=e2)
    for p in explore(run):
        if p.kind != "ok":
            R.fail("namespaces.NamespaceFunction.get_flow_ctrl_expr/no-unexpected-raise", repr(p.value))
            continue
        v = p.value
        R.check("namespaces.NamespaceFunction.get_flow_ctrl_expr/returns-the-return-flag-and-marks-it-used",
                v["before"] is False and v["e1"] is v["nsp"].flow_ctrl_return_expr and v["e2"] is v["e1"] and v["nsp"].flow_ctrl_return_used is True
                and v["e1"] is not v["nsp"].return_value_expr, repr((v["before"], v["e1"], v["nsp"].flow_ctrl_return_used)))

    # generate_nsp: with nothing left to walk the root namespace is returned
    ifn = ifunc_of(ns.generate_nsp)
    loops = [s_ for s_ in ifn.node.body if isinstance(s_, ast.While)]
    if len(loops) == 1:
        loop = loops[0]
        pre, post = ifn.node.body[:ifn.node.body.index(loop)], ifn.node.body[ifn.node.body.index(loop) + 1:]

        def run2(c):
            m = Machine()
            symt = mk_symt("ROOT", kind="module")
            symt.props["methods"]["get_children"] = lambda o: []
            cfg = extract.repo_module("oneliner.config").Configs()
            P_SYMT, P_CFG = [a_.arg for a_ in ifn.node.args.args][:2]
            fr = Frame(ifn, {P_SYMT: symt, P_CFG: cfg}, ifn.globals, [], name="generate_nsp")
            m.run(m.exec_block(pre, fr))
            roots = [v_ for v_ in fr.locals.values() if isinstance(v_, ns.NamespaceGlobal)]
            for k_, v_ in fr.locals.items():
                if isinstance(v_, list) and not k_.startswith("_") and not (v_ and roots and v_[0] is roots[0]):
                    v_[:] = []  # the walk is over: nothing left to visit
            sig = m.run(m.exec_block(post, fr))
            return dict(sig=sig, roots=roots, cfg=cfg)
        for p in explore(run2):
            if p.kind != "ok":
                R.undecided("namespaces.generate_nsp/exit", repr(p.value))
                continue
            v = p.value
            ok = v["sig"] is not None and v["sig"][0] == "return" and len(v["roots"]) == 1 and v["sig"][1] is v["roots"][0] and v["roots"][0].configs is v["cfg"]
            R.check("namespaces.generate_nsp/exit/returns-the-root-namespace-carrying-the-given-options", ok, repr(v["sig"]))


def g_for_target(R, tier):
    native_finding(R, "pending_nodes.PendingFor.get_result/loop-target-is-bound-in-the-enclosing-scope",
                   "the for target becomes the target of a list comprehension: it is local to the comprehension, so it is not visible after the loop, "
                   "cannot be captured by closures, is not stored in class/global/nonlocal cells, and rebinding it in the body is a syntax error",
                   "def f():\n    for i in range(3):\n        pass\n    def g():\n        return i\n    return i, g()\nr = f()\nfor k in range(2):\n    pass\nlast = k\n")


GROUPS = {"declared_global_under_a_shadow": g_declared_global_under_a_shadow, "own_namespace_selection": g_own_namespace_selection, "globals_from_nested_scopes": g_globals_from_nested_scopes, "small_contracts": g_small_contracts, "nested_binders": g_nested_binders, "for_target": g_for_target, "namespace_isolation": g_namespace_isolation, "birthplace": g_birthplace, "method_super": g_method_super, "access_function": g_access_function, "access_class": g_access_class, "access_global": g_access_global,
          "transform_dispatch": g_transform_dispatch, "transform_generic": g_transform_generic, "transform_names": g_transform_names,
          "transform_comp": g_transform_comp, "walk": g_walk, "seeding": g_seeding, "canary": c13.g_canary}


# ----------------------------------------------------------------------------------------
SCOPE_PROGRAMS = [
    "n = 1000\nitem = 'module item'\ndef outer(n, item):\n    def inner():\n        global n, item\n        return [item for item in ('a', 'b')], (lambda n: n * 2)(100), n, item\n    return inner()\nr = outer(1, 'p')\n",
    # a name made global by a function in between is global in everything nested in that function (4.2.2)
    "x = 'global'\ndef f():\n    x = 'local'\n    def g():\n        global x\n        def h():\n            return x\n        class K:\n            y = x\n        return h(), K.y, (lambda: x)()\n    return g(), x\nr = f()\n",
    "x = 'g'\ndef outer(x):\n    y = 'local'\n    def inner():\n        global x, y\n        x = x + '!'\n        f = lambda: (x, [x for q in (1,)])\n        y = 'set'\n        return x, f()\n    class K:\n        global x\n        z = x\n    return inner(), x, y, K.z\nr = (outer('p'), x, y)\n",
    "limit = 1\nclass A:\n    limit = 2\n    f = lambda self: limit\n    double = limit * 2\n    seq = (1, 2)\n    g = [q + limit for q in seq]\n    h = [[p + q for p in seq2] for q in seq for seq2 in [(q,)]]\n    k = (lambda a=limit: a + limit)()\nr = (A.double, A().f(), A.g, A.h, A.k)\n",
    "def f(limit):\n    class A:\n        own = 5\n        g = [limit + q for q in (own,)]\n        h = lambda self: limit\n    return A.g, A().h()\nr = f(3)\n",
    "def f(x):\n    def g():\n        return x\n    x = [5, 6]\n    return [x for x in x], {x: x for x in x}, list(x for x in x), [y for x in [x] for y in x], g()\nr = f(0)\n",
    "def f(x):\n    def g():\n        return x\n    x = x + 4\n    fs = [(lambda: x + 3) for x in (10, 10, 10)]\n    h = lambda x: (lambda y: x + y)\n    return [k() for k in fs], h(1)(2), g()\nr = f(10)\n",
    "def f(*rest, **kw):\n    def g():\n        return rest, kw\n    return g()\nr = f(1, 2, a=3)\n",
    "def F(a, b=2, *c, d=4, **e):\n    def G():\n        return a, b, c, d, e\n    a = a + 1\n    return G()\nr = F(1, 5, 6, z=7)\n",
    "def f():\n    xs = [1, 2]\n    def g():\n        return xs\n    return [y for y in xs if y in xs], [[z for z in xs] for y in xs], g()\nr = f()\n",
    "def F():\n    x = 0\n    def G():\n        nonlocal x\n        x = 1\n        def H():\n            return x\n        return H\n    return G()()\nr = F()\n",
    "def F():\n    import os\n    def G():\n        return os.sep\n    return G()\nr = F()\n",
    "def F(a):\n    def G():\n        def H():\n            return a\n        return H()\n    return G()\nr = F(3)\n",
    "def F():\n    x = 1\n    class C:\n        def m(self):\n            return x\n    return C().m()\nr = F()\n",
    "def F():\n    x = 1\n    class C:\n        y = x\n        def m(self):\n            nonlocal x\n            x += 1\n            return x\n    return C.y, C().m(), x\nr = F()\n",
    "x = 5\ndef F():\n    global x\n    x = 6\n    def G():\n        return x\n    return G()\nr = (F(), x)\n",
    "def F():\n    def inner(): pass\n    def G():\n        return inner\n    return G() is inner\nr = F()\n",
]


def replay_scope(rp):
    from suites import replay_util as RU
    for src in SCOPE_PROGRAMS:
        rep = RU.replay_source(src, "same-globals", names=["r", "x"])
        if rep.get("reproduced"):
            return rep
    return dict(reproduced=False, tried=len(SCOPE_PROGRAMS))


REPLAY = {"scope": replay_scope, "scope-access": replay_scope, "src": c13.replay_src}

from suites import thorough as _th
GROUPS["thorough:scope-programs"] = _th.bounded_from_replay("bounded/scope-programs", replay_scope)
from suites import progenum as _pg
GROUPS["thorough:enum-expressions-in-scopes"] = _th.only_thorough(_pg.g_f8)
GROUPS["thorough:enum-binding-forms"] = _th.only_thorough(_pg.g_f4)

# defaults and decorators of a def are evaluated in the DEFINING scope (a scoping obligation:
# the shared C07/C11 group runs the real constructor and get_result with two distinct namespaces)
def _functiondef(R, tier):
    from suites import c07
    c07.g_functiondef(R, tier)


GROUPS["functiondef_scopes"] = _functiondef
REPLAY.update({k: v for k, v in __import__("suites.c07", fromlist=["REPLAY"]).REPLAY.items() if k not in REPLAY})

# bounded stand-ins for undecided obligations (olvc/oblig.py::main_check)
STANDINS = {"*": [dict(kind="scope")]}


def g_witness(R, tier):
    native_finding(R, "namespaces.NamespaceClass.get_load_name/W1-a-global-declaration-of-a-class-body-does-not-reach-its-comprehensions",
                   "a class body's `global x` is applied to the comprehensions and lambdas written in that class body as well; in Python they are scopes of their own "
                   "that skip the class (4.2.2) and read the enclosing function's x",
                   "def f():\n    x = 'local'\n    class K:\n        global x\n        x = 'global'\n        r = [x for _ in range(1)]\n    return K.r\nr = f()\n")


GROUPS["witness"] = g_witness


def _import_bindings(R, tier):
    """an import statement BINDS a name: through the namespace of its scope like every other binding
    (global declarations, captured names, class members) -- the obligations of C14, required here too"""
    from suites import c14
    c14.g_import(R, tier)
    c14.g_import_from(R, tier)


GROUPS["import_bindings"] = _import_bindings
