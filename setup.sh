#!/bin/sh
# Build the 3.12 overlay venv (z3-solver + jsonschema from the offline wheelhouse).
set -e
cd "$(dirname "$0")"
if [ ! -x .venv312/bin/python ] || ! .venv312/bin/python -c "import z3" 2>/dev/null; then
  rm -rf .venv312
  /venv/bin/python -m venv .venv312
  PIP_NO_INDEX=1 .venv312/bin/pip install -q --no-index --find-links /opt/veriftools/wheels z3-solver jsonschema
fi
.venv312/bin/python -c "import z3, sys; print('venv312 ok', sys.version_info[:3], z3.get_version_string())"
