"""Side-car contracts for oneliner/expr_unparse.py.

* symbolic node builders (shape classes) for every expression kind,
* the driver that runs the REAL `unparse_*` generators through their yield/send protocol,
  answering every yield with the child contract "R(child): some non-empty text",
* the PRODUCTION of every kind, written from the grammar (spec side, independent of the
  repository code), in the same template algebra the engine extracts,
* the list of (child, slot) pairs every kind must request.
"""
from __future__ import annotations

import ast

import z3

from olvc import extract, ops
from olvc.interp import IRaise, IStop
from olvc.sym import Opaque, Seg, SInt, ctx
from olvc.tmpl import Fn, Hole, Join, Tmpl, tcat
from spec import pygrammar as G

MOD = "oneliner.expr_unparse"


def eu():
    return extract.repo_module(MOD)


# ----------------------------------------------------------------------------------------
# child contract and driver


def child_text(child):
    """Contract of the trampoline towards a generator: what is sent back for a requested
    child is its finished text -- some non-empty string we know nothing else about."""
    tag = child.tag if isinstance(child, (Opaque,)) else ("node", id(child))
    return Hole(("txt", tag), "text")


def drive(gen, answer=child_text, compose=None):
    """run an interpreted generator to completion; -> (yields, result).
    compose=(machine, qm): real (non-opaque) child nodes are answered by R_text."""
    ys = []
    sent = None
    while True:
        try:
            y = gen.send(sent)
        except IRaise as e:
            if isinstance(e.exc, IStop):
                return ys, e.exc.value
            raise
        c = ctx()
        if not (isinstance(y, tuple) and len(y) == 2):
            ys.append(dict(prec=None, child=y, generic=()))
            sent = None
            continue
        ys.append(dict(prec=y[0], child=y[1], generic=tuple(g[0].tag for g in c.generic),
                       segs=tuple(g[0] for g in c.generic)))
        if compose is not None and not isinstance(y[1], Opaque) and isinstance(y[1], ast.AST):
            sent = R_text(compose[0], y[1], y[0], compose[1])
        elif compose is not None:
            sent = child_text(y[1])
        else:
            sent = answer(y[1])


def R_text(m, node, slot_prec, qm='"'):
    """The trampoline CONTRACT R(t, s, q) (DESIGN A1) for a partly concrete tree: the text
    of the real generator of `node` with every requested child answered by R again,
    wrapped in parentheses iff node_prec > slot_prec.  Opaque children are holes."""
    if isinstance(node, Opaque):
        return child_text(node)
    mod = eu()
    fn = mod._Node.gen_map[type(node)]
    np_ = m.call_value(mod.get_node_precedence, node)
    if fn in (mod.unparse_Constant, mod.unparse_JoinedStr):
        myqm = {"'": '"', '"': "'"}[qm]
        gen = m.call_value(fn, node, myqm)
    elif fn is mod.unparse_FormattedValue:
        myqm = qm
        gen = m.call_value(fn, node, myqm)
    else:
        myqm = qm
        gen = m.call_value(fn, node)
    from olvc.interp import IGen
    if isinstance(gen, IGen):
        ys, res = drive(gen, lambda ch, p=None: None, compose=(m, myqm))
    else:
        res = gen
    if np_ > slot_prec:
        return tcat("(", res, ")")
    return res


# ----------------------------------------------------------------------------------------
# builders


def O(tag, cls=ast.expr, **kw):
    return Opaque(tag, cls, **kw)


def seg(tag, cls=ast.expr, length=None, mk=None, like=None):
    """like: another Seg this one is aligned with (same length, same round variable)"""
    c = ctx()
    if like is not None:
        length = zint_of(like.length)
    n = z3.Int(f"n_{tag}") if length is None else length
    if length is None:
        c.assume(n >= 0)
    j = z3.Int(f"j_{tag}") if like is None else like.jvar
    item = mk((tag, j)) if mk else Opaque((tag, j), cls)
    return Seg(tag, SInt(n) if z3.is_expr(n) else n, j, [item])


def ident(tag):
    return Hole(tag, "ident")


def smap(lst, f):
    """map over a list with segments (spec-side helper)"""
    out = []
    for x in lst:
        if isinstance(x, Seg):
            out.append(Seg(("map", x.tag), x.length, x.jvar, [f(i) for i in x.items], x.rev))
        else:
            out.append(f(x))
    return out


def szip(a, b, f):
    out = []
    assert len(a) == len(b)
    for x, y in zip(a, b):
        if isinstance(x, Seg):
            assert isinstance(y, Seg)
            yi = [ops.subst_j(i, y.jvar, x.jvar) for i in y.items]
            out.append(Seg(("zip", x.tag, y.tag), x.length, x.jvar, [f(p, q) for p, q in zip(x.items, yi)], x.rev))
        else:
            out.append(f(x, y))
    return out


def arguments_shape(shape):
    """ast.arguments with symbolic lists.  `shape` fixes how defaults align:
    'd<=a'  posonly P | args A1 ++ A2, defaults D (|D| = |A2|)
    'd>a'   posonly P1 ++ P2 | args A, defaults D1 ++ D2 (|D1| = |P2|, |D2| = |A|)"""
    c = ctx()
    a = lambda t: ast.arg(arg=ident((t, "arg")), annotation=None)
    if shape == "d<=a":
        P = seg("P", mk=a)
        A1 = seg("A1", mk=a)
        A2 = seg("A2", mk=a)
        D = seg("D", like=A2)
        pos, args, defaults = [P], [A1, A2], [D]
    else:
        P1 = seg("P1", mk=a)
        P2 = seg("P2", mk=a)
        A = seg("A", mk=a)
        D1 = seg("D1", like=P2)
        D2 = seg("D2", like=A)
        c.assume(zint_of(P2.length) >= 1)
        pos, args, defaults = [P1, P2], [A], [D1, D2]
    KW = seg("KW", mk=a)
    # kw_defaults: one entry per kw-only argument, None or an expression
    KD = seg("KD", like=KW, mk=lambda t: Opaque(t, ast.expr, none=z3.Bool("KD.is_none")))
    KW2 = seg("KW2", mk=a)
    KD2 = seg("KD2", like=KW2, mk=lambda t: Opaque(t, ast.expr, none=z3.Bool("KD2.is_none")))
    va = None if c.branch(z3.Bool("vararg.is_none")) else a("VA")
    ka = None if c.branch(z3.Bool("kwarg.is_none")) else a("KA")
    return ast.arguments(posonlyargs=pos, args=args, vararg=va, kwonlyargs=[KW, KW2], kw_defaults=[KD, KD2],
                         kwarg=ka, defaults=defaults)


def zint_of(x):
    return x.t if isinstance(x, SInt) else z3.IntVal(x)


def optional(tag, cls=ast.expr):
    return None if ctx().branch(z3.Bool(f"{tag}.is_none")) else O(tag, cls)


def node_shapes():
    """kind name -> list of (shape name, builder()).  Builders run inside a path."""
    S = {}
    one = lambda f: [("-", f)]
    S["Name"] = one(lambda: ast.Name(id=ident("id"), ctx=ast.Load()))
    S["Attribute"] = one(lambda: ast.Attribute(value=O("value"), attr=ident("attr"), ctx=ast.Load()))
    S["Subscript"] = one(lambda: ast.Subscript(value=O("value"), slice=O("slice"), ctx=ast.Load()))
    def mk_sub_tuple():
        sl = ast.Slice(lower=O("sl.lower"), upper=O("sl.upper"), step=None)
        return ast.Subscript(value=O("value"),
                             slice=ast.Tuple(elts=[seg("E1"), sl, seg("E2")], ctx=ast.Load()), ctx=ast.Load())
    S["Subscript"].append(("slice=tuple-with-a-slice", mk_sub_tuple))
    S["Slice"] = one(lambda: ast.Slice(lower=optional("lower"), upper=optional("upper"), step=optional("step")))
    S["Starred"] = one(lambda: ast.Starred(value=O("value"), ctx=ast.Load()))
    # two adjacent runs wherever the generator distinguishes element classes: a list is a
    # concatenation of homogeneous runs, and the ORDER between runs of different classes
    # must be preserved (one homogeneous segment cannot see a reordering)
    S["Call"] = one(lambda: ast.Call(func=O("func"), args=[seg("args")],
                                     keywords=[seg("keywords", ast.keyword), seg("keywords2", ast.keyword)]))
    for op in G.BINOP_LEVEL:
        S[f"BinOp.{op.__name__}"] = one(lambda op=op: ast.BinOp(left=O("left"), op=op(), right=O("right")))
    for op in G.UNARY_LEVEL:
        S[f"UnaryOp.{op.__name__}"] = one(lambda op=op: ast.UnaryOp(op=op(), operand=O("operand")))
    for op in G.BOOL_LEVEL:
        S[f"BoolOp.{op.__name__}"] = one(lambda op=op: ast.BoolOp(op=op(), values=[seg("values")]))
    S["List"] = one(lambda: ast.List(elts=[seg("elts")], ctx=ast.Load()))
    S["Set"] = one(lambda: ast.Set(elts=[seg("elts")]))
    S["Tuple"] = one(lambda: ast.Tuple(elts=[seg("elts")], ctx=ast.Load()))

    def mk_dict():
        K = seg("keys", mk=lambda t: Opaque(t, ast.expr, none=z3.Bool("keys.is_none")))
        V = seg("values", like=K)
        K2 = seg("keys2", mk=lambda t: Opaque(t, ast.expr, none=z3.Bool("keys2.is_none")))
        V2 = seg("values2", like=K2)
        return ast.Dict(keys=[K, K2], values=[V, V2])
    S["Dict"] = one(mk_dict)

    def mk_compare():
        OPS = seg("ops", ast.cmpop)
        CMP = seg("comparators", like=OPS)
        op1 = Opaque("op1", ast.cmpop)
        return ast.Compare(left=O("left"), ops=[OPS, op1], comparators=[CMP, O("cmp1")])
    S["Compare"] = one(mk_compare)
    S["NamedExpr"] = one(lambda: ast.NamedExpr(target=ast.Name(id=ident("target.id"), ctx=ast.Store()), value=O("value")))
    S["Lambda"] = [(sh, (lambda sh=sh: ast.Lambda(args=arguments_shape(sh), body=O("body")))) for sh in ("d<=a", "d>a")]
    gens = lambda: [seg("generators", ast.comprehension), seg("generators2", ast.comprehension)]
    S["ListComp"] = one(lambda: ast.ListComp(elt=O("elt"), generators=gens()))
    S["SetComp"] = one(lambda: ast.SetComp(elt=O("elt"), generators=gens()))
    S["GeneratorExp"] = one(lambda: ast.GeneratorExp(elt=O("elt"), generators=gens()))
    S["DictComp"] = one(lambda: ast.DictComp(key=O("key"), value=O("value"), generators=gens()))
    S["IfExp"] = one(lambda: ast.IfExp(test=O("test"), body=O("body"), orelse=O("orelse")))
    S["Yield"] = one(lambda: ast.Yield(value=optional("value")))
    S["YieldFrom"] = one(lambda: ast.YieldFrom(value=O("value")))
    S["Await"] = one(lambda: ast.Await(value=O("value")))
    return S


# ----------------------------------------------------------------------------------------
# spec side: productions and requested children


CUR_M = [None]  # machine of the current path (spec side may call verified contracts)


def TX(child):
    return child_text(child)


def _lit_or(x):
    return x


def production(node):
    """token schema of the node, from the grammar; children appear as TX(child)"""
    k = type(node)
    if k is ast.Name:
        return tcat(node.id)
    if k is ast.Attribute:
        # redundant parentheses around the object are allowed (and needed for `(1).real`)
        return [tcat(TX(node.value), ".", node.attr), tcat("(", TX(node.value), ")", ".", node.attr)]
    if k is ast.Subscript:
        elts, has_slice = subscript_tuple(node.slice)
        if elts is not None and has_slice:
            # slices: ','.(slice | starred_expression)+ [','] -- a BARE tuple: a
            # parenthesised tuple atom cannot contain a Slice
            def item(e):
                if isinstance(e, ast.Slice):
                    # the text of a Slice is decided by unparse_Slice's own contract
                    return R_text(CUR_M[0], e, 10 ** 6)
                return TX(e)
            inner = Join(",", smap(elts, item))
            n = ops.sym_len(elts)
            single = (n == 1) if isinstance(n, int) else ctx().branch(ops.zint(n) == 1)
            with_comma = tcat(TX(node.value), "[", inner, ",", "]")
            if single:
                return with_comma
            return [tcat(TX(node.value), "[", inner, "]"), with_comma]
        return tcat(TX(node.value), "[", TX(node.slice), "]")
    if k is ast.Slice:
        lo = TX(node.lower) if node.lower is not None else ""
        up = TX(node.upper) if node.upper is not None else ""
        if node.step is not None:
            return tcat(lo, ":", up, ":", TX(node.step))
        # slice: [expression] ':' [expression] [':' [expression]] -- a trailing ':' is the same tree
        return [tcat(lo, ":", up), tcat(lo, ":", up, ":")]
    if k is ast.Starred:
        return tcat("*", TX(node.value))
    if k is ast.Call:
        def kw(x):
            arg = ops.opaque_getattr(x, "arg") if isinstance(x, Opaque) else x.arg
            val = ops.opaque_getattr(x, "value") if isinstance(x, Opaque) else x.value
            if arg is None:
                return tcat("**", TX(val))
            return tcat(arg, "=", TX(val))
        items = smap(node.args, TX) + smap(node.keywords, kw)
        return tcat(TX(node.func), "(", Join(",", items), ")")
    if k is ast.BinOp:
        return tcat(TX(node.left), G.OPERATOR_TEXT[type(node.op)], TX(node.right))
    if k is ast.UnaryOp:
        return tcat(G.UNARY_TEXT[type(node.op)], " ", TX(node.operand))
    if k is ast.BoolOp:
        return tcat(Join(" " + G.BOOL_TEXT[type(node.op)] + " ", smap(node.values, TX)))
    if k is ast.List:
        return tcat("[", Join(",", smap(node.elts, TX)), "]")
    if k is ast.Set:
        return tcat("{", Join(",", smap(node.elts, TX)), "}")
    if k is ast.Tuple:
        # tuple: '(' [star_named_expression ',' [star_named_expressions]] ')'
        n = ops.sym_len(node.elts)
        c = ctx()
        one = c.branch(ops.zint(n) == 1) if not isinstance(n, int) else n == 1
        if one:
            return tcat("(", Join(",", smap(node.elts, TX)), ",", ")")
        return tcat("(", Join(",", smap(node.elts, TX)), ")")
    if k is ast.Dict:
        def kv(key, val):
            isnone = ops.identity(key, None)
            if ops.truth(isnone):
                return tcat("**", TX(val))
            return tcat(TX(key), ":", TX(val))
        return tcat("{", Join(",", szip(node.keys, node.values, kv)), "}")
    if k is ast.Compare:
        def oc(op, cmp):
            t = ops.opaque_type(op) if isinstance(op, Opaque) else type(op)
            return tcat(" ", G.CMP_TEXT[t], " ", TX(cmp))
        return tcat(TX(node.left), Join("", szip(node.ops, node.comparators, oc)))
    if k is ast.NamedExpr:
        return tcat(node.target.id, ":=", TX(node.value))
    if k is ast.IfExp:
        return tcat(TX(node.body), " if ", TX(node.test), " else ", TX(node.orelse))
    if k is ast.Yield:
        if node.value is None:
            return "yield"
        return tcat("yield ", TX(node.value))
    if k is ast.YieldFrom:
        return tcat("yield from ", TX(node.value))
    if k is ast.Await:
        return tcat("await ", TX(node.value))
    if k in (ast.ListComp, ast.SetComp, ast.GeneratorExp, ast.DictComp):
        def clause(g):
            ga = lambda f: ops.opaque_getattr(g, f)
            is_async = ga("is_async")
            pre = "async " if ops.truth(is_async) else ""
            ifl = ga("ifs")
            n = ops.sym_len(ifl)
            nonempty = n > 0 if isinstance(n, int) else ctx().branch(ops.zint(n) > 0)
            ifs = tcat(" if ", Join(" if ", smap(ifl, TX))) if nonempty else ""
            return tcat(pre, "for ", TX(ga("target")), " in ", TX(ga("iter")), ifs)
        cl = Join(" ", smap(node.generators, clause))
        if k is ast.DictComp:
            return tcat("{", TX(node.key), ":", TX(node.value), " ", cl, "}")
        if k is ast.ListComp:
            return tcat("[", TX(node.elt), " ", cl, "]")
        if k is ast.SetComp:
            return tcat("{", TX(node.elt), " ", cl, "}")
        return tcat(TX(node.elt), " ", cl)
    if k is ast.Lambda:
        return lambda_production(node)
    raise KeyError(k)


def subscript_tuple(sl):
    """(elts, contains a Slice) if the subscript is known to be a tuple, else (None, False)"""
    if isinstance(sl, ast.Tuple):
        elts = sl.elts
    elif isinstance(sl, Opaque) and sl.cands == frozenset([ast.Tuple]):
        elts = ops.opaque_getattr(sl, "elts")
    else:
        return None, False
    has = False
    for e in elts:
        for it in (e.items if isinstance(e, Seg) else [e]):
            if isinstance(it, ast.Slice) or (isinstance(it, Opaque) and it.cands == frozenset([ast.Slice])):
                if isinstance(e, Seg):
                    nz, _ = ctx().valid(ops.zint(e.length) > 0)
                    has = has or nz
                else:
                    has = True
    return elts, has


def lambda_production(node):
    """lambdef: 'lambda' [lambda_params] ':' expression
    lambda_params: slash_no_default | slash_with_default | param(_with_default)* ['*' ...] ['**' ...]"""
    a = node.args
    c = ctx()

    def plain(x):
        return tcat(x.arg)

    # defaults are aligned to the right over posonly ++ args: the builder's shape classes
    # make that alignment explicit (see arguments_shape)
    def with_default(arg_list, d_list):
        return szip(arg_list, d_list, lambda x, d: tcat(x.arg, "=", TX(d)))

    items = []
    if len(a.posonlyargs) == 1:  # shape d<=a: P | A1 A2 ; D aligns with A2
        P, (A1, A2), (D,) = a.posonlyargs, a.args, a.defaults
        pos = smap(P, plain)
        rest = smap([A1], plain) + with_default([A2], [D])
    else:  # shape d>a: P1 P2 | A ; D1 aligns with P2, D2 with A
        (P1, P2), (A,), (D1, D2) = a.posonlyargs, a.args, a.defaults
        pos = smap([P1], plain) + with_default([P2], [D1])
        rest = with_default([A], [D2])
    npos = ops.sym_len(a.posonlyargs)
    has_pos = c.branch(ops.zint(npos) > 0) if not isinstance(npos, int) else npos > 0
    items += pos
    if has_pos:
        items.append("/")
    items += rest
    nkw = ops.sym_len(a.kwonlyargs)
    has_kw = c.branch(ops.zint(nkw) > 0) if not isinstance(nkw, int) else nkw > 0
    if a.vararg is not None:
        items.append(tcat("*", a.vararg.arg))
    elif has_kw:
        items.append("*")

    def kwitem(x, d):
        if ops.truth(ops.identity(d, None)):
            return tcat(x.arg)
        return tcat(x.arg, "=", TX(d))
    items += szip(a.kwonlyargs, a.kw_defaults, kwitem)
    if a.kwarg is not None:
        items.append(tcat("**", a.kwarg.arg))
    params = Join(",", items)
    return tcat("lambda ", params, ":", TX(node.body))


def requested_children(node):
    """[(child value | Seg of children, slot info)] every kind must request exactly once"""
    k = type(node)
    op = type(node.op) if k in (ast.BinOp, ast.UnaryOp, ast.BoolOp) else None
    out = []

    def add(child, field, parent=k, case=None, op=op):
        if child is None:
            return
        out.append((child, G.slot(parent, field, op=op, case=case), f"{parent.__name__}.{field}" + (f"[{case}]" if case else "")))

    def add_list(lst, field, parent=k, case=None):
        for x in lst:
            add(x, field, parent, case)

    if k is ast.Name:
        return out
    if k in (ast.Attribute, ast.Starred, ast.YieldFrom, ast.Await):
        add(node.value, "value")
    elif k is ast.Yield:
        add(node.value, "value")
    elif k is ast.Subscript:
        add(node.value, "value")
        elts, has_slice = subscript_tuple(node.slice)
        if elts is not None and has_slice:
            sl_slot = dict(G.slot(ast.Tuple, "elts"))
            sl_slot["slice"] = True  # elements of a bare subscript tuple may be slices
            for x in elts:
                if not isinstance(x, ast.AST):
                    out.append((x, sl_slot, "Subscript.slice.elts"))
        elif isinstance(node.slice, Opaque):
            add(node.slice, "slice")
    elif k is ast.Slice:
        add(node.lower, "lower")
        add(node.upper, "upper")
        add(node.step, "step")
    elif k is ast.Call:
        add(node.func, "func")
        c = ctx()
        na, nk = ops.sym_len(node.args), ops.sym_len(node.keywords)
        sole, _ = c.valid(z3.And(ops.zint(na) == 1, ops.zint(nk) == 0))
        add_list(node.args, "args", case="sole" if sole else None)
        for x in node.keywords:
            if isinstance(x, Seg):
                vals = [ops.opaque_getattr(i, "value") for i in x.items]
                out.append((Seg(("kwv", x.tag), x.length, x.jvar, vals, x.rev), G.slot(ast.keyword, "value"), "keyword.value"))
            else:
                add(x.value, "value", parent=ast.keyword)
    elif k is ast.BinOp:
        add(node.left, "left")
        add(node.right, "right")
    elif k is ast.UnaryOp:
        add(node.operand, "operand")
    elif k is ast.BoolOp:
        add_list(node.values, "values")
    elif k in (ast.List, ast.Set, ast.Tuple):
        add_list(node.elts, "elts")
    elif k is ast.Dict:
        for K_, V_, flag in zip(node.keys, node.values, ("keys.is_none", "keys2.is_none")):
            isnone, _ = ctx().valid(z3.Bool(flag))
            if isnone:
                add(V_, "values", case="double_star")
            else:
                add(K_, "keys")
                add(V_, "values")
    elif k is ast.Compare:
        add(node.left, "left")
        add_list(node.comparators, "comparators")
    elif k is ast.NamedExpr:
        add(node.value, "value")
    elif k is ast.IfExp:
        add(node.test, "test")
        add(node.body, "body")
        add(node.orelse, "orelse")
    elif k is ast.Lambda:
        add(node.body, "body")
        add_list(node.args.defaults, "defaults")
        for KD_, flag in zip(node.args.kw_defaults, ("KD.is_none", "KD2.is_none")):
            kdnone, _ = ctx().valid(z3.Bool(flag))
            if not kdnone:
                add(KD_, "kw_defaults")
    elif k in (ast.ListComp, ast.SetComp, ast.GeneratorExp, ast.DictComp):
        if k is ast.DictComp:
            add(node.key, "key")
            add(node.value, "value")
        else:
            add(node.elt, "elt")
        for g in node.generators:
            assert isinstance(g, Seg)
            gi = g.items[0]
            for f in ("target", "iter"):
                out.append((Seg((f, g.tag), g.length, g.jvar, [ops.opaque_getattr(gi, f)], g.rev),
                            G.slot(ast.comprehension, f), f"comprehension.{f}"))
            for inner in ops.opaque_getattr(gi, "ifs"):
                out.append((("nested", g, inner), G.slot(ast.comprehension, "ifs"), "comprehension.ifs"))
    else:
        raise KeyError(k)
    return out
