"""Side-car contracts for the lowering layer (pending_nodes.py, utils.py, expr_transform.py):
abstract namespaces, the callee contracts used when a caller is verified, and builders for
symbolic source nodes.  No repository code is copied here."""
from __future__ import annotations

import ast

import z3

from olvc import extract, ops
from olvc.interp import HFn
from olvc.sym import Opaque, Seg, SInt, ctx, tagstr, _leaf_classes
from olvc.tmpl import Hole

PN = "oneliner.pending_nodes"


def pn():
    return extract.repo_module(PN)


def nsmod():
    return extract.repo_module("oneliner.namespaces")


def utils():
    return extract.repo_module("oneliner.utils")


# ----------------------------------------------------------------------------------------
# abstract nodes


def absnode(tag, sem, cands=None):
    c = ctx()
    return Opaque((tag, next(c.counter)), ast.expr, cands=cands, sem=sem)


def T(scope, e):
    """contract of expr_transf(nsp, e)"""
    # the transformation preserves the node class, except that a Name may become a
    # Subscript (dict access) and a NamedExpr a Subscript/Call form
    cands = None
    if isinstance(e, Opaque) and e.cands is not None:
        cands = set(e.cands)
        if ast.Name in cands or ast.NamedExpr in cands:
            cands |= {ast.Subscript}
        cands = frozenset(cands)
    return absnode(("T", scope, tagstr(e.tag) if isinstance(e, Opaque) else repr(e)), ("T", scope, e), cands=cands)


def transform_contract(scope, node):
    """contract of expr_transf on a node the lowering built itself (e.g. the slice(...)
    call): a copy of the same shape whose opaque (source) sub-expressions are T(scope, .).
    (That the real ExpressionTransformer does exactly this is proved in suites/c06.)"""
    if isinstance(node, Opaque):
        return T(scope, node)
    if isinstance(node, Seg):  # a run of children: transformed child by child, in place
        return Seg(("T", scope, node.tag), node.length, node.jvar, [transform_contract(scope, i) for i in node.items], node.rev, node.cls_note)
    if isinstance(node, ast.Name) and isinstance(node.ctx, ast.Load):
        return absnode(("load", scope), ("load", scope, node.id), cands=frozenset([ast.Name, ast.Subscript]))
    if isinstance(node, ast.AST):
        new = type(node).__new__(type(node))
        for f in node._fields:
            if not hasattr(node, f):
                continue
            v = getattr(node, f)
            if isinstance(v, list):
                setattr(new, f, [transform_contract(scope, x) if isinstance(x, (ast.AST, Opaque, Seg)) else x for x in v])
            elif isinstance(v, (ast.expr, Opaque)):
                setattr(new, f, transform_contract(scope, v))
            else:
                setattr(new, f, v)
        return new
    return node


def stub_expr_transf(log=None):
    def f(it, nsp, node):
        scope = nsp.tag if isinstance(nsp, Opaque) else getattr(nsp, "tag", type(nsp).__name__)
        r = transform_contract(scope, node)
        if log is not None:
            log.append((scope, node))
        ctx().log("expr_transf", scope, node)
        return r
    return f


def stub_ol_name():
    def f(it, fmt):
        c = ctx()
        n = sum(1 for e in c.trace if e and e[0] == "ol_name")
        c.log("ol_name", fmt)
        # one fresh name per call: inside a generic round the name depends on the round
        h = Hole(("fresh", n, fmt) + tuple(j for (_, j) in c.generic), "ident", fresh=True)
        if not hasattr(c, "ol_created"):
            c.ol_created = []
        c.ol_created.append(h)
        return h
    return f


def base_stubs(transf_log=None):
    return {
        "oneliner.expr_transform:expr_transf": stub_expr_transf(transf_log),
        "oneliner.reserved_identifiers:ol_name": stub_ol_name(),
    }


# ----------------------------------------------------------------------------------------
# namespaces


def _setattr_field(o, name, v):
    o.fields[name] = v


def mk_nsp(tag="nsp", kinds=("global", "function", "class"), **fields):
    """abstract Namespace: get_assign / get_load_name by contract (proved for the three
    real classes in suites/c06), everything else plain attributes"""
    ns = nsmod()
    kmap = {"global": ns.NamespaceGlobal, "function": ns.NamespaceFunction, "class": ns.NamespaceClass}

    def requires_identifier(what, name):
        """precondition of the namespace contract: the variable name is an identifier (it
        becomes a walrus target / Name.id / dict key of the emulated scope)"""
        ok = (isinstance(name, str) and name.isidentifier()) or \
            (isinstance(name, Hole) and name.kind == "ident" and not name.props.get("dotted") and not name.props.get("star"))
        if not ok and isinstance(name, Hole) and name.kind == "ident":
            c_ = ctx()
            ok = all(c_.valid(z3.Not(name.fact(f)))[0] for f, flag in (("=='*'", "star"), ) if name.props.get(flag))
            if ok and name.props.get("dotted"):
                from olvc.tmpl import t_contains
                b = t_contains(".", name)
                ok = b is False or (b is not True and c_.valid(z3.Not(b.t))[0])
        if not ok:
            ctx().log("requires-failed", what, f"the name argument {name!r} is not provably an identifier")

    def get_assign(o, name, value):
        requires_identifier(f"{tag}.get_assign", name)
        return absnode(("store", tag), ("store", tag, name, value), cands=frozenset([ast.NamedExpr, ast.Call]))

    def get_load_name(o, name):
        requires_identifier(f"{tag}.get_load_name", name)
        return absnode(("load", tag), ("load", tag, name), cands=frozenset([ast.Name, ast.Subscript]))
    f = dict(loop_stack=[], comp_stack=[], inner_nsp=[])
    f.update(fields)
    return Opaque(tag, None, cands=frozenset(kmap[k] for k in kinds), fields=f,
                  methods=dict(get_assign=get_assign, get_load_name=get_load_name), setattr=_setattr_field)


def mk_global(tag="G", if_style="if_expr", expr_wrapper="chain_call", seq_contract=True):
    """A REAL NamespaceGlobal object (so that class-level state behind its attributes is
    really there and writes to it are seen by the frame check), with real Configs carrying
    the given options; expr_wraper is replaced by its contract Seq(list) (proved in
    suites/c01) unless seq_contract is False."""
    import symtable
    ns = nsmod()
    cfgm = extract.repo_module("oneliner.config")
    cfg = cfgm.Configs()
    cfg.if_style = if_style
    cfg.expr_wrapper = expr_wrapper
    g = ns.NamespaceGlobal(symtable.symtable("", "<harness>", "exec"), [])
    g.load_configs(cfg)
    g.tag = tag
    c = ctx()
    c.fresh_objs.add(id(g))
    c.keep.append(g)

    def wraper(lst):
        snapshot = list(lst)
        ctx().log("expr_wraper", snapshot)
        return absnode(("seq", tag), ("seq", snapshot))
    if seq_contract:
        g.expr_wraper = HFn(wraper, "expr_wraper")
    return g


def mk_pending(cls, node, nsp, nsp_global, m=None, **attrs):
    """Instance of a Pending* class.  With a machine `m` the REAL constructor is run
    (interpreted), so whatever state __init__ sets up is there; `attrs` are set afterwards
    (state that in a real conversion is produced by the children's conversion)."""
    if m is not None:
        obj = m.call_value(cls, node, nsp=nsp, nsp_global=nsp_global)
    else:
        obj = object.__new__(cls)
        obj.node = node
        obj.nsp = nsp
        obj.nsp_global = nsp_global
    for k, v in attrs.items():
        setattr(obj, k, v)
    return obj


# ----------------------------------------------------------------------------------------
# symbolic source nodes

EXPR_LEAVES = _leaf_classes(ast.expr)


def src(tag, cls=ast.expr, exclude=(), only=None, **kw):
    """opaque source node"""
    if only is not None:
        cands = frozenset(only)
    else:
        cands = frozenset(c for c in _leaf_classes(cls) if c not in exclude)
    return Opaque(tag, cls, cands=cands, **kw)


def fn_body():
    """the body of a def/class node of a harness: never empty (the parser never produces an empty body),
    two statements of unknown kind"""
    return [src("first-statement", ast.stmt, only=[ast.Pass, ast.Expr, ast.Return, ast.If]),
            src("last-statement", ast.stmt, only=[ast.Pass, ast.Expr, ast.Return, ast.If, ast.While])]


def seg(tag, mk, length=None, like=None):
    c = ctx()
    if like is not None:
        n, j = ops.zint(like.length), like.jvar
    else:
        n = z3.Int(f"n_{tag}") if length is None else length
        if length is None:
            c.assume(n >= 0)
        j = z3.Int(f"j_{tag}")
    return Seg(tag, SInt(n) if z3.is_expr(n) else n, j, [mk((tag, j))])
